#![feature(rustc_private)]
// rsfacts: rustc_private driver that dumps resolved-program facts as JSON lines.
//   {"k":"fn", ...}    one per fn/assoc fn body: signature, parent impl, typed HIR tree
//   {"k":"mir", ...}   one per body (fn, assoc fn, closure/coroutine): resolved call edges, asserts
//   {"k":"adt", ...}   structs/enums with fields/variants/discriminants
//   {"k":"const", ...} evaluated integer consts and assoc consts
//   {"k":"impl", ...}  impl blocks: trait ref, self type, items, normalised assoc types
// Output: $RSFACTS_OUT/<crate>.jsonl (one write per process).
extern crate rustc_abi;
extern crate rustc_ast;
extern crate rustc_driver;
extern crate rustc_hir;
extern crate rustc_interface;
extern crate rustc_middle;
extern crate rustc_span;

mod hirdump;
mod json;

use hirdump::{dpath, tystr};
use json::s;
use rustc_driver::{Callbacks, Compilation};
use rustc_hir::def::DefKind;
use rustc_middle::mir::{AssertKind, BinOp, TerminatorKind};
use rustc_middle::ty::print::PrintTraitRefExt;
use rustc_middle::ty::{self, TyCtxt};
use std::io::Write;

struct Cb;

fn span_str<'tcx>(tcx: TyCtxt<'tcx>, sp: rustc_span::Span) -> String {
    let sp = sp.source_callsite();
    let lo = tcx.sess.source_map().lookup_char_pos(sp.lo());
    format!("{}:{}", lo.line, lo.col.0 + 1)
}
fn file_line<'tcx>(tcx: TyCtxt<'tcx>, sp: rustc_span::Span) -> (String, usize) {
    let sp = sp.source_callsite();
    let lo = tcx.sess.source_map().lookup_char_pos(sp.lo());
    let f = match &lo.file.name {
        rustc_span::FileName::Real(r) => r
            .local_path()
            .map(|p| p.to_string_lossy().to_string())
            .unwrap_or_else(|| format!("{:?}", lo.file.name)),
        n => format!("{:?}", n),
    };
    (f, lo.line)
}
fn macro_name(sp: rustc_span::Span) -> Option<String> {
    let mut cur = sp;
    let mut name = None;
    while cur.from_expansion() {
        let d = cur.ctxt().outer_expn_data();
        if let rustc_span::ExpnKind::Macro(_, n) = d.kind {
            name = Some(n.to_string());
        }
        cur = d.call_site;
    }
    name
}

fn binop_name(op: &BinOp) -> &'static str {
    match op {
        BinOp::Add | BinOp::AddWithOverflow | BinOp::AddUnchecked => "add",
        BinOp::Sub | BinOp::SubWithOverflow | BinOp::SubUnchecked => "sub",
        BinOp::Mul | BinOp::MulWithOverflow | BinOp::MulUnchecked => "mul",
        BinOp::Shl | BinOp::ShlUnchecked => "shl",
        BinOp::Shr | BinOp::ShrUnchecked => "shr",
        BinOp::Div => "div",
        BinOp::Rem => "rem",
        _ => "other",
    }
}

fn mir_facts<'tcx>(tcx: TyCtxt<'tcx>, did: rustc_hir::def_id::DefId, buf: &mut String) {
    let path = dpath(tcx, did);
    let body = tcx.optimized_mir(did);
    let te = ty::TypingEnv::post_analysis(tcx, did);
    let mut calls = String::from("[");
    let mut asserts = String::from("[");
    let mut nc = 0;
    let mut na = 0;
    for (_bb, data) in body.basic_blocks.iter_enumerated() {
        let Some(term) = &data.terminator else { continue };
        let sp = term.source_info.span;
        match &term.kind {
            TerminatorKind::Assert { msg, .. } => {
                let k: String = match &**msg {
                    AssertKind::BoundsCheck { .. } => "bounds".into(),
                    AssertKind::Overflow(op, ..) => format!("overflow_{}", binop_name(op)),
                    AssertKind::OverflowNeg(..) => "overflow_neg".into(),
                    AssertKind::DivisionByZero(..) => "div0".into(),
                    AssertKind::RemainderByZero(..) => "rem0".into(),
                    AssertKind::ResumedAfterReturn(..)
                    | AssertKind::ResumedAfterPanic(..)
                    | AssertKind::ResumedAfterDrop(..) => continue,
                    AssertKind::MisalignedPointerDereference { .. } => continue,
                    AssertKind::NullPointerDereference => continue,
                    AssertKind::InvalidEnumConstruction(..) => continue,
                };
                if na > 0 {
                    asserts.push(',');
                }
                na += 1;
                asserts.push_str(&format!(
                    "[{},{},{}]",
                    s(&span_str(tcx, sp)),
                    s(&k),
                    match macro_name(sp) {
                        Some(m) => s(&m),
                        None => "null".into(),
                    }
                ));
            }
            TerminatorKind::Call { func, .. } | TerminatorKind::TailCall { func, .. } => {
                let fty = func.ty(&body.local_decls, tcx);
                let (cp, resolved, ga) = if let ty::FnDef(callee, args) = fty.kind() {
                    let cp = dpath(tcx, *callee);
                    let resolved = match ty::Instance::try_resolve(tcx, te, *callee, args) {
                        Ok(Some(i)) => dpath(tcx, i.def_id()),
                        _ => String::from("-"),
                    };
                    let ga: Vec<String> = args
                        .iter()
                        .map(|a| hirdump::with_full(|| format!("{}", a)))
                        .collect();
                    (cp, resolved, ga.join(", "))
                } else {
                    (format!("<indirect:{}>", tystr(fty)), String::from("-"), String::new())
                };
                if nc > 0 {
                    calls.push(',');
                }
                nc += 1;
                calls.push_str(&format!(
                    "[{},{},{},{},{}]",
                    s(&span_str(tcx, sp)),
                    s(&cp),
                    s(&resolved),
                    s(&ga),
                    match macro_name(sp) {
                        Some(m) => s(&m),
                        None => "null".into(),
                    }
                ));
            }
            _ => {}
        }
    }
    calls.push(']');
    asserts.push(']');
    buf.push_str(&format!(
        "{{\"k\":\"mir\",\"path\":{},\"calls\":{},\"asserts\":{}}}\n",
        s(&path),
        calls,
        asserts
    ));
}

fn scalar_of_const<'tcx>(tcx: TyCtxt<'tcx>, did: rustc_hir::def_id::DefId) -> Option<String> {
    let t = tcx.type_of(did).instantiate_identity().skip_norm_wip();
    let is_int = matches!(t.kind(), ty::Int(_) | ty::Uint(_) | ty::Bool | ty::Char);
    if !is_int {
        return None;
    }
    let v = tcx.const_eval_poly(did).ok()?;
    let sc = v.try_to_scalar_int()?;
    let size = sc.size();
    match t.kind() {
        ty::Int(_) => Some(format!("{}", sc.to_int(size))),
        _ => Some(format!("{}", sc.to_uint(size))),
    }
}

impl Callbacks for Cb {
    fn after_analysis<'tcx>(
        &mut self,
        _c: &rustc_interface::interface::Compiler,
        tcx: TyCtxt<'tcx>,
    ) -> Compilation {
        let krate = tcx.crate_name(rustc_hir::def_id::LOCAL_CRATE).to_string();
        let only = std::env::var("RSFACTS_CRATES").unwrap_or_default();
        if !only.is_empty() && !only.split(',').any(|c| c == krate) {
            return Compilation::Continue;
        }
        let out = std::env::var("RSFACTS_OUT").expect("RSFACTS_OUT not set");
        std::fs::create_dir_all(&out).ok();
        let want_hir = std::env::var("RSFACTS_NO_HIR").is_err();
        let mut buf = String::new();
        let (mut nfn, mut nmir, mut nadt, mut nconst, mut nimpl) = (0, 0, 0, 0, 0);

        // bodies
        for ldid in tcx.hir_body_owners() {
            let did = ldid.to_def_id();
            let kind = tcx.def_kind(did);
            match kind {
                DefKind::Fn | DefKind::AssocFn => {
                    nfn += 1;
                    let path = dpath(tcx, did);
                    let (file, line) = file_line(tcx, tcx.def_span(did));
                    let vis = format!("{:?}", tcx.visibility(did));
                    let sig = tcx.fn_sig(did).instantiate_identity().skip_norm_wip().skip_binder();
                    let inputs: Vec<String> = sig.inputs().iter().map(|t| s(&tystr(*t))).collect();
                    let output = tystr(sig.output());
                    let name = tcx.item_name(did).to_string();
                    let is_async = tcx.asyncness(did).is_async();
                    // parent impl/trait
                    let mut parent = String::from("null");
                    let mut self_ty = String::from("null");
                    let mut trait_ref = String::from("null");
                    let mut parent_kind = String::from("null");
                    if kind == DefKind::AssocFn {
                        let p = tcx.parent(did);
                        parent = s(&dpath(tcx, p));
                        match tcx.def_kind(p) {
                            DefKind::Impl { of_trait } => {
                                parent_kind = s(if of_trait { "trait_impl" } else { "inherent_impl" });
                                self_ty = s(&tystr(tcx.type_of(p).instantiate_identity().skip_norm_wip()));
                                if of_trait {
                                    let tr = tcx.impl_trait_ref(p).instantiate_identity().skip_norm_wip();
                                    trait_ref = s(&hirdump::with_full(|| format!("{}", tr.print_only_trait_path())));
                                }
                            }
                            DefKind::Trait => {
                                parent_kind = s("trait");
                            }
                            _ => {}
                        }
                    }
                    let (params, hir) = if want_hir {
                        hirdump::dump_body(tcx, ldid)
                    } else {
                        ("[]".into(), "null".into())
                    };
                    buf.push_str(&format!(
                        "{{\"k\":\"fn\",\"path\":{},\"name\":{},\"file\":{},\"line\":{},\"vis\":{},\"async\":{},\"inputs\":[{}],\"output\":{},\"parent\":{},\"parent_kind\":{},\"self_ty\":{},\"trait\":{},\"params\":{},\"hir\":{}}}\n",
                        s(&path), s(&name), s(&file), line, s(&vis), is_async, inputs.join(","), s(&output),
                        parent, parent_kind, self_ty, trait_ref, params, hir
                    ));
                    nmir += 1;
                    mir_facts(tcx, did, &mut buf);
                }
                DefKind::Closure => {
                    nmir += 1;
                    mir_facts(tcx, did, &mut buf);
                }
                _ => {}
            }
        }

        // items
        let items = tcx.hir_crate_items(());
        for ldid in items.definitions() {
            let did = ldid.to_def_id();
            let kind = tcx.def_kind(did);
            match kind {
                DefKind::Struct | DefKind::Enum | DefKind::Union => {
                    nadt += 1;
                    let adt = tcx.adt_def(did);
                    let (file, line) = file_line(tcx, tcx.def_span(did));
                    let mut vs = String::from("[");
                    for (i, (vidx, v)) in adt.variants().iter_enumerated().enumerate() {
                        if i > 0 {
                            vs.push(',');
                        }
                        let discr = if adt.is_enum() {
                            let d = adt.discriminant_for_variant(tcx, vidx);
                            // print as signed when the discr type is signed
                            s(&format!("{}", d))
                        } else {
                            "null".into()
                        };
                        let mut fs = String::from("[");
                        for (j, f) in v.fields.iter().enumerate() {
                            if j > 0 {
                                fs.push(',');
                            }
                            let fty = tcx.type_of(f.did).instantiate_identity().skip_norm_wip();
                            fs.push_str(&format!(
                                "[{},{},{}]",
                                s(f.name.as_str()),
                                s(&tystr(fty)),
                                s(&format!("{:?}", f.vis))
                            ));
                        }
                        fs.push(']');
                        vs.push_str(&format!("[{},{},{}]", s(v.name.as_str()), discr, fs));
                    }
                    vs.push(']');
                    let repr = format!("{:?}", adt.repr().int);
                    buf.push_str(&format!(
                        "{{\"k\":\"adt\",\"path\":{},\"kind\":{},\"file\":{},\"line\":{},\"vis\":{},\"repr\":{},\"variants\":{}}}\n",
                        s(&dpath(tcx, did)),
                        s(&format!("{:?}", kind)),
                        s(&file),
                        line,
                        s(&format!("{:?}", tcx.visibility(did))),
                        s(&repr),
                        vs
                    ));
                }
                DefKind::Const { .. } | DefKind::AssocConst { .. } => {
                    // only consts with a body in this crate
                    if tcx.hir_maybe_body_owned_by(ldid).is_none() {
                        continue;
                    }
                    nconst += 1;
                    let t = tcx.type_of(did).instantiate_identity().skip_norm_wip();
                    let val = scalar_of_const(tcx, did);
                    let (file, line) = file_line(tcx, tcx.def_span(did));
                    let (_p, hir) = if want_hir && val.is_none() {
                        hirdump::dump_body(tcx, ldid)
                    } else {
                        ("[]".into(), "null".into())
                    };
                    let parent = tcx.parent(did);
                    let (pself, ptrait) = match tcx.def_kind(parent) {
                        DefKind::Impl { of_trait } => (
                            s(&tystr(tcx.type_of(parent).instantiate_identity().skip_norm_wip())),
                            if of_trait {
                                let tr = tcx.impl_trait_ref(parent).instantiate_identity().skip_norm_wip();
                                s(&hirdump::with_full(|| format!("{}", tr.print_only_trait_path())))
                            } else {
                                "null".into()
                            },
                        ),
                        _ => ("null".into(), "null".into()),
                    };
                    buf.push_str(&format!(
                        "{{\"k\":\"const\",\"path\":{},\"name\":{},\"ty\":{},\"val\":{},\"file\":{},\"line\":{},\"vis\":{},\"self_ty\":{},\"trait\":{},\"hir\":{}}}\n",
                        s(&dpath(tcx, did)),
                        s(tcx.item_name(did).as_str()),
                        s(&tystr(t)),
                        match val {
                            Some(v) => s(&v),
                            None => "null".into(),
                        },
                        s(&file),
                        line,
                        s(&format!("{:?}", tcx.visibility(did))),
                        pself,
                        ptrait,
                        hir
                    ));
                }
                DefKind::Mod => {
                    let mut ch = String::from("[");
                    let mut n = 0;
                    for c in tcx.module_children_local(ldid) {
                        let (rk, rp) = match c.res {
                            rustc_hir::def::Res::Def(k, d) => (format!("{:?}", k), dpath(tcx, d)),
                            _ => continue,
                        };
                        if n > 0 {
                            ch.push(',');
                        }
                        n += 1;
                        ch.push_str(&format!(
                            "[{},{},{},{},{}]",
                            s(c.ident.name.as_str()),
                            s(&rp),
                            s(&rk),
                            !c.reexport_chain.is_empty(),
                            c.vis.is_public()
                        ));
                    }
                    ch.push(']');
                    buf.push_str(&format!("{{\"k\":\"mod\",\"path\":{},\"children\":{}}}\n", s(&dpath(tcx, did)), ch));
                }
                DefKind::Impl { of_trait } => {
                    nimpl += 1;
                    let self_ty = tystr(tcx.type_of(did).instantiate_identity().skip_norm_wip());
                    let tr = if of_trait {
                        let tr = tcx.impl_trait_ref(did).instantiate_identity().skip_norm_wip();
                        s(&hirdump::with_full(|| format!("{}", tr.print_only_trait_path())))
                    } else {
                        "null".into()
                    };
                    let mut its = String::from("[");
                    for (i, it) in tcx.associated_items(did).in_definition_order().enumerate() {
                        if i > 0 {
                            its.push(',');
                        }
                        let k = match it.kind {
                            ty::AssocKind::Fn { .. } => "fn",
                            ty::AssocKind::Const { .. } => "const",
                            ty::AssocKind::Type { .. } => "type",
                        };
                        let extra = if let ty::AssocKind::Type { .. } = it.kind {
                            s(&tystr(tcx.type_of(it.def_id).instantiate_identity().skip_norm_wip()))
                        } else {
                            "null".into()
                        };
                        its.push_str(&format!(
                            "[{},{},{},{}]",
                            s(k),
                            s(it.name().as_str()),
                            s(&dpath(tcx, it.def_id)),
                            extra
                        ));
                    }
                    its.push(']');
                    let (file, line) = file_line(tcx, tcx.def_span(did));
                    buf.push_str(&format!(
                        "{{\"k\":\"impl\",\"path\":{},\"self_ty\":{},\"trait\":{},\"file\":{},\"line\":{},\"items\":{}}}\n",
                        s(&dpath(tcx, did)),
                        s(&self_ty),
                        tr,
                        s(&file),
                        line,
                        its
                    ));
                }
                _ => {}
            }
        }
        {
            let mut ch = String::from("[");
            let mut n = 0;
            for c in tcx.module_children_local(rustc_hir::def_id::CRATE_DEF_ID) {
                let (rk, rp) = match c.res {
                    rustc_hir::def::Res::Def(k, d) => (format!("{:?}", k), dpath(tcx, d)),
                    _ => continue,
                };
                if n > 0 {
                    ch.push(',');
                }
                n += 1;
                ch.push_str(&format!(
                    "[{},{},{},{},{}]",
                    s(c.ident.name.as_str()),
                    s(&rp),
                    s(&rk),
                    !c.reexport_chain.is_empty(),
                    c.vis.is_public()
                ));
            }
            ch.push(']');
            buf.push_str(&format!("{{\"k\":\"mod\",\"path\":\"crate\",\"children\":{}}}\n", ch));
        }
        buf.push_str(&format!(
            "{{\"k\":\"summary\",\"crate\":{},\"fns\":{},\"mir_bodies\":{},\"adts\":{},\"consts\":{},\"impls\":{}}}\n",
            s(&krate), nfn, nmir, nadt, nconst, nimpl
        ));
        let fname = format!("{out}/{krate}.jsonl");
        let mut f = std::fs::File::create(&fname).unwrap();
        f.write_all(buf.as_bytes()).unwrap();
        eprintln!("RSFACTS {krate}: fns={nfn} mir={nmir} adts={nadt} consts={nconst} impls={nimpl} bytes={}", buf.len());
        Compilation::Continue
    }
}

fn main() {
    let mut args: Vec<String> = std::env::args().collect();
    if args.len() > 1 && args[1].ends_with("rustc") {
        args.remove(1);
    }
    rustc_driver::run_compiler(&args, &mut Cb);
}
