// Typed-HIR -> compact JSON tree.  Node = [tag, ...].  Desugarings of `?`, `.await`, `for`, `while`
// are folded back.  Callees are resolved def paths; casts/binops/method receivers carry types.
use crate::json::{esc, s};
use rustc_hir as hir;
use rustc_hir::{Expr, ExprKind, LoopSource, MatchSource, PatKind, QPath, StmtKind};
use rustc_middle::ty::print::{with_crate_prefix, with_no_trimmed_paths, with_no_visible_paths};
use rustc_middle::ty::{Ty, TyCtxt, TypeckResults};
use rustc_span::Span;

pub struct D<'tcx> {
    pub tcx: TyCtxt<'tcx>,
    pub tr: &'tcx TypeckResults<'tcx>,
    pub out: String,
}

pub fn with_full<R>(f: impl FnOnce() -> R) -> R {
    with_no_trimmed_paths!(with_no_visible_paths!(with_crate_prefix!(f())))
}

pub fn dpath<'tcx>(tcx: TyCtxt<'tcx>, did: rustc_hir::def_id::DefId) -> String {
    with_full(|| tcx.def_path_str(did))
}
pub fn tystr<'tcx>(t: Ty<'tcx>) -> String {
    with_full(|| format!("{}", t))
}

impl<'tcx> D<'tcx> {
    fn p(&mut self, x: &str) {
        self.out.push_str(x);
    }
    fn ps(&mut self, x: &str) {
        esc(x, &mut self.out);
    }
    fn span(&mut self, sp: Span) {
        // source-call-site position (macro expansions mapped to the outermost call site)
        let sp = sp.source_callsite();
        let sm = self.tcx.sess.source_map();
        let lo = sm.lookup_char_pos(sp.lo());
        self.p(&format!("\"{}:{}\"", lo.line, lo.col.0 + 1));
    }
    fn macro_name(&self, sp: Span) -> Option<String> {
        if !sp.from_expansion() {
            return None;
        }
        // outermost macro
        let mut cur = sp;
        let mut name = None;
        while cur.from_expansion() {
            let d = cur.ctxt().outer_expn_data();
            if let rustc_span::ExpnKind::Macro(_, n) = d.kind {
                name = Some(n.to_string());
            } else if let rustc_span::ExpnKind::Desugaring(_) = d.kind {
                // desugaring, not a macro: keep looking outward but do not name it
            }
            cur = d.call_site;
        }
        name
    }
    fn res_path(&mut self, qp: &QPath<'tcx>, id: hir::HirId) {
        let res = self.tr.qpath_res(qp, id);
        match res {
            hir::def::Res::Def(kind, did) => {
                self.p("[\"path\",");
                self.ps(&dpath(self.tcx, did));
                self.p(",");
                self.ps(&format!("{:?}", kind));
                let ga = self.tr.node_args_opt(id);
                self.p(",[");
                if let Some(ga) = ga {
                    let mut first = true;
                    for a in ga.iter() {
                        if !first {
                            self.p(",");
                        }
                        first = false;
                        let st = with_full(|| format!("{}", a));
                        self.ps(&st);
                    }
                }
                self.p("]]");
            }
            hir::def::Res::Local(hid) => {
                self.p("[\"local\",");
                self.ps(&self.tcx.hir_name(hid).to_string());
                self.p("]");
            }
            hir::def::Res::SelfCtor(did) => {
                self.p("[\"selfctor\",");
                self.ps(&dpath(self.tcx, did));
                self.p("]");
            }
            r => {
                self.p("[\"res?\",");
                self.ps(&format!("{:?}", r));
                self.p("]");
            }
        }
    }
    fn pat_path(&mut self, qp: &QPath<'tcx>, id: hir::HirId) {
        let res = self.tr.qpath_res(qp, id);
        match res {
            hir::def::Res::Def(_, did) => self.ps(&dpath(self.tcx, did)),
            hir::def::Res::SelfCtor(did) => self.ps(&format!("SelfCtor:{}", dpath(self.tcx, did))),
            hir::def::Res::SelfTyAlias { alias_to, .. } => self.ps(&format!("Self:{}", dpath(self.tcx, alias_to))),
            r => self.ps(&format!("{:?}", r)),
        }
    }
    fn lit(&mut self, l: &hir::Lit, negated: bool, ty: Option<Ty<'tcx>>) {
        use rustc_ast::LitKind;
        self.p("[\"lit\",");
        match l.node {
            LitKind::Int(v, _) => {
                self.p("\"int\",");
                let v = v.get();
                if negated {
                    self.ps(&format!("-{}", v));
                } else {
                    self.ps(&format!("{}", v));
                }
            }
            LitKind::Str(sym, _) => {
                self.p("\"str\",");
                self.ps(sym.as_str());
            }
            LitKind::ByteStr(ref b, _) => {
                self.p("\"bytestr\",");
                let v: Vec<String> = b.as_byte_str().iter().map(|x| x.to_string()).collect();
                self.ps(&v.join(" "));
            }
            LitKind::CStr(..) => {
                self.p("\"cstr\",\"\"");
            }
            LitKind::Byte(b) => {
                self.p("\"int\",");
                self.ps(&format!("{}", b));
            }
            LitKind::Char(c) => {
                self.p("\"char\",");
                self.ps(&c.to_string());
            }
            LitKind::Float(sym, _) => {
                self.p("\"float\",");
                if negated {
                    self.ps(&format!("-{}", sym.as_str()));
                } else {
                    self.ps(sym.as_str());
                }
            }
            LitKind::Bool(b) => {
                self.p("\"bool\",");
                self.ps(if b { "true" } else { "false" });
            }
            LitKind::Err(_) => {
                self.p("\"err\",\"\"");
            }
        }
        self.p(",");
        match ty {
            Some(t) => self.ps(&tystr(t)),
            None => self.p("null"),
        }
        self.p("]");
    }
    fn pat_expr(&mut self, e: &hir::PatExpr<'tcx>) {
        match e.kind {
            hir::PatExprKind::Lit { lit, negated } => {
                let ty = self.tr.node_type_opt(e.hir_id);
                self.lit(&lit, negated, ty);
            }
            hir::PatExprKind::Path(ref qp) => {
                self.p("[\"ppath\",");
                self.pat_path(qp, e.hir_id);
                self.p("]");
            }
        }
    }
    pub fn pat(&mut self, p: &hir::Pat<'tcx>) {
        match p.kind {
            PatKind::Binding(mode, _, ident, sub) => {
                self.p("[\"bind\",");
                self.ps(ident.name.as_str());
                self.p(",");
                self.ps(&format!("{:?}", mode.0));
                self.p(",");
                self.ps(if mode.1.is_mut() { "mut" } else { "" });
                self.p(",");
                match self.tr.node_type_opt(p.hir_id) {
                    Some(t) => self.ps(&tystr(t)),
                    None => self.p("null"),
                }
                self.p(",");
                if let Some(sp) = sub {
                    self.pat(sp);
                } else {
                    self.p("null");
                }
                self.p("]");
            }
            PatKind::Wild => self.p("[\"wild\"]"),
            PatKind::Missing => self.p("[\"wild\"]"),
            PatKind::Never => self.p("[\"never\"]"),
            PatKind::TupleStruct(ref qp, pats, ddpos) => {
                self.p("[\"ts\",");
                self.pat_path(qp, p.hir_id);
                self.p(",[");
                for (i, q) in pats.iter().enumerate() {
                    if i > 0 {
                        self.p(",");
                    }
                    self.pat(q);
                }
                self.p("],");
                self.p(if ddpos.as_opt_usize().is_some() { "true" } else { "false" });
                self.p("]");
            }
            PatKind::Struct(ref qp, fields, rest) => {
                self.p("[\"ps\",");
                self.pat_path(qp, p.hir_id);
                self.p(",[");
                for (i, f) in fields.iter().enumerate() {
                    if i > 0 {
                        self.p(",");
                    }
                    self.p("[");
                    self.ps(f.ident.name.as_str());
                    self.p(",");
                    self.pat(f.pat);
                    self.p("]");
                }
                self.p("],");
                self.p(if rest.is_some() { "true" } else { "false" });
                self.p("]");
            }
            PatKind::Expr(e) => {
                self.pat_expr(e);
            }
            PatKind::Ref(q, _, _) => {
                self.p("[\"pref\",");
                self.pat(q);
                self.p("]");
            }
            PatKind::Box(q) | PatKind::Deref(q) => {
                self.p("[\"pderef\",");
                self.pat(q);
                self.p("]");
            }
            PatKind::Tuple(pats, _) => {
                self.p("[\"ptup\",[");
                for (i, q) in pats.iter().enumerate() {
                    if i > 0 {
                        self.p(",");
                    }
                    self.pat(q);
                }
                self.p("]]");
            }
            PatKind::Or(pats) => {
                self.p("[\"por\",[");
                for (i, q) in pats.iter().enumerate() {
                    if i > 0 {
                        self.p(",");
                    }
                    self.pat(q);
                }
                self.p("]]");
            }
            PatKind::Range(lo, hi, end) => {
                self.p("[\"prange\",");
                if let Some(l) = lo {
                    self.pat_expr(l);
                } else {
                    self.p("null");
                }
                self.p(",");
                if let Some(h) = hi {
                    self.pat_expr(h);
                } else {
                    self.p("null");
                }
                self.p(",");
                self.ps(&format!("{:?}", end));
                self.p("]");
            }
            PatKind::Slice(a, mid, b) => {
                self.p("[\"pslice\",[");
                for (i, q) in a.iter().enumerate() {
                    if i > 0 {
                        self.p(",");
                    }
                    self.pat(q);
                }
                self.p("],");
                if let Some(m) = mid {
                    self.pat(m);
                } else {
                    self.p("null");
                }
                self.p(",[");
                for (i, q) in b.iter().enumerate() {
                    if i > 0 {
                        self.p(",");
                    }
                    self.pat(q);
                }
                self.p("]]");
            }
            PatKind::Guard(q, e) => {
                self.p("[\"pguard\",");
                self.pat(q);
                self.p(",");
                self.expr(e);
                self.p("]");
            }
            PatKind::Err(_) => self.p("[\"perr\"]"),
        }
    }
    fn stmt(&mut self, st: &hir::Stmt<'tcx>) {
        match st.kind {
            StmtKind::Let(l) => {
                self.p("[\"let\",");
                self.pat(l.pat);
                self.p(",");
                if let Some(i) = l.init {
                    self.expr(i);
                } else {
                    self.p("null");
                }
                self.p(",");
                if let Some(b) = l.els {
                    self.block(b);
                } else {
                    self.p("null");
                }
                self.p("]");
            }
            StmtKind::Expr(e) => {
                self.p("[\"expr\",");
                self.expr(e);
                self.p("]");
            }
            StmtKind::Semi(e) => {
                self.p("[\"semi\",");
                self.expr(e);
                self.p("]");
            }
            StmtKind::Item(_) => self.p("[\"item\"]"),
        }
    }
    pub fn block(&mut self, b: &hir::Block<'tcx>) {
        self.p("[\"block\",[");
        for (i, st) in b.stmts.iter().enumerate() {
            if i > 0 {
                self.p(",");
            }
            self.stmt(st);
        }
        self.p("],");
        if let Some(e) = b.expr {
            self.expr(e);
        } else {
            self.p("null");
        }
        self.p("]");
    }
    fn exprs(&mut self, xs: &[Expr<'tcx>]) {
        self.p("[");
        for (i, x) in xs.iter().enumerate() {
            if i > 0 {
                self.p(",");
            }
            self.expr(x);
        }
        self.p("]");
    }
    fn ety(&mut self, e: &Expr<'tcx>) {
        match self.tr.expr_ty_opt(e) {
            Some(t) => self.ps(&tystr(t)),
            None => self.p("null"),
        }
    }
    fn ety_adj(&mut self, e: &Expr<'tcx>) {
        match self.tr.expr_ty_adjusted_opt(e) {
            Some(t) => self.ps(&tystr(t)),
            None => self.p("null"),
        }
    }
    pub fn expr(&mut self, e: &Expr<'tcx>) {
        // wrap the outermost node of a macro expansion
        self.expr_inner(e);
    }
    fn mac_prefix(&mut self, e: &Expr<'tcx>) -> bool {
        if let Some(n) = self.macro_name(e.span) {
            self.p("[\"mac\",");
            self.ps(&n);
            self.p(",");
            true
        } else {
            false
        }
    }
    fn expr_inner(&mut self, e: &Expr<'tcx>) {
        match e.kind {
            ExprKind::Call(f, args) => {
                let m = self.mac_prefix(e);
                self.p("[\"call\",");
                self.span(e.span);
                self.p(",");
                self.expr(f);
                self.p(",");
                self.exprs(args);
                self.p(",");
                self.ety(e);
                self.p("]");
                if m {
                    self.p("]");
                }
            }
            ExprKind::MethodCall(seg, recv, args, _) => {
                let m = self.mac_prefix(e);
                let did = self.tr.type_dependent_def_id(e.hir_id);
                let pth = did.map(|d| dpath(self.tcx, d)).unwrap_or("?".into());
                self.p("[\"mcall\",");
                self.span(e.span);
                self.p(",");
                self.ps(seg.ident.name.as_str());
                self.p(",");
                self.ps(&pth);
                self.p(",[");
                let ga = self.tr.node_args(e.hir_id);
                for (i, a) in ga.iter().enumerate() {
                    if i > 0 {
                        self.p(",");
                    }
                    let st = with_full(|| format!("{}", a));
                    self.ps(&st);
                }
                self.p("],");
                self.ety_adj(recv);
                self.p(",");
                self.expr(recv);
                self.p(",");
                self.exprs(args);
                self.p(",");
                self.ety(e);
                self.p(",");
                self.ety(recv);
                self.p("]");
                if m {
                    self.p("]");
                }
            }
            ExprKind::Path(ref qp) => {
                self.res_path(qp, e.hir_id);
            }
            ExprKind::Lit(l) => {
                let ty = self.tr.expr_ty_opt(e);
                self.lit(&l, false, ty);
            }
            ExprKind::Cast(x, _) | ExprKind::Type(x, _) => {
                self.p("[\"cast\",");
                self.span(e.span);
                self.p(",");
                self.ety(x);
                self.p(",");
                self.ety(e);
                self.p(",");
                self.expr(x);
                self.p("]");
            }
            ExprKind::AddrOf(_, m, x) => {
                self.p(if m.is_mut() { "[\"refmut\"," } else { "[\"ref\"," });
                self.expr(x);
                self.p("]");
            }
            ExprKind::Unary(op, x) => {
                self.p("[\"un\",");
                self.span(e.span);
                self.p(",");
                self.ps(&format!("{:?}", op));
                self.p(",");
                self.ety(x);
                self.p(",");
                self.expr(x);
                self.p("]");
            }
            ExprKind::Binary(op, a, b) => {
                let m = self.mac_prefix(e);
                self.p("[\"bin\",");
                self.span(e.span);
                self.p(",");
                self.ps(&format!("{:?}", op.node));
                self.p(",");
                self.ety(a);
                self.p(",");
                self.expr(a);
                self.p(",");
                self.expr(b);
                self.p("]");
                if m {
                    self.p("]");
                }
            }
            ExprKind::AssignOp(op, a, b) => {
                self.p("[\"asgop\",");
                self.span(e.span);
                self.p(",");
                self.ps(&format!("{:?}", op.node));
                self.p(",");
                self.ety(a);
                self.p(",");
                self.expr(a);
                self.p(",");
                self.expr(b);
                self.p("]");
            }
            ExprKind::Assign(a, b, _) => {
                self.p("[\"asg\",");
                self.expr(a);
                self.p(",");
                self.expr(b);
                self.p("]");
            }
            ExprKind::Field(x, id) => {
                self.p("[\"field\",");
                self.expr(x);
                self.p(",");
                self.ps(id.name.as_str());
                self.p("]");
            }
            ExprKind::Index(a, b, _) => {
                self.p("[\"idx\",");
                self.span(e.span);
                self.p(",");
                self.ety_adj(a);
                self.p(",");
                self.expr(a);
                self.p(",");
                self.expr(b);
                self.p("]");
            }
            ExprKind::Block(b, _) => self.block(b),
            ExprKind::If(c, t, el) => {
                let m = self.mac_prefix(e);
                self.p("[\"if\",");
                self.expr(c);
                self.p(",");
                self.expr(t);
                self.p(",");
                if let Some(x) = el {
                    self.expr(x);
                } else {
                    self.p("null");
                }
                self.p("]");
                if m {
                    self.p("]");
                }
            }
            ExprKind::Let(l) => {
                self.p("[\"letexpr\",");
                self.pat(l.pat);
                self.p(",");
                self.expr(l.init);
                self.p("]");
            }
            ExprKind::Match(scrut, arms, src) => match src {
                MatchSource::TryDesugar(_) => {
                    self.p("[\"try\",");
                    if let ExprKind::Call(_, [inner]) = scrut.kind {
                        self.expr(inner)
                    } else {
                        self.expr(scrut)
                    }
                    self.p("]");
                }
                MatchSource::AwaitDesugar => {
                    self.p("[\"await\",");
                    if let ExprKind::Call(_, [inner]) = scrut.kind {
                        self.expr(inner)
                    } else {
                        self.expr(scrut)
                    }
                    self.p("]");
                }
                MatchSource::ForLoopDesugar => {
                    self.p("[\"for\",");
                    let mut done = false;
                    if let ExprKind::Loop(lb, _, LoopSource::ForLoop, _) = arms[0].body.kind {
                        let m = match lb.stmts.get(0).map(|st| st.kind) {
                            Some(StmtKind::Expr(m)) | Some(StmtKind::Semi(m)) => Some(m),
                            _ => lb.expr,
                        };
                        if let Some(m) = m {
                            if let ExprKind::Match(_, inner_arms, _) = m.kind {
                                let some = &inner_arms[1];
                                self.pat(some.pat);
                                self.p(",");
                                if let ExprKind::Call(_, [it]) = scrut.kind {
                                    self.expr(it);
                                } else {
                                    self.expr(scrut);
                                }
                                self.p(",");
                                self.expr(some.body);
                                done = true;
                            }
                        }
                    }
                    if !done {
                        self.p("null,null,null");
                    }
                    self.p("]");
                }
                _ => {
                    let m = self.mac_prefix(e);
                    self.p("[\"match\",");
                    self.expr(scrut);
                    self.p(",");
                    self.ety(scrut);
                    self.p(",[");
                    for (i, a) in arms.iter().enumerate() {
                        if i > 0 {
                            self.p(",");
                        }
                        self.p("[");
                        self.pat(a.pat);
                        self.p(",");
                        if let Some(g) = a.guard {
                            self.expr(g);
                        } else {
                            self.p("null");
                        }
                        self.p(",");
                        self.expr(a.body);
                        self.p("]");
                    }
                    self.p("]]");
                    if m {
                        self.p("]");
                    }
                }
            },
            ExprKind::Loop(b, _, src, _) => {
                // `while c { body }` is `loop { if c { body } else { break } }`
                if let LoopSource::While = src {
                    if let Some(tail) = b.expr {
                        if let ExprKind::If(c, t, _) = tail.kind {
                            self.p("[\"while\",");
                            self.expr(c);
                            self.p(",");
                            self.expr(t);
                            self.p("]");
                            return;
                        }
                    }
                }
                self.p("[\"loop\",");
                self.ps(&format!("{:?}", src));
                self.p(",");
                self.block(b);
                self.p("]");
            }
            ExprKind::Ret(x) => {
                self.p("[\"ret\",");
                if let Some(x) = x {
                    self.expr(x);
                } else {
                    self.p("null");
                }
                self.p("]");
            }
            ExprKind::Break(_, x) => {
                self.p("[\"break\",");
                if let Some(x) = x {
                    self.expr(x);
                } else {
                    self.p("null");
                }
                self.p("]");
            }
            ExprKind::Continue(_) => self.p("[\"continue\"]"),
            ExprKind::Struct(qp, fields, tail) => {
                self.p("[\"struct\",");
                self.pat_path(qp, e.hir_id);
                self.p(",[");
                for (i, f) in fields.iter().enumerate() {
                    if i > 0 {
                        self.p(",");
                    }
                    self.p("[");
                    self.ps(f.ident.name.as_str());
                    self.p(",");
                    self.expr(f.expr);
                    self.p("]");
                }
                self.p("],");
                match tail {
                    hir::StructTailExpr::Base(b) => self.expr(b),
                    _ => self.p("null"),
                }
                self.p(",");
                self.ety(e);
                self.p("]");
            }
            ExprKind::Array(xs) => {
                self.p("[\"array\",");
                self.exprs(xs);
                self.p(",");
                self.ety(e);
                self.p("]");
            }
            ExprKind::Repeat(x, _) => {
                self.p("[\"repeat\",");
                self.ety(e);
                self.p(",");
                self.expr(x);
                self.p("]");
            }
            ExprKind::Tup(xs) => {
                self.p("[\"tup\",");
                self.exprs(xs);
                self.p("]");
            }
            ExprKind::DropTemps(x) | ExprKind::Use(x, _) => self.expr(x),
            ExprKind::Closure(c) => {
                let b = self.tcx.hir_body(c.body);
                self.p("[\"closure\",");
                self.ps(&format!("{:?}", c.kind));
                self.p(",[");
                for (i, prm) in b.params.iter().enumerate() {
                    if i > 0 {
                        self.p(",");
                    }
                    // params are typed in the closure's own typeck results
                    let old = self.tr;
                    self.tr = self.tcx.typeck_body(c.body);
                    self.pat(prm.pat);
                    self.tr = old;
                }
                self.p("],");
                let old = self.tr;
                self.tr = self.tcx.typeck_body(c.body);
                self.expr(b.value);
                self.tr = old;
                self.p("]");
            }
            ExprKind::Yield(x, _) => {
                self.p("[\"yield\",");
                self.expr(x);
                self.p("]");
            }
            ExprKind::ConstBlock(_) => self.p("[\"constblock\"]"),
            ExprKind::Become(x) => {
                self.p("[\"become\",");
                self.expr(x);
                self.p("]");
            }
            ExprKind::InlineAsm(_) => self.p("[\"asm\"]"),
            ExprKind::OffsetOf(..) => self.p("[\"offsetof\"]"),
            ExprKind::UnsafeBinderCast(_, x, _) => self.expr(x),
            ExprKind::Err(_) => self.p("[\"err\"]"),
        }
    }
}

pub fn dump_body<'tcx>(tcx: TyCtxt<'tcx>, ldid: rustc_hir::def_id::LocalDefId) -> (String, String) {
    let body = tcx.hir_body_owned_by(ldid);
    let mut d = D { tcx, tr: tcx.typeck(ldid), out: String::new() };
    // params
    let mut params = String::from("[");
    for (i, prm) in body.params.iter().enumerate() {
        if i > 0 {
            params.push(',');
        }
        d.out.clear();
        d.pat(prm.pat);
        params.push_str(&d.out);
    }
    params.push(']');
    d.out.clear();
    d.expr(body.value);
    let _ = s;
    (params, d.out)
}
