// Minimal JSON string building helpers (no external crates available for rustc_private drivers).
pub fn esc(s: &str, out: &mut String) {
    out.push('"');
    for c in s.chars() {
        match c {
            '"' => out.push_str("\\\""),
            '\\' => out.push_str("\\\\"),
            '\n' => out.push_str("\\n"),
            '\r' => out.push_str("\\r"),
            '\t' => out.push_str("\\t"),
            c if (c as u32) < 0x20 => out.push_str(&format!("\\u{:04x}", c as u32)),
            c => out.push(c),
        }
    }
    out.push('"');
}

pub fn s(x: &str) -> String {
    let mut o = String::with_capacity(x.len() + 2);
    esc(x, &mut o);
    o
}
