#!/usr/bin/env python3
"""Regenerates /verif/MANIFEST.json from the table below (dev-time helper; not used by the checks)."""
import json, os
V = os.path.dirname(os.path.dirname(os.path.abspath(__file__)))

CLAIMED = {
 "C03": dict(level="other", tech="call-graph reachability over resolved MIR calls from all public read entry points + per-site discharge of every reachable panic/assert/allocation site by interval analysis on typed HIR (interprocedural parameter ranges, guard dominance) + loop-progress rule",
   text="From 228 public read entry points the resolved call graph (trait calls fanned out to every impl, across the message and base crates) reaches 8,238 bodies; every MIR Assert (overflow, bounds, division), every call into the panic machinery / unwrap / panicking indexing, and every allocation-like call on those paths (947 sites) must be discharged by a closed set of local arguments (constant index, operand ranges from types and casts, for-range bounds, in-memory-size axiom, prefix-size relation, a dominating allocation guard, or a tabled one-line reason with a site count). Reaches the deep allocation and arithmetic sites that only inputs valid up to one chosen field can reach dynamically.",
   note="panics inside trusted external code (std read_exact, from_utf8, flate2 internals, wow_srp) and stack depth are not analysed; requested sizes are bounded, not real memory use; two design-level defects are known findings, five defects were repaired by fix: commits",
   ref="§3 C03"),

 "C02": dict(level="translation_validation", tech="symbolic byte accounting (size() vs writer normal forms) + abstract interpretation of header arithmetic with a piecewise-affine domain + per-path frame summaries of readers + call-graph cycle check",
   text="(1) For every container the separately generated size() formula and the bytes emitted by write_into_vec are reduced to canonical sums of guarded terms and must be identical branch by branch (1,694 containers). (2) The default write_* methods and header helpers are evaluated by an abstract interpreter whose domain is piecewise-affine in the body length B, over every B the header form can express: size field = opcode+B, header length, 2/3-byte form predicate, overflow/truncation, and the writers' own assert. (3) Every reader entry point (opcode-enum readers and expect_* helpers, 3 flavours, plain/encrypted) is summarised per path: header bytes consumed + body bytes read must equal size bytes + size field, and the body decoder must be given the same length. (4) The hand-written header parsers are evaluated on abstract header bytes (byte order, 0x80 marker, opcode width). (5) No recursion on write paths. This covers all lengths around 0x7FFF/0xFFFF and all messages, which no test does.",
   note="trusts rustc resolution, wow_srp's header API contract (frozen), std Vec/Write; stream alignment for sequences follows by induction from the per-message obligations; four genuine defects are known findings, three were repaired by fix: commits",
   ref="§3 C02"),
 "C05": dict(level="other", tech="twin equality of encrypted/plain writers modulo the header step, must-call-once on the encrypter, per-path decrypt counting in readers (frame summaries)",
   text="Per-message obligations that give cipher synchrony by induction over the sequence: each encrypted writer equals its plain twin outside the header step and steps the encrypter exactly once outside loops (60 pairs); the header the 18 encrypted writers hand to the cipher has the form, size field and byte placement the reader reconstructs for every body length; on every path of every encrypted reader (36 functions) each header buffer read from the stream is decrypted exactly once, no body byte is, and the path consumes exactly the bytes the plain reader consumes and hands the same length to the body decoder.",
   note="the cipher itself (wow_srp) is trusted with its API contract; equality of returned messages follows from C01 plus these obligations and is not executed",
   ref="§3 C05"),
 "C06": dict(level="other", tech="sibling equality of normalised typed-HIR trees across sync/tokio/async-std copies + resolved-callee rule: only read_exact-class calls touch the transport",
   text="All 195 groups of functions that exist as blocking/tokio/async-std copies (every login reader/writer, world header readers, expect_* helpers, default write_* methods) are normalised (await removed, flavour prefix and I/O trait abstracted) and must be identical trees; primitive readers agree on width/endianness/type; and every trait-method call on a transport-typed receiver in both crates (8,251 call sites from MIR) is read_exact/write_all-class. Under that rule the quantifier over chunkings and Pending interleavings collapses to the documented contract of read_exact, so no schedule has to be run.",
   note="trusts the read_exact contracts of std/tokio/async-std and rustc's resolution; needs the async-std feature built (done in the union facts configuration)",
   ref="§3 C06"),

 "C01": dict(level="translation_validation", tech="static translation validation: wire layouts extracted from typed HIR of every generated reader/writer compared with wowm reference layouts; opcode table agreement; lossless-conversion taint rule; bounded abstract interpretation of the hand-written string/packed-guid leaf codecs; complete-reads rule",
   text="For every version-expanded container (2,718 containers, 2,930 readers incl. the three login flavours, 2,718 writers) the sequence of transport reads/writes with its full branch structure is extracted from rustc's typed HIR and compared structurally with the layout computed from the wowm text by an independent parser; opcode enum arms, payload types and OPCODE constants are compared with the wowm opcodes. The hand-written string and packed-guid leaf codecs are interpreted abstractly over every length / mask class (3,117 classes), and decode paths may only use complete reads. Covers every definition and every branch, not the single path of the 13% of codecs that have a captured packet.",
   note="trusts rustc resolution, std/flate2 leaf codecs and the the remaining hand-written built-in codecs (masks, splines) as named leaves; byte equality for concrete values follows from layout agreement and is not separately executed; three genuine defects are known findings",
   ref="§3 C01"),
 "C04": dict(level="other", tech="per-field structural rule on extracted read layouts (enum conversions at full wire width, exact-size guard first, rejecting opcode arm)",
   text="Every enum-typed member of every reader (1,273 members incl. nested/conditional/array/upcast ones) must be produced by the fallible TryFrom conversion applied at its full wire width; every constant-sized message must begin with the exact-size guard for the size recomputed from wowm; every opcode reader must end in a catch-all arm that returns the offending opcode. These are the fault sites the statement enumerates, decided for all of them from the code shape.",
   note="the TryFrom impls reached are decided by C11; trusts rustc resolution; one genuine defect (upcast truncation) was repaired by a fix: commit",
   ref="§3 C04"),
 "C09": dict(level="translation_validation", tech="independent interval arithmetic over wowm reference layouts vs size guards extracted from generated readers; three-way leaf-limit agreement",
   text="The true minimum/maximum body length of every world message is recomputed from the wowm text (all branches, optionals, count ranges, leaf limits) and the guard literal(s) extracted from each generated read_inner must contain that interval up to the header capacity, with equality for constant-sized messages (also against size_without_header). Decides per container over its whole conditional structure rather than per sample length.",
   note="leaf limits are the codec's domain definition (frozen table, cross-checked with generator and runtime constants); the sizes{} published in the IR are not inspected because producing the IR means running the generator; one genuine defect is a known finding",
   ref="§3 C09"),

 "C11": dict(level="other", tech="static table agreement (typed HIR match tables vs independent wowm parser) + denotational normal forms of integer conversions",
   text="Every generated enum's from_int/as_int/variants()/variant list is extracted from rustc's typed HIR and must equal the table computed from the wowm text by an independent parser; each TryFrom<S> body is reduced to a piecewise-affine partial function on the integers and must be the value-preserving (or same-width reinterpreting) conversion. The match table is the function, so this decides the property for every integer, not a sample.",
   note="trusts rustc's name/type resolution and const evaluation, std's From/TryInto contracts, and vlib/wowm.py as the reading of the wowm language",
   ref="§3 C11"),
 "C12": dict(level="other", tech="denotational check of flag methods: bodies reduced to (inner & A) ^ X with rustc-evaluated constants, compared with wowm-derived specification",
   text="Each constant, is_/get_/new_/set_/clear_, empty/all/is_empty/as_int, bit operator and integer conversion of all generated flag types and synthesised flag structs is reduced to a bitwise normal form and compared with the set-algebra specification computed from the wowm flag; holds for every raw value because the normal form is exact for bitwise expressions.",
   note="trusts rustc const evaluation/type resolution; two genuine defects are listed in known_findings.json (clear_* uses reverse_bits; signed narrower sources are reinterpreted then widened)",
   ref="§3 C12"),
 "C15": dict(level="other", tech="bit-field layout partition and decision-table extraction from typed HIR: (shift,mask) extractors vs datetime.md, comparator/table folding of the TryFrom<u32> acceptance predicate, leap-year expression folded over all 256 years",
   text="The six bit-field extractors are reduced to (shift, mask) pairs that must partition the 32 bits exactly as datetime.md documents; new() must pack with the same shifts; every accessor must go through its own extractor; the acceptance predicate of TryFrom<u32> is extracted as per-field decision tables (comparators, Month/Weekday conversion tables, month-length table, leap-year expression constant-folded for all 256 years) whose accepted value set must equal the calendar's zero-based ranges. Decided for every 32-bit value through the tables, not by enumeration.",
   note="the weekday predictor's Rata Die arithmetic is a numerical result and is not decided; trusts rustc resolution; one genuine defect (day index == month length accepted) was repaired by a fix: commit",
   ref="§3 C15"),
 "C19": dict(level="other", tech="rustc type-check of the feature matrix (cargo check per feature set; quick = pairwise covering subset, thorough = powerset) + syn scan of unexpanded sources: every cfg at item level, no cfg-duplicated item names",
   text="D1: cargo check --offline --no-default-features --features <set> succeeds for every feature set of wow_login_messages, wow_world_base and wow_world_messages (quick: 21 pairwise-covering sets; thorough: full powersets). D2: all 9,622 cfg attributes in the 2,265 library source files sit at item level (never on a statement, expression, field, variant, arm or parameter) and no item name is defined twice in a module under different cfgs, so a codec present in two configurations is the same token stream in both.",
   note="rustc is the deciding analysis for D1; D2 is what makes 'same codecs in every configuration' a structural fact; behaviour under a configuration is otherwise covered by the per-property checks on the union configuration",
   ref="§3 C19"),
 "C20": dict(level="other", tech="symbolic evaluation of the straight-line geometry bodies from typed HIR into exact algebraic normal forms (sympy polynomial/trig identity) + argument-role and dispatch rules on the macro-generated call sites",
   text="is_within_square, distance_between, distance_2d and is_within_distance are evaluated symbolically over the reals and must be identical, as functions of all inputs, to the documented definition (offset rotated into the box frame by a proper rotation of the yaw; three inclusive per-axis bounds of half-extent + 2; Euclidean norm; strict circle test). AreaTrigger::contains and verify_trigger of the three expansions must pass player/trigger/size arguments in their roles, conjoin map equality and dispatch NotFound / NotInsideTrigger / Success on lookup-miss / !contains / contains. Identity of normal forms covers every yaw, aspect ratio and position at once, including the faces and corners of rotated boxes that no sampled point set pins down.",
   note="real-number semantics: f32 rounding and NaN are not modelled; the trigger tables' contents are data and are not checked; one genuine defect (non-rotation in is_within_square) was repaired by a fix: commit",
   ref="§3 C20"),
 "C14": dict(level="other", tech="symbolic evaluation of from_version_N/to_version_N compositions over typed HIR (uninterpreted field symbols, exhaustive case split on variants/options/flag members) + dispatch-arm and normalised associated-type agreement rules",
   text="For all 15 CollectiveMessage families and every older protocol version N in {2,3,5,6,7}, to_version_N(from_version_N(v)) is evaluated symbolically for an arbitrary canonical version-N value v (395 shape cases: every enum variant, Option, optional flag member; vector elements universally quantified; helpers, closures and generated flag-struct methods interpreted from their own bodies) and must be structurally identical to v. The six protocol-parameterised default methods and six expect_*_message_protocol helpers must dispatch ProtocolVersion::K to exactly from_version_K(VersionK::read)/to_version_K().write of the same flavour, and each normalised VersionK associated type must be the type version K's own opcode enum carries (75 pairs), so the protocol API and version K's codec are the same function.",
   note="canonical values only (raw flag bits equal the members present); version-K codecs themselves are decided by C01/C06; std Clone/map/collect modelled by contract",
   ref="§3 C14"),
 "C13": dict(level="other", tech="three-way table agreement (update-mask.md / generator FIELDS consts / generated accessors) where each accessor's effect is extracted by a bounded abstract interpreter over typed HIR (token-valued arguments, concrete offsets) + row-disjointness frame argument + who-may-write rule + interpreted write/read/size/dirty cycle",
   text="For the three expansions the 864 published table rows equal the generator's field table; every one of the 3,720 generated accessors is interpreted abstractly on a fresh object (every index value of indexed fields): the words a setter writes must be exactly the row's words with header and dirty bits of exactly those words set, the getter must return the arguments, builder setters must have the same effect; rows of one object kind must be disjoint, which (with all mutations funnelled through header_set) makes 'a getter returns the value last set for its field' hold for every sequence of setters; new/set/write/read-back (object-kind dispatch)/size/dirty_reset/mark_fully_dirty are interpreted for all 7 kinds x 3 expansions and compared with the documented wire form (block count, header&dirty blocks, dirty present words in ascending index).",
   note="BTreeMap/Vec/integer primitives are modelled by their std contracts; histories are decided through the per-accessor frame argument, not enumerated; two design-level defects are known findings (multi-word INT rows, overlapping rows in the TBC/Wrath tables), one defect (set_shorts/get_shorts order) was repaired by a fix: commit",
   ref="§3 C13"),
 "C16": dict(level="other", tech="exit-code table and who-passes-which-code rule on typed HIR + call-graph reachability of every error function from main (MIR) + abstract interpretation of the version relations over an equality-exhaustive finite domain + accepted-interval extraction of enumerator range checks + guard-shape rule on the version-clash loop",
   text="The 22 exit codes are pairwise distinct and each of the 22 diverging error functions passes exactly one of them to wowm_exit, which ends in process::exit(code); every error function has a call site reachable from main (27 call sites); WorldVersion::covers/overlaps and LoginVersion::fullfills/overlaps are interpreted for all 1,940 pairs of a domain that is exhaustive for equality-only comparisons and equal the documented prefix relation; the enumerator range check accepts exactly the value range of each of the 9 base integer types; the pairwise clash loop excludes pairs only by object identity. These are necessary conditions of 'each rule stops the generator with its own exit status'.",
   note="that every violation anywhere in a corpus reaches the check of its rule quantifies over input programs and is not decided; one genuine defect (out-of-range enumerator values accepted) was repaired by a fix: commit",
   ref="§3 C16"),
 "C17": dict(level="translation_validation", tech="parse-back of the generated C fragments (own parser for the emitted C subset) + structural comparison with wowm reference layouts from an independent parser, if-chains evaluated per declared enumerator / flag set through enums.txt + def-use closure over imports/register/variables",
   text="Each of the 585 case bodies (Vanilla world messages, login messages per protocol version and direction) is parsed into walk items and compared with the reference layout of the definition: order, widths, endianness flags, string/guid/mask helpers, loop bounds and their count variables, if / else-if chains (every declared enumerator, every flag arm; constants resolved through enums.txt), optional tails, compressed blocks, inlined structs, and no item after the last member; 76 member-less messages may fall to the empty default; cases and messages are in bijection; all 852 hf_ fields are declared and registered, all 167 constants defined, every steering variable declared and assigned before use.",
   note="the dissector's helper functions are trusted to consume their built-in type; regenerating the files is not decided; two genuine defects of the artefact are known findings (IpAddress read little-endian; login version grouping drops security_flag / protocol 3 reconnect)",
   ref="§3 C17"),
 "C18": dict(level="translation_validation", tech="parse-back of every embedded wowm block (doc pages and generated Rust doc comments) with an independent wowm parser and AST comparison with the linked source object + body-table and example-annotation rules",
   text="All 1,720 wowm blocks of the 1,437 documentation pages and all 2,057 generated Rust doc comments are parsed back and must equal the source object their link names (kind, name, opcode, base type, enumerators and values, member order, types, upcasts, arrays, constants, if / else-if / else conditions, optional blocks); the 1,686 body tables must list exactly the definition's members in order with the size/endianness of fixed-width built-ins; the byte groups of the 175 documented examples must concatenate to the bytes of a wowm test of that definition (plain prefix for compressed payloads) with top-level field comments in definition order.",
   note="prose, links' targets on the web and per-member comments are not compared; decompressed payloads in examples are not inflated; two genuine defects of the artefacts are known findings (13 stale pages, SizedCString example line)",
   ref="§3 C18"),
 "C10": dict(level="other", tech="type-level conformance: JSON shape grammar read off the derive-expanded Serialize impls (typed HIR, resolved value types, constructor presence analysis of Option fields) checked against the JSON Typedef schema + injectivity / name rule on enum-to-enum conversions",
   text="For the 45 serialised types reachable from IrObjects (277 value positions) every property the serializer can emit is declared in the schema with a compatible type, every required schema property is always emitted, skippable properties are optional, Option values are nullable unless the constructor analysis shows they are always Some or never emitted at that position, unit-enum strings and discriminator mappings cover exactly the variants (both directions); enum-to-enum conversions of the IR printer are injective and keep same-named variants. This decides schema validity of the IR for every input program, which validating one emitted file cannot.",
   note="serde_json and RFC 8927 semantics are trusted; that the IR describes the 2,050 objects faithfully needs the emitted file (the committed one is an empty placeholder; producing it means running the generator) and is not decided",
   ref="§3 C10"),
 "C08": dict(level="other", tech="rules over the generator's resolved program (MIR call facts + typed HIR): hash-iteration sites discharged by order-insensitive-use predicates, directory-walk neutralisation, clock/random/thread source scan, who-may-call on file primitives, missing-target tolerance of the write helpers, stale-file sweep coverage of per-object write sites",
   text="On wow_message_parser: each of the 4 functions that iterate a hash-ordered collection is discharged by a checked order-insensitive use (sorted after collection, B-tree sink, one write per key) or lies in the item/spell data printer; both directory walks feed a B-tree map or a sort; none of 37,994 resolved call sites is a clock/random/pid source and threads are spawned only in the data printer; file creation/truncation/removal happens only inside file_utils and the write-if-different helpers do not unwrap the read of a missing target; every write site with a per-object path must be covered by the stale-file sweep. These are necessary conditions of 'same output on every run' and of 'converges from deleted or stale files'.",
   note="byte-for-byte reproduction and convergence need a run of the generator (it aborts in its doc printer in this snapshot) and are not decided; one genuine defect (abort on a deleted artefact) was repaired by a fix: commit, one (doc pages never pruned) is a known finding",
   ref="§3 C08"),
}
NA_REASONS = {"C07": "quantifies over all wowm programs fed to a translator whose output is assembled from string templates: no static argument in reach relates arbitrary template output to codec behaviour, and a check of template text would fire on behaviour-preserving edits; the corpus-instantiated part of the statement is decided under C01/C02/C09 (see DESIGN.md section 5)"}
DEFAULT_NA = "check under construction in this round (see DESIGN.md); will be claimed once its rule module is committed"

def main():
    checks = []
    for pid, c in sorted(CLAIMED.items()):
        checks.append({
            "property_id": pid,
            "quick_cmd": f"./vcheck {pid} --tier quick",
            "thorough_cmd": f"./vcheck {pid} --tier thorough",
            "evidence_file": f"/verif/evidence/{pid}.json",
            "replay_cmd_template": "cat {path}",
            "engine": "vcheck",
            "level_claimed": {"category": c["level"], "text": c["text"], "design_ref": c["ref"]},
            "level_note": c["note"],
            "technique": c["tech"],
        })
    na = []
    for i in range(1, 21):
        pid = f"C{i:02d}"
        if pid not in CLAIMED:
            na.append({"property_id": pid, "reason": NA_REASONS.get(pid, DEFAULT_NA)})
    m = {
        "version": 1,
        "setup_cmd": "./vcheck setup",
        "hooks": {"guard": "wow_messages_verif", "enable": "none needed: pure static analysis, /repo carries no hooks",
                  "baseline_off_cmd": "cd /repo && cargo test --workspace --no-fail-fast --offline",
                  "source_commits": [], "add_only": True},
        "engines": [
            {"name": "rsfacts", "path": "tools/rsfacts", "serves_properties": sorted(CLAIMED), "kind_free_text": "rustc_private driver: typed HIR trees, MIR call/assert facts, ADTs, evaluated consts, impl and module tables, run under cargo +nightly check with the real feature flags"},
            {"name": "wowmref", "path": "vlib/wowm.py", "serves_properties": sorted(CLAIMED), "kind_free_text": "independent parser and semantics of the wowm language written from the language spec"},
            {"name": "rules", "path": "vlib/props", "serves_properties": sorted(CLAIMED), "kind_free_text": "per-property static rules over the facts (python3-vt)"},
        ],
        "checks": checks,
        "not_applicable": na,
        "notes": "Static analysis only: no library or generator code is executed by any check. See DESIGN.md.",
    }
    with open(os.path.join(V, "MANIFEST.json"), "w") as fh:
        json.dump(m, fh, indent=1)
    print("claimed:", sorted(CLAIMED))

if __name__ == "__main__":
    main()
