#!/bin/sh
# Dev-time helper: keep a scratch worktree with a patch applied for repeated runs while a checker is being widened.
# usage: tools/dbg_wt.sh <name> apply <patch> | run <name> <vcheck args...> | rm <name>
set -u
N="$1"; CMD="$2"; shift 2
WT=/tmp/dbg_$N
case "$CMD" in
 apply) git -C /repo worktree remove --force $WT 2>/dev/null; git -C /repo worktree add -q --detach $WT HEAD && git -C $WT apply "$1" && echo "$WT ready";;
 run) VERIF_REPO=$WT VERIF_WORK=/tmp/dbg_work_$N VERIF_EVIDENCE=/tmp/dbg_ev_$N /verif/vcheck "$@";;
 py) VERIF_REPO=$WT VERIF_WORK=/tmp/dbg_work_$N VERIF_EVIDENCE=/tmp/dbg_ev_$N python3-vt "$@";;
 rm) git -C /repo worktree remove --force $WT; rm -rf /tmp/dbg_work_$N /tmp/dbg_ev_$N;;
esac
