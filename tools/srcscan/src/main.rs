// srcscan: unexpanded-source facts that HIR has lost.
//  * every cfg / cfg_attr attribute with its syntactic position (item vs. field/variant/statement/expression/arm/param)
//  * cfg!() macro uses
//  * item names per module with their cfg predicates (for duplicate definitions under different cfgs)
// Output: one JSON object per line on stdout.
use syn::spanned::Spanned;
use syn::visit::{self, Visit};

fn esc(s: &str) -> String {
    let mut o = String::from("\"");
    for c in s.chars() {
        match c {
            '"' => o.push_str("\\\""),
            '\\' => o.push_str("\\\\"),
            '\n' => o.push_str("\\n"),
            '\t' => o.push_str("\\t"),
            c if (c as u32) < 0x20 => o.push_str(&format!("\\u{:04x}", c as u32)),
            c => o.push(c),
        }
    }
    o.push('"');
    o
}

fn is_cfg(a: &syn::Attribute) -> bool {
    a.path().is_ident("cfg") || a.path().is_ident("cfg_attr")
}
fn attr_text(a: &syn::Attribute) -> String {
    match &a.meta {
        syn::Meta::List(l) => format!("{}({})", a.path().get_ident().map(|i| i.to_string()).unwrap_or_default(), l.tokens),
        _ => String::new(),
    }
}

struct V {
    file: String,
    fn_depth: usize,
    module: Vec<String>,
    // cfg predicates of the enclosing inline modules / impl blocks / traits within this file
    enclosing: Vec<Vec<String>>,
}

impl V {
    fn emit(&self, line: usize, pos: &str, text: &str) {
        println!("{{\"k\":\"cfg\",\"file\":{},\"line\":{},\"pos\":{},\"text\":{}}}", esc(&self.file), line, esc(pos), esc(text));
    }
    fn chk(&self, attrs: &[syn::Attribute], pos: &str) {
        for a in attrs {
            if is_cfg(a) {
                // cfg_attr on items that only toggles attributes such as derive/test/doc is item-level and harmless
                self.emit(a.span().start().line, pos, &attr_text(a));
            }
        }
    }
    fn own_cfgs(attrs: &[syn::Attribute]) -> Vec<String> {
        attrs.iter().filter(|a| a.path().is_ident("cfg")).map(attr_text).collect()
    }
    /// gate record: a function-like item (or module declaration / re-export) with its own cfgs and those of the enclosing scopes
    fn gate(&self, attrs: &[syn::Attribute], kind: &str, name: &str, line: usize, extra: &str) {
        if self.fn_depth > 0 { return; }
        let own = Self::own_cfgs(attrs);
        let enc: Vec<String> = self.enclosing.iter().flatten().cloned().collect();
        println!(
            "{{\"k\":\"gate\",\"file\":{},\"line\":{},\"module\":{},\"kind\":{},\"name\":{},\"own\":[{}],\"enclosing\":[{}],\"extra\":{}}}",
            esc(&self.file), line, esc(&self.module.join("::")), esc(kind), esc(name),
            own.iter().map(|c| esc(c)).collect::<Vec<_>>().join(","),
            enc.iter().map(|c| esc(c)).collect::<Vec<_>>().join(","), esc(extra)
        );
    }
    fn item(&self, attrs: &[syn::Attribute], kind: &str, name: &str, line: usize) {
        let cfgs: Vec<String> = attrs.iter().filter(|a| a.path().is_ident("cfg")).map(attr_text).collect();
        println!(
            "{{\"k\":\"item\",\"file\":{},\"line\":{},\"module\":{},\"kind\":{},\"name\":{},\"in_fn\":{},\"cfgs\":[{}]}}",
            esc(&self.file), line, esc(&self.module.join("::")), esc(kind), esc(name), self.fn_depth > 0,
            cfgs.iter().map(|c| esc(c)).collect::<Vec<_>>().join(",")
        );
    }
}

impl<'a> Visit<'a> for V {
    fn visit_item(&mut self, i: &'a syn::Item) {
        let pos = if self.fn_depth > 0 { "stmt-item" } else { "item" };
        let line = i.span().start().line;
        match i {
            syn::Item::Fn(f) => { self.chk(&f.attrs, pos); self.item(&f.attrs, "fn", &f.sig.ident.to_string(), line); self.gate(&f.attrs, "fn", &f.sig.ident.to_string(), line, ""); }
            syn::Item::Struct(f) => { self.chk(&f.attrs, pos); self.item(&f.attrs, "struct", &f.ident.to_string(), line); self.gate(&f.attrs, "struct", &f.ident.to_string(), line, ""); }
            syn::Item::Enum(f) => { self.chk(&f.attrs, pos); self.item(&f.attrs, "enum", &f.ident.to_string(), line); self.gate(&f.attrs, "enum", &f.ident.to_string(), line, ""); }
            syn::Item::Const(f) => { self.chk(&f.attrs, pos); self.item(&f.attrs, "const", &f.ident.to_string(), line); self.gate(&f.attrs, "const", &f.ident.to_string(), line, ""); }
            syn::Item::Static(f) => { self.chk(&f.attrs, pos); self.item(&f.attrs, "static", &f.ident.to_string(), line); self.gate(&f.attrs, "static", &f.ident.to_string(), line, ""); }
            syn::Item::Type(f) => { self.chk(&f.attrs, pos); self.item(&f.attrs, "type", &f.ident.to_string(), line); self.gate(&f.attrs, "type", &f.ident.to_string(), line, ""); }
            syn::Item::Trait(f) => { self.chk(&f.attrs, pos); self.item(&f.attrs, "trait", &f.ident.to_string(), line); self.gate(&f.attrs, "trait", &f.ident.to_string(), line, ""); }
            syn::Item::Mod(f) => { self.chk(&f.attrs, pos); self.item(&f.attrs, "mod", &f.ident.to_string(), line); self.gate(&f.attrs, "mod", &f.ident.to_string(), line, &format!("{}{}", if f.content.is_some() { "inline" } else { "file" }, if matches!(f.vis, syn::Visibility::Public(_)) { "|pub" } else { "" })); }
            syn::Item::Impl(f) => { self.chk(&f.attrs, pos); }
            syn::Item::Use(f) => {
                self.chk(&f.attrs, pos);
                if matches!(f.vis, syn::Visibility::Public(_)) || matches!(f.vis, syn::Visibility::Restricted(_)) {
                    let t = &f.tree;
                    self.gate(&f.attrs, "use", "", line, &quote_tree(t));
                }
            }
            syn::Item::Macro(f) => { self.chk(&f.attrs, pos); }
            syn::Item::ExternCrate(f) => { self.chk(&f.attrs, pos); }
            _ => {}
        }
        if let syn::Item::Mod(m) = i {
            self.module.push(m.ident.to_string());
            self.enclosing.push(Self::own_cfgs(&m.attrs));
            visit::visit_item(self, i);
            self.enclosing.pop();
            self.module.pop();
        } else if let syn::Item::Impl(m) = i {
            self.enclosing.push(Self::own_cfgs(&m.attrs));
            visit::visit_item(self, i);
            self.enclosing.pop();
        } else if let syn::Item::Trait(m) = i {
            self.enclosing.push(Self::own_cfgs(&m.attrs));
            visit::visit_item(self, i);
            self.enclosing.pop();
        } else {
            visit::visit_item(self, i);
        }
    }
    fn visit_impl_item(&mut self, i: &'a syn::ImplItem) {
        match i {
            syn::ImplItem::Fn(f) => { self.chk(&f.attrs, "impl-item"); self.gate(&f.attrs, "impl-fn", &f.sig.ident.to_string(), f.span().start().line, ""); }
            syn::ImplItem::Const(f) => self.chk(&f.attrs, "impl-item"),
            syn::ImplItem::Type(f) => self.chk(&f.attrs, "impl-item"),
            _ => {}
        }
        visit::visit_impl_item(self, i);
    }
    fn visit_trait_item(&mut self, i: &'a syn::TraitItem) {
        match i {
            syn::TraitItem::Fn(f) => { self.chk(&f.attrs, "trait-item"); self.gate(&f.attrs, "trait-fn", &f.sig.ident.to_string(), f.span().start().line, ""); }
            syn::TraitItem::Const(f) => self.chk(&f.attrs, "trait-item"),
            syn::TraitItem::Type(f) => self.chk(&f.attrs, "trait-item"),
            _ => {}
        }
        visit::visit_trait_item(self, i);
    }
    fn visit_block(&mut self, b: &'a syn::Block) {
        self.fn_depth += 1;
        visit::visit_block(self, b);
        self.fn_depth -= 1;
    }
    fn visit_local(&mut self, n: &'a syn::Local) { self.chk(&n.attrs, "local"); visit::visit_local(self, n); }
    fn visit_arm(&mut self, n: &'a syn::Arm) { self.chk(&n.attrs, "arm"); visit::visit_arm(self, n); }
    fn visit_field(&mut self, n: &'a syn::Field) { self.chk(&n.attrs, "field"); visit::visit_field(self, n); }
    fn visit_field_value(&mut self, n: &'a syn::FieldValue) { self.chk(&n.attrs, "field-value"); visit::visit_field_value(self, n); }
    fn visit_variant(&mut self, n: &'a syn::Variant) { self.chk(&n.attrs, "variant"); visit::visit_variant(self, n); }
    fn visit_fn_arg(&mut self, n: &'a syn::FnArg) {
        match n { syn::FnArg::Typed(t) => self.chk(&t.attrs, "param"), syn::FnArg::Receiver(r) => self.chk(&r.attrs, "param") }
        visit::visit_fn_arg(self, n);
    }
    fn visit_generic_param(&mut self, n: &'a syn::GenericParam) {
        match n { syn::GenericParam::Type(t) => self.chk(&t.attrs, "generic-param"), syn::GenericParam::Lifetime(t) => self.chk(&t.attrs, "generic-param"), syn::GenericParam::Const(t) => self.chk(&t.attrs, "generic-param") }
        visit::visit_generic_param(self, n);
    }
    fn visit_expr(&mut self, n: &'a syn::Expr) {
        macro_rules! at { ($e:expr) => { self.chk(&$e.attrs, "expr") } }
        match n {
            syn::Expr::Block(e) => at!(e), syn::Expr::If(e) => at!(e), syn::Expr::Call(e) => at!(e), syn::Expr::MethodCall(e) => at!(e),
            syn::Expr::Match(e) => at!(e), syn::Expr::Macro(e) => at!(e), syn::Expr::Assign(e) => at!(e), syn::Expr::Binary(e) => at!(e),
            syn::Expr::Unary(e) => at!(e), syn::Expr::Struct(e) => at!(e), syn::Expr::Return(e) => at!(e), syn::Expr::Try(e) => at!(e),
            syn::Expr::Await(e) => at!(e), syn::Expr::Closure(e) => at!(e), syn::Expr::ForLoop(e) => at!(e), syn::Expr::While(e) => at!(e),
            syn::Expr::Loop(e) => at!(e), syn::Expr::Let(e) => at!(e), syn::Expr::Lit(e) => at!(e), syn::Expr::Path(e) => at!(e),
            syn::Expr::Reference(e) => at!(e), syn::Expr::Tuple(e) => at!(e), syn::Expr::Array(e) => at!(e), syn::Expr::Field(e) => at!(e),
            syn::Expr::Index(e) => at!(e), syn::Expr::Cast(e) => at!(e), syn::Expr::Paren(e) => at!(e), syn::Expr::Async(e) => at!(e),
            syn::Expr::Unsafe(e) => at!(e), syn::Expr::Range(e) => at!(e), syn::Expr::Repeat(e) => at!(e), syn::Expr::Break(e) => at!(e),
            _ => {}
        }
        if let syn::Expr::Macro(m) = n {
            if m.mac.path.is_ident("cfg") {
                self.emit(m.span().start().line, "cfg!-macro", &m.mac.tokens.to_string());
            }
        }
        visit::visit_expr(self, n);
    }
    fn visit_stmt(&mut self, n: &'a syn::Stmt) {
        if let syn::Stmt::Macro(m) = n {
            self.chk(&m.attrs, "stmt-macro");
            if m.mac.path.is_ident("cfg") { self.emit(m.span().start().line, "cfg!-macro", &m.mac.tokens.to_string()); }
        }
        visit::visit_stmt(self, n);
    }
}

fn quote_tree(t: &syn::UseTree) -> String {
    match t {
        syn::UseTree::Path(p) => format!("{}::{}", p.ident, quote_tree(&p.tree)),
        syn::UseTree::Name(n) => n.ident.to_string(),
        syn::UseTree::Rename(r) => format!("{} as {}", r.ident, r.rename),
        syn::UseTree::Glob(_) => "*".to_string(),
        syn::UseTree::Group(g) => format!("{{{}}}", g.items.iter().map(quote_tree).collect::<Vec<_>>().join(", ")),
    }
}

fn main() {
    let mut n = 0usize;
    let mut errs = 0usize;
    for p in std::env::args().skip(1) {
        let s = match std::fs::read_to_string(&p) { Ok(s) => s, Err(e) => { println!("{{\"k\":\"error\",\"file\":{},\"text\":{}}}", esc(&p), esc(&e.to_string())); errs += 1; continue } };
        match syn::parse_file(&s) {
            Ok(f) => { let mut v = V { file: p.clone(), fn_depth: 0, module: vec![], enclosing: vec![] }; v.visit_file(&f); n += 1; }
            Err(e) => { println!("{{\"k\":\"error\",\"file\":{},\"text\":{}}}", esc(&p), esc(&e.to_string())); errs += 1; }
        }
    }
    println!("{{\"k\":\"summary\",\"files\":{},\"errors\":{}}}", n, errs);
}
