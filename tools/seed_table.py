#!/usr/bin/env python3
"""Dev-time helper: regenerate the seeded-change table of DESIGN.md (between the SEED-TABLE markers) from seeded/*/meta.json."""
import glob, json, re
rows = []
for f in sorted(glob.glob('/verif/seeded/*/meta.json')):
    m = json.load(open(f))
    summ = (m.get('summary') or '').replace('\n', ' ').replace('|', '/')
    summ = summ if len(summ) < 170 else summ[:167] + '…'
    caught = ' ; '.join(m.get('caught_by') or []).replace('\n', ' ').replace('|', '/')
    caught = caught if len(caught) < 330 else caught[:327] + '…'
    rows.append(f"| {m['id']} | {summ} | {caught} |")
table = "| seed | change | caught by |\n|---|---|---|\n" + "\n".join(rows)
p = '/verif/DESIGN.md'
s = open(p).read()
s2 = re.sub(r"<!-- SEED-TABLE-BEGIN -->.*<!-- SEED-TABLE-END -->", "<!-- SEED-TABLE-BEGIN -->\n" + table + "\n<!-- SEED-TABLE-END -->", s, flags=re.S)
open(p, 'w').write(s2)
print(len(rows), 'rows')
