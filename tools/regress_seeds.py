#!/usr/bin/env python3
"""Dev-time helper: re-run every stored seeded change against the checks that are recorded as catching it and report the ones that
are no longer caught. Works on a scratch git worktree of /repo (VERIF_REPO / VERIF_WORK / VERIF_EVIDENCE point the checks at it), so
it can run while /repo itself is used; the worktree is removed at the end. usage: regress_seeds.py [id ...]"""
import glob, json, os, re, shutil, subprocess, sys
HOME = os.path.dirname(os.path.dirname(os.path.abspath(__file__)))  # the checkout this script belongs to (a `vp run` snapshot or /verif)
ids = sys.argv[1:] or sorted(os.path.basename(os.path.dirname(p)) for p in glob.glob(HOME + "/seeded/*/meta.json"))
_S = os.environ.get("REGRESS_SLOT", "")
WT, WORK, EV = f"/tmp/regress_repo{_S}", f"/tmp/regress_work{_S}", f"/tmp/regress_evidence{_S}"
import fcntl
_lock = open(WT + ".lock", "w")
fcntl.flock(_lock, fcntl.LOCK_EX)  # one run at a time: two runs sharing the worktree corrupt each other's results
subprocess.run(["git", "-C", "/repo", "worktree", "remove", "--force", WT], capture_output=True)
subprocess.run(["git", "-C", "/repo", "worktree", "add", "--detach", WT, "HEAD", "-q"], check=True)
env = dict(os.environ, VERIF_REPO=WT, VERIF_WORK=WORK, VERIF_EVIDENCE=EV)
bad = []
try:
    for sid in ids:
        m = json.load(open(HOME + f"/seeded/{sid}/meta.json"))
        txt = " ; ".join(m.get("caught_by") or [])
        checks = sorted(set(re.findall(r"\b(C\d\d) [a-z]+\.[a-z-]+", txt))) or [m["property"]]
        patch = HOME + f"/seeded/{sid}/patch.diff"
        r = subprocess.run(["git", "-C", WT, "apply", patch], capture_output=True, text=True)
        if r.returncode != 0:
            print(f"{sid}: patch no longer applies ({r.stderr.strip()[:100]})", flush=True)
            bad.append((sid, "apply"))
            continue
        try:
            res = {}
            for c in checks:
                p = subprocess.run([HOME + "/vcheck", c], capture_output=True, text=True, env=env)
                res[c] = p.returncode
            ok = any(v == 1 for v in res.values())
            print(f"{sid}: {res} {'caught' if ok else 'NOT CAUGHT'}", flush=True)
            if not ok:
                bad.append((sid, res))
        finally:
            subprocess.run(["git", "-C", WT, "checkout", "-q", "--", "."])
            subprocess.run(["git", "-C", WT, "clean", "-qfd", "--", "."])
finally:
    subprocess.run(["git", "-C", "/repo", "worktree", "remove", "--force", WT], capture_output=True)
    shutil.rmtree(WORK, ignore_errors=True)
    shutil.rmtree(EV, ignore_errors=True)
print("not caught:", bad)
