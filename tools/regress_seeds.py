#!/usr/bin/env python3
"""Dev-time helper: re-run every stored seeded change against the checks that are recorded as catching it and report the ones that
are no longer caught. Applies each patch to /repo and always restores it. usage: regress_seeds.py [id ...]"""
import glob, json, os, re, subprocess, sys
ids = sys.argv[1:] or sorted(os.path.basename(os.path.dirname(p)) for p in glob.glob("/verif/seeded/*/meta.json"))
if subprocess.run(["git", "-C", "/repo", "status", "--porcelain"], capture_output=True, text=True).stdout.strip():
    sys.exit("/repo is not clean")
bad = []
for sid in ids:
    m = json.load(open(f"/verif/seeded/{sid}/meta.json"))
    txt = " ; ".join(m.get("caught_by") or [])
    checks = sorted(set(re.findall(r"\b(C\d\d) [a-z]+\.[a-z-]+", txt))) or [m["property"]]
    patch = f"/verif/seeded/{sid}/patch.diff"
    r = subprocess.run(["git", "-C", "/repo", "apply", patch], capture_output=True, text=True)
    if r.returncode != 0:
        print(f"{sid}: patch no longer applies ({r.stderr.strip()[:100]})", flush=True)
        bad.append((sid, "apply"))
        continue
    try:
        res = {}
        for c in checks:
            p = subprocess.run(["/verif/vcheck", c], capture_output=True, text=True)
            res[c] = p.returncode
        ok = any(v == 1 for v in res.values())
        print(f"{sid}: {res} {'caught' if ok else 'NOT CAUGHT'}", flush=True)
        if not ok:
            bad.append((sid, res))
    finally:
        subprocess.run(["git", "-C", "/repo", "checkout", "-q", "--", "."])
        subprocess.run(["git", "-C", "/repo", "clean", "-qfd", "--", "."])
print("not caught:", bad)
