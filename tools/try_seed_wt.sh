#!/bin/sh
# Dev-time helper: like try_seed.sh but on a scratch worktree (/tmp/mut_repo) so that /repo stays untouched and other runs
# can go on in parallel. usage: tools/try_seed_wt.sh <abs patch.diff> <C01> [C02 ...]; `tools/try_seed_wt.sh --clean` removes the scratch state.
set -u
S=${SLOT:-}
WT=/tmp/mut_repo$S
if [ "$1" = "--clean" ]; then git -C /repo worktree remove --force $WT 2>/dev/null; rm -rf /tmp/mut_work$S /tmp/mut_evidence$S; exit 0; fi
PATCH="$1"; shift
exec 9>/tmp/mut_repo$S.lock; flock 9   # one user per slot at a time
[ -d $WT ] || git -C /repo worktree add -q --detach $WT || exit 2
git -C $WT checkout -q --detach "$(git -C /repo rev-parse HEAD)"; git -C $WT checkout -q -- . ; git -C $WT clean -qfd -- .
git -C $WT apply "$PATCH" || { echo "patch does not apply"; exit 2; }
for p in "$@"; do
  VERIF_REPO=$WT VERIF_WORK=/tmp/mut_work$S VERIF_EVIDENCE=/tmp/mut_evidence$S "$(dirname "$0")/../vcheck" "$p" > /tmp/try_seedwt${S}_$p.log 2>&1; rc=$?
  echo "== $p exit=$rc"; grep -E "^\s+\[|^VIOLATION" /tmp/try_seedwt${S}_$p.log | head -${SEED_LINES:-6} | cut -c1-${SEED_COLS:-420}
done
git -C $WT checkout -q -- . ; git -C $WT clean -qfd -- .
