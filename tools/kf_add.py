#!/usr/bin/env python3
"""Dev-time helper (never run by the checks): add the currently reported violations of <property> whose key matches
<regex> to known_findings.json under finding <id> (created with the given texts when new)."""
import glob, json, re, sys
prop, fid, rx = sys.argv[1], sys.argv[2], re.compile(sys.argv[3])
texts = json.loads(sys.argv[4]) if len(sys.argv) > 4 else {}
kf = json.load(open('/verif/known_findings.json'))
keys = []
for f in sorted(glob.glob(f'/verif/evidence/violations/{prop}/*.json')):
    d = json.load(open(f))
    if rx.search(d['key']):
        keys.append(d['key'])
f = next((x for x in kf['findings'] if x['id'] == fid), None)
if f is None:
    f = {"id": fid, "property": prop, "instances": []}
    kf['findings'].append(f)
f.update(texts)
f['instances'] = sorted(set(f.get('instances', [])) | set(keys))
json.dump(kf, open('/verif/known_findings.json', 'w'), indent=1)
print(fid, 'now has', len(f['instances']), 'instances (+%d matched)' % len(keys))
