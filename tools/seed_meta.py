#!/usr/bin/env python3
"""Dev-time helper: turn a sub-agent's meta.json into /verif/seeded/<id>/meta.json with my own verification notes.
usage: seed_meta.py <id> <caught_by ;-separated | MISSED> [extra verified note ...]"""
import json, os, sys
sid = sys.argv[1]
d = f"/verif/seeded/{sid}"
a = json.load(open(f"{d}/agent_meta.json"))
caught = [x for x in sys.argv[2].split(";") if x]
m = {"id": sid, "property": a.get("property", sid.split("-")[0]),
     "origin": "independent sub-agent (given only the property text and a scratch worktree; nothing from /verif)",
     "summary": a.get("summary"), "needs_to_manifest": a.get("needs_to_manifest"), "files_touched": a.get("files_touched"),
     "verified": ["sub-agent: " + x for x in (a.get("what_i_ran") or a.get("verified") or [])[:6]]
                 + ["me: demo/run.sh in the scratch worktree: non-zero exit with the patch applied, exit 0 with the patch reverse-applied"]
                 + sys.argv[3:],
     "caught_by": caught}
json.dump(m, open(f"{d}/meta.json", "w"), indent=1)
os.remove(f"{d}/agent_meta.json")
print("wrote", f"{d}/meta.json")
