#!/usr/bin/env python3
"""Dev-time helper: create a scratch worktree of /repo for an independent sub-agent and drop a TASK.md in it that contains only the
property text and the deliverable format (nothing from /verif).
usage: mk_seed_task.py <break|benign> <worktree-name> <property-id> [steering text]"""
import json, subprocess, sys
kind, name, pid = sys.argv[1:4]
steer = sys.argv[4] if len(sys.argv) > 4 else ""
props = {json.loads(l)["id"]: json.loads(l) for l in open("/verif/properties.jsonl")}
p = props[pid]
wt = f"/tmp/{name}"
subprocess.run(["git", "-C", "/repo", "worktree", "remove", "--force", wt], capture_output=True)
subprocess.run(["git", "-C", "/repo", "worktree", "add", "-q", "--detach", wt, "HEAD"], check=True)
anchors = "\n".join("  - " + f for f in p["anchors"]["files"])
common = f"""# Task

You work ONLY inside this directory: `{wt}` (a scratch git worktree of the Rust project gtker/wow_messages: a code generator
`wow_message_parser` that reads the `.wowm` protocol definitions and prints Rust codecs, docs, a Wireshark dissector and a JSON IR;
plus the generated+hand-written crates `wow_login_messages`, `wow_world_base`, `wow_world_messages`).
Do not read or write anything under `/repo` or `/verif`. Never use `git stash` (the stash is shared between all worktrees of the repository; use `git diff > file` and `git apply -R` instead). No network. Build with
`CARGO_TARGET_DIR={wt}/target cargo ... --offline -j 4` (other jobs share the machine).
The wow_items / wow_spells data files are emptied in this snapshot; ignore those crates.
Note: running the generator binary (`cargo run -p wow_message_parser`) does not complete on this snapshot; if you change a printer
in `wow_message_parser/src/**` you must hand-apply the corresponding change to the generated files so that the tree looks as if it
had been regenerated (the generated files are what the libraries compile).

## The property

**{p['title']}**

{p['statement']}

Files the property is anchored in:
{anchors}
"""
if kind == "break":
    body = f"""
## What to produce

A change to the project (a patch a careless-but-plausible maintainer could have made: a refactor, an optimisation, a "cleanup", a
hardening) that BREAKS the property above while
 * the whole workspace still compiles (`cargo build --workspace --offline`, and the feature sets CI uses),
 * the existing test suite gives exactly the same results as on the clean tree (`cargo test --workspace --no-fail-fast --offline`;
   do not edit, delete or add to existing tests or golden files under `tests/`),
 * the breakage needs something specific to manifest: an unusual input or value, a boundary length, a particular feature
   configuration, a multi-step sequence of calls, or two cooperating sites that each look fine alone. NOT something ordinary use
   or any captured test vector exposes at once.
Prefer a change that is applied consistently (all three sync/tokio/async-std flavours, reader and writer, printer and generated
code) so that a comparison of sibling copies would not notice it.
{('Steering (areas other people have already covered, choose something else / or a hint where to look): ' + steer) if steer else ''}

## Deliverables (inside `{wt}/SEED/`)

 * `SEED/patch.diff` — `git diff` of your change against the clean worktree (use `git add -N` for new files so they are in the diff;
   the diff must apply with `git apply` on a clean checkout; do NOT include SEED/ or target/ in it).
 * `SEED/demo/run.sh <checkout-dir>` — a script that builds and runs a small demonstration (a test file it copies into the checkout
   temporarily, or a small program) and exits 0 when the property holds for the demonstrated input and non-zero when it is violated.
   It must exit non-zero on a checkout with the patch applied and 0 on a clean checkout. It must clean up what it copied in.
   Use `CARGO_TARGET_DIR="${{CARGO_TARGET_DIR:-$CHECKOUT/target}}"` and `--offline -j 4`.
 * `SEED/meta.json` — {{"property": "{pid}", "summary": "...what was changed and under what pretext...",
   "needs_to_manifest": "...the exact input / sequence / configuration that exposes it...", "files_touched": [...],
   "verified": ["commands you ran and what they showed (build, full test comparison clean vs patched, demo both ways)"]}}

Leave the worktree with the patch APPLIED. Finish by reporting in a few lines what you changed and how it manifests.
"""
else:
    body = f"""
## What to produce

A BEHAVIOUR-PRESERVING change: a realistic refactor / cleanup / restyle that a maintainer could make to code this property is
anchored in, after which the property STILL HOLDS exactly as before — for every input, not only the tested ones. The purpose is to
test whether verification tooling raises false alarms on harmless edits, so make the edit non-trivial in *shape* while keeping the
*meaning* identical. Good examples: extract a helper function or inline one; rename locals / private items; replace a manual loop by
an iterator chain (or vice versa); turn `match` into `if let` / early returns; reorder independent statements; change how a printer
in the generator emits code so that the emitted Rust is equivalent but differently shaped (and hand-apply the same change to the
generated files, in all flavours); move a private function to another module; replace arithmetic by an equivalent form
(`x * 4` -> `x << 2` where no overflow difference exists); change integer literal spelling; add a private wrapper type.
Do 2-4 such edits in different places relevant to the property (hand-written code and, if you like, generated code + its printer).
Requirements:
 * the workspace compiles (`cargo build --workspace --offline`, and with `--all-features` for the library crates),
 * `cargo test --workspace --no-fail-fast --offline` gives exactly the same results as on the clean tree; do not touch tests/golden files,
 * public API (names, signatures, feature gates) unchanged,
 * you can argue in 2-3 sentences per edit why behaviour is identical for all inputs (including overflow, panics, error values,
   order of I/O operations and number of bytes read/written).
{('Steering: ' + steer) if steer else ''}

## Deliverables (inside `{wt}/SEED/`)

 * `SEED/patch.diff` — `git diff` of your change against the clean worktree (`git add -N` new files; must apply with `git apply`
   on a clean checkout; do NOT include SEED/ or target/).
 * `SEED/meta.json` — {{"property": "{pid}", "kind": "benign", "summary": "...the edits...", "equivalence_argument": ["one per edit"],
   "files_touched": [...], "verified": ["commands you ran and results"]}}

Leave the worktree with the patch APPLIED. Finish by reporting in a few lines what you changed.
"""
open(f"{wt}/TASK.md", "w").write(common + body)
print(wt)
