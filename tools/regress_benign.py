#!/usr/bin/env python3
"""Dev-time helper: apply every stored behaviour-preserving change (benign/<id>/patch.diff) to a scratch worktree and run the checks; every
check must stay silent (exit 0). usage: regress_benign.py [id ...]   (env CHECKS="C01 C02 .." to restrict)"""
import glob, os, subprocess, sys
HOME = os.path.dirname(os.path.dirname(os.path.abspath(__file__)))  # /verif or a `vp run` snapshot of it
ids = sys.argv[1:] or sorted(os.path.basename(os.path.dirname(p)) for p in glob.glob(HOME + "/benign/*/patch.diff"))
checks = os.environ.get("CHECKS", "C01 C02 C03 C04 C05 C06 C08 C09 C10 C11 C12 C13 C14 C15 C16 C17 C18 C20").split()
bad = []
for b in ids:
    r = subprocess.run([HOME + "/tools/try_seed_wt.sh", HOME + f"/benign/{b}/patch.diff"] + checks, capture_output=True, text=True, env=dict(os.environ, SLOT="r", SEED_LINES="2"))
    fails = [l for l in r.stdout.splitlines() if l.startswith("== ") and not l.endswith("exit=0")]
    print(b, "silent" if not fails and "exit=" in r.stdout else f"ALARM {fails} {r.stdout[-300:] if 'exit=' not in r.stdout else ''}", flush=True)
    if fails or "exit=" not in r.stdout:
        bad.append(b)
print("alarms:", bad)
