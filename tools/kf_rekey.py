#!/usr/bin/env python3
"""Dev-time helper (never run by the checks): after violation keys of a rule were made finer, replace the instances of finding <id>
whose old key is a prefix of a currently reported, unlisted violation key.  usage: kf_rekey.py <property> <KF-id>
Only violations whose key extends an OLD instance key (old + '|' ...) are taken, so nothing unrelated can slip in; prints what it did."""
import json, os, subprocess, sys
prop, fid = sys.argv[1:3]
dump = f"/tmp/kf_rekey_{prop}.json"
subprocess.run(["/verif/vcheck", prop], env=dict(os.environ, VERIF_DUMP_ALL=dump), capture_output=True)
allv = json.load(open(dump))
kf = json.load(open('/verif/known_findings.json'))
f = next(x for x in kf['findings'] if x['id'] == fid)
old = set(f['instances'])
new = set()
still = set()
for v in allv:
    k = v['key'] if v['key'].startswith(v['rule']) else v['rule'] + '|' + v['key']
    if k in old:
        still.add(k)
    elif v.get('known') is None:
        for o in old:
            if k.startswith(o + '|'):
                new.add(k)
                break
gone = {o for o in old if o not in still and not any(n.startswith(o + '|') for n in new)}
print(f"{fid}: {len(old)} old, {len(still)} still matched, {len(new)} re-keyed, {len(gone)} old keys without successor")
for g in sorted(gone)[:10]:
    print("   no successor:", g)
f['instances'] = sorted(still | new)
json.dump(kf, open('/verif/known_findings.json', 'w'), indent=1)
