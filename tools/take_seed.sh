#!/bin/sh
# Dev-time helper: confirm a sub-agent's seeded change in its scratch worktree (demo fails with it, passes without it),
# copy it to /verif/seeded/<id>, remove the worktree, run the given checks against it (always restoring /repo).
# usage: tools/take_seed.sh <worktree> <id> <C01> [C02 ...]
set -u
WT="$1"; ID="$2"; shift 2
cd "$WT" || exit 2
if [ ! -f SEED/patch.diff ]; then echo "no SEED/patch.diff"; exit 2; fi
# make sure the patch is what is applied
git checkout -q -- . 2>/dev/null; git apply SEED/patch.diff || { echo "patch does not apply on clean worktree"; exit 2; }
bash SEED/demo/run.sh "$WT" > /tmp/take_seed_with.log 2>&1; W=$?
git apply -R SEED/patch.diff
bash SEED/demo/run.sh "$WT" > /tmp/take_seed_without.log 2>&1; WO=$?
echo "demo: with patch exit=$W, clean exit=$WO"
if [ "$W" = 0 ] || [ "$WO" != 0 ]; then echo "DEMO NOT CONFIRMED (see /tmp/take_seed_*.log)"; exit 1; fi
mkdir -p /verif/seeded/$ID
cp -r SEED/patch.diff SEED/demo /verif/seeded/$ID/
cp SEED/meta.json /verif/seeded/$ID/agent_meta.json
cd /verif
git -C /repo worktree remove --force "$WT"
SLOT=${SLOT:-t} /verif/tools/try_seed_wt.sh /verif/seeded/$ID/patch.diff "$@"
