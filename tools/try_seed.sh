#!/bin/sh
# Dev-time helper: apply a seeded change to /repo, run the given checks, and ALWAYS undo the change.
# usage: tools/try_seed.sh <patch.diff> <C01> [C02 ...]
set -u
PATCH="$1"; shift
if [ -n "$(git -C /repo status --porcelain)" ]; then echo "/repo is not clean"; exit 2; fi
undo() { git -C /repo checkout -q -- . ; git -C /repo clean -qfd -- . ; }
trap undo EXIT INT TERM
git -C /repo apply "$PATCH" || { echo "patch does not apply"; exit 2; }
for p in "$@"; do
  /verif/vcheck "$p" > /tmp/try_seed_$p.log 2>&1; rc=$?
  echo "== $p exit=$rc"; grep -E "^\s+\[|^VIOLATION" /tmp/try_seed_$p.log | head -${SEED_LINES:-6} | cut -c1-${SEED_COLS:-420}
done
