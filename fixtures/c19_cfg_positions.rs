// Positive fixture for rule cfg.item-level: every sub-item cfg position the scanner must recognise.
// (This file is never compiled; it is only parsed by tools/srcscan.)
pub struct S {
    #[cfg(feature = "a")]
    pub field: u8,
}
pub enum E {
    #[cfg(feature = "a")]
    V,
}
pub fn f(#[cfg(feature = "a")] x: u8) -> u8 {
    #[cfg(feature = "a")]
    let y = 1;
    #[cfg(feature = "a")]
    { g(); }
    let s = S {
        #[cfg(feature = "a")]
        field: 1,
    };
    match 1 {
        #[cfg(feature = "a")]
        1 => {}
        _ => {}
    }
    if cfg!(feature = "a") { g(); }
    0
}
