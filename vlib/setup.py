"""setup: build the analysis tools from files on disk (offline)."""
import os
from .common import VERIF, run, ToolError
from . import facts


def main():
    facts.build_driver()
    sc = os.path.join(VERIF, "tools", "srcscan")
    if os.path.isdir(sc):
        p = run(["cargo", "build", "--offline", "--release"], cwd=sc)
        if p.returncode != 0:
            print(p.stdout[-3000:])
            return 2
    print("setup ok")
    return 0
