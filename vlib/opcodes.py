"""Opcode dispatch tables (C01-D2, C04-D4): the (opcode literal -> variant -> message type) arms of every opcode-enum
reader/writer against the wowm messages of that scope and direction."""
from . import hir as H
from .containers import state
from .world import gpath, split_gpath, WORLD_SCOPES, LOGIN_SCOPES


def _strip_box(n):
    n = H.strip(n)
    if H.tag(n) == "call" and (H.call_path(n) or "").endswith("::Box::<T>::new") and len(H.call_args(n)) == 1:
        return H.strip(H.call_args(n)[0])
    return n


def _peel(n):
    """strip try/await/map_err(...) wrappers -> the core call"""
    while True:
        n = H.strip(n)
        t = H.tag(n)
        if t in ("try", "await"):
            n = n[1]
        elif t == "mcall" and H.mcall(n)["name"] in ("map_err",):
            n = H.mcall(n)["recv"]
        else:
            return n


def arm_target(crate, body):
    """Arm body of a reader -> (variant path, message type global path or None, kind)"""
    b = H.strip(body)
    # Ok(Self::X(...)) / Ok(Self::X)
    if H.tag(b) == "call" and (H.call_path(b) or "").endswith("::Ok") and len(H.call_args(b)) == 1:
        inner = H.strip(H.call_args(b)[0])
        if H.tag(inner) == "path":
            return inner[1], None, "unit"
        if H.tag(inner) == "call":
            vp = H.call_path(inner)
            args = H.call_args(inner)
            if vp and len(args) == 1:
                core = _peel(_strip_box(args[0]))
                if H.tag(core) == "call":
                    p = H.call_path(core)
                    ga = H.call_gargs(core)
                    T = None
                    if p and (p.startswith("crate::traits::Message::") or p.startswith("crate::Message::")) and ga:
                        T = gpath(crate, ga[0])
                    elif p and p.startswith("crate::collective::CollectiveMessage::") and ga:
                        # protocol-parameterised read: the protocol version handed on must be the caller's own parameter
                        T = gpath(crate, ga[0])
                        a = H.call_args(core)
                        pv = H.local_name(H.strip_refs(H.strip(a[1]))) if len(a) == 2 else None
                        if pv != "protocol_version":
                            return None, None, f"the protocol version passed to {p.split('::')[-1]} is `{H.short(a[1], maxlen=60) if len(a) == 2 else '?'}`, not the caller's protocol_version parameter"
                    elif p:
                        T = gpath(crate, p.rsplit("::", 1)[0])
                    return vp, T, p.split("::")[-1] if p else "?"
        return None, None, "unrecognised Ok payload: " + H.short(inner, maxlen=100)
    # assert_empty(body_size, opcode, "NAME").map(|_| Self::X)
    if H.is_mcall(b) and H.mcall(b)["name"] == "map":
        mc = H.mcall(b)
        r = H.strip(mc["recv"])
        if H.tag(r) == "call" and (H.call_path(r) or "").endswith("::assert_empty"):
            clo = H.strip(mc["args"][0])
            if H.tag(clo) == "closure":
                v = H.path_of(clo[3])
                nm = H.strip(H.call_args(r)[2])
                return v, None, ("assert_empty", nm[2] if H.tag(nm) == "lit" else None)
    return None, None, "unrecognised arm: " + H.short(b, maxlen=100)


def is_err_opcode(crate, body, scrut_names):
    """catch-all arm must return Err(ExpectedOpcodeError::Opcode carrying the scrutinee)"""
    if _is_err_opcode_shape(crate, body, scrut_names):
        return True
    return _is_err_opcode_sem(crate, body, scrut_names)


def _is_err_opcode_sem(crate, body, scrut_names):
    """the arm interpreted with the scrutinee bound to a witness value (helper functions inlined): the result must be
    Err(ExpectedOpcodeError::Opcode ..) whose opcode is that value"""
    from .facts import facts
    from .minieval import Mini, Unsupported, Panic
    W = 0xBEEF
    try:
        m = Mini({crate: facts(crate)}, crate)
        m.overrides = {"::opcode_to_name": lambda a: "name"}
        frame = {}
        for x in H.walk(body):
            if H.tag(x) == "local":
                frame[x[1]] = W if x[1] in scrut_names else ("opaque", x[1])
        res = m.ev(body, [frame])
    except (Unsupported, Panic, KeyError, TypeError, IndexError, AttributeError):
        return False
    if not (isinstance(res, tuple) and len(res) == 2 and res[0] == "Err" and isinstance(res[1], tuple) and res[1]):
        return False
    e = res[1]
    if e[0] == "struct" and str(e[1]).endswith("ExpectedOpcodeError::Opcode") and isinstance(e[2], dict):
        return e[2].get("opcode") == W
    if e[0] == "variant" and str(e[1]).endswith("ExpectedOpcodeError::Opcode") and len(e) > 2:
        return list(e[2])[:1] == [W]
    return False


def _is_err_opcode_shape(crate, body, scrut_names):
    b = H.strip(body)
    if not (H.tag(b) == "call" and (H.call_path(b) or "").endswith("::Err") and len(H.call_args(b)) == 1):
        return False
    inner = H.strip(H.call_args(b)[0])
    txt_ok = False
    if H.tag(inner) == "struct" and inner[1].endswith("ExpectedOpcodeError::Opcode"):
        for fname, fe in inner[2]:
            if fname == "opcode":
                refs = [H.local_name(x) for x in H.walk(fe) if H.tag(x) == "local"]
                txt_ok = any(r in scrut_names for r in refs)
    elif H.tag(inner) == "call" and (H.call_path(inner) or "").endswith("ExpectedOpcodeError::Opcode"):
        refs = [H.local_name(x) for a in H.call_args(inner) for x in H.walk(a) if H.tag(x) == "local"]
        txt_ok = any(r in scrut_names for r in refs)
    return txt_ok


def check_enum(ctx, rule, crate, enum_path, reader_names, scope, direction_kinds, login):
    """direction_kinds: wowm container kinds belonging to this enum ('cmsg','msg' / 'smsg','msg' / 'clogin' / 'slogin')"""
    st = state()
    g, P = st["g"], st["P"]
    F = g.f(crate)
    adt = F.adt(enum_path)
    key0 = gpath(crate, enum_path)
    n = 0
    if adt is None:
        ctx.violate(rule, f"{key0}|missing", f"opcode enum {enum_path} not found")
        return 0
    # expected messages
    exp = {}
    for p in P.pairs:
        if p["scope"] != scope:
            continue
        a = p["obj"].ast
        if a.kind in direction_kinds:
            exp[a.name] = p
    variants = {v[0]: v for v in adt["variants"]}

    def variant_name(msgname):
        if True:
            for suf in ("_Client", "_Server"):
                if msgname.endswith(suf):
                    return msgname[: -len(suf)]
        return msgname

    exp_variants = {variant_name(k): p for k, p in exp.items()}
    if set(variants) != set(exp_variants):
        miss = sorted(set(exp_variants) - set(variants))
        extra = sorted(set(variants) - set(exp_variants))
        ctx.violate(rule, f"{key0}|variants", f"{enum_path}: variants differ from the wowm messages of {scope}: missing {miss[:5]}, extra {extra[:5]}", adt["file"], adt["line"])
    # payload types
    for vn, p in exp_variants.items():
        v = variants.get(vn)
        if v is None:
            continue
        n += 1
        flds = v[2]
        if flds:
            ty = gpath(crate, flds[0][1])
            if ty.startswith("std::boxed::Box<"):
                ty = ty[len("std::boxed::Box<"):-1]
            if ty != p["rust"]:
                ctx.violate(rule, f"{key0}|payload|{vn}", f"{enum_path}::{vn} carries {ty}, the {scope} message {p['obj'].name} is {p['rust']}", adt["file"], adt["line"])
        # OPCODE const
        c2, lp = split_gpath(p["rust"])
        oc = None
        for cand in (f"<{lp} as crate::traits::Message>::OPCODE", f"<{lp} as crate::Message>::OPCODE", f"{lp}::OPCODE"):
            oc = g.f(c2).const(cand)
            if oc is not None:
                break
        want = p["obj"].ast.opcode
        if oc is None or oc["val"] is None or int(oc["val"]) != want:
            ctx.violate(rule, f"{key0}|opcode-const|{vn}", f"{p['obj'].name}: OPCODE const is {oc['val'] if oc else None}, wowm opcode is {want:#x} ({p['obj'].ast.file}:{p['obj'].ast.line})",
                        oc["file"] if oc else adt["file"], oc["line"] if oc else adt["line"])
    # readers
    # From<Message> for the opcode enum: the variant built is the message's own (unit variants carry no type to keep them apart)
    import re as _re
    pre = f"<{enum_path} as std::convert::From<"
    for fn in F.all("fn", lambda q: q.startswith(pre) and q.endswith(">>::from")):
        T = fn["path"][len(pre):-len(">>::from")]
        tname = T.split("::")[-1]
        n += 1
        b = fn["hir"]
        tail = H.strip(b[2]) if H.tag(b) == "block" and not b[1] and b[2] is not None else None
        built = None
        if tail is not None and H.tag(tail) == "path":
            built = tail[1]
        elif tail is not None and H.tag(tail) == "call":
            built = H.call_path(tail)
        if built is None or not built.startswith(enum_path + "::"):
            ctx.violate(rule, f"{key0}|from|{tname}|shape", f"impl From<{tname}> for {enum_path}: body is not a single variant constructor — review: {H.short(b, maxlen=100)}", fn["file"], fn["line"])
        elif built.split("::")[-1] != variant_name(tname):
            ctx.violate(rule, f"{key0}|from|{tname}", f"impl From<{tname}> for {enum_path} builds the variant {built.split('::')[-1]}, the message's own variant is {variant_name(tname)}", fn["file"], fn["line"])
    # the protocol-parameterised readers of the collective (latest) opcode enums decide the message from the same opcode table
    proto = [rn.replace("read", "read_protocol") for rn in reader_names if F.fn(f"{enum_path}::{rn.replace('read', 'read_protocol')}") is not None] if login else []
    for rn in list(reader_names) + proto:
        fn = F.fn(f"{enum_path}::{rn}")
        if rn in proto:
            prm = [q[1] for q in fn["params"] if H.tag(q) == "bind"]
            if "protocol_version" not in prm:
                ctx.violate(rule, f"{key0}|{rn}|param", f"{enum_path}::{rn}: no parameter called protocol_version (parameters {prm}) — review", fn["file"], fn["line"])
        if fn is None:
            ctx.violate(rule, f"{key0}|{rn}|missing", f"{enum_path}::{rn} not found (anchor disappeared)")
            continue
        body = H.unwrap_async(fn["hir"])
        m = None
        for x in H.walk(body):
            if H.tag(x) == "match" and any(H.tag(a[0]) == "lit" for a in x[3]):
                m = x
                break
        if m is None:
            ctx.violate(rule, f"{key0}|{rn}|shape", f"{enum_path}::{rn}: no `match opcode` found", fn["file"], fn["line"])
            continue
        scrut = H.local_name(H.strip_refs(m[1]))
        sc = H.strip_refs(m[1])
        if H.tag(sc) == "cast":
            # the opcode must be matched at its full wire width (C04): a narrowing cast aliases undefined opcodes onto defined ones
            from .intconv import INT_TYPES, int_range
            if sc[2] in INT_TYPES and sc[3] in INT_TYPES:
                a, b = int_range(sc[2]), int_range(sc[3])
                if not (b[0] <= a[0] and a[1] <= b[1]):
                    ctx.violate("opc.unknown-arm", f"{key0}|{rn}|narrowed", f"{enum_path}::{rn}: the {sc[2]} opcode is narrowed to {sc[3]} before it is matched: every undefined opcode that equals a defined one modulo 2^{INT_TYPES[sc[3]][0]} "
                                f"is decoded as that message instead of being rejected", fn["file"], fn["line"])
            scrut = H.local_name(H.strip_refs(sc[4]))
        table = {}
        catch = False
        for pat, guard, abody in m[3]:
            n += 1
            if H.tag(pat) == "lit" and pat[1] == "int" and guard is None:
                v = int(pat[2])
                vp, T, kind = arm_target(crate, abody)
                if vp is None:
                    ctx.violate(rule, f"{key0}|{rn}|arm|{v:#x}", f"{enum_path}::{rn}: arm {v:#x}: {kind}", fn["file"], fn["line"])
                    continue
                if v in table:
                    ctx.violate(rule, f"{key0}|{rn}|dup|{v:#x}", f"{enum_path}::{rn}: duplicate arm {v:#x}", fn["file"], fn["line"])
                table[v] = (vp.split("::")[-1], T, kind)
            elif H.tag(pat) in ("wild", "bind") and guard is None:
                names = {scrut}
                if H.tag(pat) == "bind":
                    names.add(pat[1])
                if is_err_opcode(crate, abody, names):
                    catch = True
                else:
                    ctx.violate("opc.unknown-arm", f"{key0}|{rn}|catchall", f"{enum_path}::{rn}: catch-all arm does not return an Opcode error carrying the offending opcode: {H.short(abody, maxlen=120)}", fn["file"], fn["line"])
                    catch = True
            else:
                ctx.violate(rule, f"{key0}|{rn}|pattern", f"{enum_path}::{rn}: unrecognised arm pattern {H.short(pat)}", fn["file"], fn["line"])
        if not catch:
            ctx.violate("opc.unknown-arm", f"{key0}|{rn}|no-catchall", f"{enum_path}::{rn}: no rejecting arm for unknown opcodes", fn["file"], fn["line"])
        exp_table = {p["obj"].ast.opcode: (variant_name(nm), p) for nm, p in exp.items()}
        for v in sorted(set(table) | set(exp_table)):
            if v not in table:
                ctx.violate(rule, f"{key0}|{rn}|missing|{exp_table[v][0]}", f"{enum_path}::{rn}: no arm for opcode {v:#x} ({exp_table[v][0]})", fn["file"], fn["line"])
            elif v not in exp_table:
                ctx.violate(rule, f"{key0}|{rn}|extra|{v:#x}", f"{enum_path}::{rn}: arm {v:#x} -> {table[v][0]} is not a {scope} message of this direction", fn["file"], fn["line"])
            else:
                vn, T, kind = table[v]
                evn, p = exp_table[v]
                if vn != evn:
                    ctx.violate(rule, f"{key0}|{rn}|variant|{evn}", f"{enum_path}::{rn}: opcode {v:#x} builds variant {vn}, wowm message is {evn}", fn["file"], fn["line"])
                if T is not None and T != p["rust"]:
                    ctx.violate(rule, f"{key0}|{rn}|type|{evn}", f"{enum_path}::{rn}: opcode {v:#x} decodes {T}, the {scope} message is {p['rust']}", fn["file"], fn["line"])
                if T is None:
                    # unit arm / assert_empty: the message must have an empty body
                    ref_members = p["obj"].ast.members
                    if ref_members:
                        ctx.violate(rule, f"{key0}|{rn}|unit|{evn}", f"{enum_path}::{rn}: opcode {v:#x} is decoded without a body but {evn} has members", fn["file"], fn["line"])
    return n


_callee_index = {}


def has_callers(crate, path):
    idx = _callee_index.get(crate)
    if idx is None:
        idx = set()
        F = state()["g"].f(crate)
        for m in F.all("mir"):
            for c in m["calls"]:
                idx.add(c[1])
                idx.add(c[2])
        _callee_index[crate] = idx
    return path in idx


def check_writers(ctx, rule, crate, enum_path, writer_names):
    """each arm of an opcode-enum writer delegates to the same-named method on the variant's own payload"""
    st = state()
    F = st["g"].f(crate)
    n = 0
    for wn in writer_names:
        fn = F.fn(f"{enum_path}::{wn}")
        if fn is None:
            continue
        if fn["vis"] != "Public" and not has_callers(crate, fn["path"]):
            continue  # crate-private and never called: no observable behaviour
        body = H.unwrap_async(fn["hir"])
        m = None
        for x in H.walk(body):
            if H.tag(x) == "match":
                m = x
                break
        if m is None:
            ctx.violate(rule, f"{gpath(crate, enum_path)}|{wn}|shape", f"{enum_path}::{wn}: no match on self", fn["file"], fn["line"])
            continue
        for pat, guard, abody in m[3]:
            n += 1
            while H.tag(pat) in ("pref", "pderef"):
                pat = pat[1]
            vn = pat[1].split("::")[-1] if H.tag(pat) in ("ts", "ppath", "ps") else "?"
            bound = None
            if H.tag(pat) == "ts" and len(pat[2]) == 1 and H.tag(pat[2][0]) == "bind":
                bound = pat[2][0][1]
            core = _peel(abody)
            ok = False
            if H.is_mcall(core):
                mc = H.mcall(core)
                recv = H.strip_refs(mc["recv"])
                if mc["name"] == wn:
                    if bound is not None and H.local_name(recv) == bound:
                        ok = True
                    elif bound is None and H.tag(recv) == "struct" and recv[1].split("::")[-1].startswith(vn):
                        ok = True
            if not ok:
                ctx.violate(rule, f"{gpath(crate, enum_path)}|{wn}|arm|{vn}", f"{enum_path}::{wn}: arm {vn} does not delegate to the payload's {wn}: {H.short(abody, maxlen=100)}", fn["file"], fn["line"])
    return n


WORLD_READERS = ["read_opcodes"]
WORLD_WRITERS = {
    "Client": [f"{p}write_{e}_client" for p in ("", "tokio_", "astd_") for e in ("encrypted", "unencrypted")],
    "Server": [f"{p}write_{e}_server" for p in ("", "tokio_", "astd_") for e in ("encrypted", "unencrypted")],
}
LOGIN_READERS = ["read", "tokio_read", "astd_read"]


def check_all(ctx, rule="opc.table"):
    n = 0
    for scope, crate, mod, ver in WORLD_SCOPES:
        for side, kinds in (("Client", ("cmsg", "msg")), ("Server", ("smsg", "msg"))):
            ep = f"{mod}::opcodes::{side}OpcodeMessage"
            n += check_enum(ctx, rule, crate, ep, WORLD_READERS, scope, kinds, False)
            n += check_writers(ctx, rule, crate, ep, WORLD_WRITERS[side])
    for scope, crate, mod, ver in LOGIN_SCOPES:
        for side, kinds in (("Client", ("clogin",)), ("Server", ("slogin",))):
            ep = f"{mod}::opcodes::{side}OpcodeMessage"
            n += check_enum(ctx, rule, crate, ep, LOGIN_READERS, scope, kinds, True)
            n += check_writers(ctx, rule, crate, ep, ["write_into_vec"])
    return n
