"""Shared machinery for the layout-based properties (C01, C02-D1, C04, C09, C06): enumerate paired containers,
locate their generated codecs, extract and canonicalise layouts."""
from . import hir as H
from . import wowm
from .layoutcmp import ReadCanon, canon_ref, compare
from .prims import LeafTable
from .rlayout import ReadExtractor, result_ok_type
from .world import G, Pairing, gpath, split_gpath

_state = {}


def state():
    if "P" not in _state:
        g = G()
        P = Pairing(g)
        _state["g"] = g
        _state["P"] = P
        _state["leaves"] = {c: LeafTable(g, c) for c in ("wow_world_messages", "wow_login_messages")}
        # rust path lookup per scope
        rust_of = {}
        for p in P.pairs:
            rust_of[(p["scope"], id(p["obj"]))] = p["rust"]
        _state["rust_of"] = rust_of
        _state["flag_types"] = {p["rust"] for p in P.of_kind("flag")}
        # base-struct readers in util: output type -> fn path
        by_out = {}
        F = g.f("wow_world_messages")
        for fn in F.all("fn", lambda p: p.startswith("crate::util::functions::")):
            if fn["name"].endswith("_read"):
                out = result_ok_type(fn["output"])
                if out:
                    by_out.setdefault(gpath("wow_world_messages", out), []).append(fn["path"])
            if fn["name"].endswith("_write_into_vec"):
                if fn["inputs"]:
                    t = fn["inputs"][0].lstrip("&")
                    by_out.setdefault(("w", gpath("wow_world_messages", t)), []).append(fn["path"])
        _state["base_readers"] = by_out
    return _state


def scope_lookup(pair):
    """name -> Obj for the pair's scope (version-aware type lookup of E1)."""
    m = state()["P"].model
    if pair["login"]:
        return lambda name: m.lookup_login(name, pair["version"])
    return lambda name: m.lookup_world(name, pair["version"])


def ref_layout(pair):
    st = state()
    rl = wowm.RefLayouts(st["P"].model, scope_lookup(pair))
    items = rl.container(pair["obj"].ast)
    scope = pair["scope"]

    def rust_of(obj):
        return st["rust_of"].get((scope, id(obj)), f"<unpaired {obj.name}>")

    return canon_ref(items, rust_of), items


def container_pairs():
    st = state()
    seen = set()
    for p in st["P"].pairs:
        a = p["obj"].ast
        if a.kind in ("enum", "flag"):
            continue
        yield p


def reader_fns(pair):
    """-> list of (flavour, crate, fn record) for the container's body readers."""
    st = state()
    g = st["g"]
    crate, lpath = split_gpath(pair["rust"])
    a = pair["obj"].ast
    out = []
    if crate == "wow_world_base":
        for fp in st["base_readers"].get(pair["rust"], []):
            out.append(("sync", "wow_world_messages", g.f("wow_world_messages").fn(fp)))
        return out
    F = g.f(crate)
    names = ["read_inner", "tokio_read_inner", "astd_read_inner"] if a.kind != "struct" else ["read", "tokio_read", "astd_read"]
    for nm in names:
        fn = F.fn(f"{lpath}::{nm}")
        if fn is not None:
            fl = "tokio" if nm.startswith("tokio") else "astd" if nm.startswith("astd") else "sync"
            out.append((fl, crate, fn))
    return out


def read_layout(pair, crate, fn):
    st = state()
    ex = ReadExtractor(st["g"], crate, st["leaves"][crate], fn)
    items = ex.run()
    findings = []
    rc = ReadCanon(st["g"], crate, st["flag_types"], findings)
    canon = rc.seq(items)
    return canon, ex, findings, rc


def _synth_flag_owner():
    st = state()
    if "synth" in st:
        return st["synth"]
    g = st["g"]
    from .intconv import INT_TYPES
    from .props.c11 import find_impls
    flag_types = st["flag_types"]
    synth = {}
    for crate in ("wow_world_messages", "wow_login_messages"):
        F = g.f(crate)
        for adt in F.all("adt"):
            if adt["kind"] != "Struct" or not adt["variants"]:
                continue
            fields = {f[0]: f[1] for f in adt["variants"][0][2]}
            if fields.get("inner") not in INT_TYPES:
                continue
            rust = gpath(crate, adt["path"])
            if rust in flag_types:
                continue
            owners = set()
            for im in find_impls(F, adt["path"]):
                if im["trait"] is None:
                    for it in im["items"]:
                        if it[0] != "fn":
                            continue
                        fn = F.fn(it[2])
                        if fn is None or fn.get("hir") is None or fn.get("file") != adt.get("file"):
                            continue  # (hand-written impls elsewhere, e.g. the collective conversions, may name the constants of other flag types)
                        for node in H.walk(fn["hir"]):
                            if node[0] == "path" and node[2].startswith("AssocConst"):
                                o = gpath(crate, node[1].rsplit("::", 1)[0])
                                if o in flag_types:
                                    owners.add(o)
            if len(owners) == 1:
                synth[rust] = owners.pop()
    st["synth"] = synth
    st["enum_types"] = {p["rust"] for p in st["P"].of_kind("enum")}
    return synth


def writer_fns(pair):
    st = state()
    g = st["g"]
    crate, lpath = split_gpath(pair["rust"])
    out = []
    if crate == "wow_world_base":
        for fp in st["base_readers"].get(("w", pair["rust"]), []):
            out.append(("sync", "wow_world_messages", g.f("wow_world_messages").fn(fp)))
        return out
    F = g.f(crate)
    for cand in (f"{lpath}::write_into_vec", f"<{lpath} as crate::traits::Message>::write_into_vec"):
        fn = F.fn(cand)
        if fn is not None:
            out.append(("sync", crate, fn))
    return out


def write_layout(pair, crate, fn):
    from .wlayout import WriteExtractor
    from .layoutcmp import WriteCanon
    st = state()
    synth = _synth_flag_owner()
    ex = WriteExtractor(st["g"], crate, fn)
    items = ex.run()
    opcode_item = None
    if pair["login"] and pair["obj"].ast.kind != "struct" and items and items[0].get("k") == "int" \
            and (items[0].get("src") or {}).get("const", "").endswith("::OPCODE"):
        opcode_item = items[0]
        items = items[1:]
    ex.opcode_item = opcode_item
    findings = []
    wc = WriteCanon(st["g"], crate, st["enum_types"], st["flag_types"], synth, findings)
    canon = wc.seq(items)
    return canon, ex, findings, wc


def guard_semantic(cond, body_size_name="body_size"):
    """The set of body sizes a guard condition lets through, found by evaluating the condition: a condition over `body_size` built from
    comparisons with integer literals (in any spelling: `!=`, `>`, `!(a..=b).contains(&body_size)`, `body_size < a || body_size > b`, ..)
    is piecewise constant with breakpoints at its literals, so it is evaluated at every literal, its neighbours, 0 and u32::MAX.
    -> ('ne', K) | ('range', a, b) | ('gt', b) | None when it is not such a condition"""
    from .minieval import Mini, Unsupported, Panic
    c = H.strip(cond)
    locals_ = {x[1] for x in H.walk(c) if H.tag(x) == "local"}
    if locals_ != {body_size_name}:
        return None
    lits = {int(x[2]) for x in H.walk(c) if H.tag(x) == "lit" and x[1] == "int"}
    if not lits or len(lits) > 8:
        return None
    U32 = (1 << 32) - 1
    pts = sorted({0, 1, U32 - 1, U32} | {v + d for v in lits for d in (-1, 0, 1) if 0 <= v + d <= U32})
    acc = []
    for v in pts:
        try:
            r = Mini({}, "wow_world_messages").ev(c, [{body_size_name: v}])
        except (Unsupported, Panic, KeyError, TypeError, ValueError, IndexError, AttributeError):
            return None
        if not isinstance(r, bool):
            return None
        if not r:
            acc.append(v)
    if not acc:
        return None
    lo, hi = acc[0], acc[-1]
    if [v for v in pts if lo <= v <= hi] != acc or hi == U32:
        return None  # not one interval, or no upper bound
    if lo == hi:
        return ("ne", lo)
    if lo == 0:
        return ("gt", hi)
    return ("range", lo, hi)


def parse_guard(cond, body_size_name="body_size"):
    """-> ('ne', K) | ('range', a, b) | ('gt', b) | ('other', text)"""
    sem = guard_semantic(cond, body_size_name)
    if sem is not None:
        return sem
    c = H.strip(cond)
    if H.tag(c) == "un" and c[2] == "Not":
        m = H.strip(c[4])
        if H.is_mcall(m) and H.mcall(m)["name"] == "contains":
            mc = H.mcall(m)
            r = H.strip(mc["recv"])
            arg = H.strip_refs(mc["args"][0]) if mc["args"] else None
            if H.local_name(arg) == body_size_name and H.tag(r) == "call" and "RangeInclusive" in (H.call_path(r) or ""):
                a, b = (H.lit_int(x) for x in H.call_args(r))
                if a is not None and b is not None:
                    return ("range", a, b)
            if H.local_name(arg) == body_size_name and H.tag(r) == "struct" and "RangeInclusive" in r[1]:
                f = {k: v for k, v in r[2]}
                a, b = H.lit_int(f.get("start")), H.lit_int(f.get("end"))
                if a is not None and b is not None:
                    return ("range", a, b)
    if H.tag(c) == "bin" and H.local_name(c[4]) == body_size_name:
        v = H.lit_int(c[5])
        if v is not None:
            if c[2] == "Ne":
                return ("ne", v)
            if c[2] == "Gt":
                return ("gt", v)
    return ("other", H.short(c, maxlen=120))
