"""Leaf reader/writer primitives: the (width, endianness, type) of each util reader is derived from its body,
so the leaf table used by the layout extractors is computed from the code, not assumed from names."""
import re

from . import hir as H
from .world import gpath

TOKIO_NATIVE = {
    # tokio::io::AsyncReadExt methods with documented fixed width/endianness (trusted contract)
    "read_u8": (1, "le", "u8"), "read_i8": (1, "le", "i8"),
    "read_u16_le": (2, "le", "u16"), "read_u16": (2, "be", "u16"),
    "read_u32_le": (4, "le", "u32"), "read_u32": (4, "be", "u32"),
    "read_u64_le": (8, "le", "u64"), "read_u64": (8, "be", "u64"),
    "read_i16_le": (2, "le", "i16"), "read_i32_le": (4, "le", "i32"), "read_i64_le": (8, "le", "i64"),
    "read_i32": (4, "be", "i32"),
    "read_f32_le": (4, "le", "f32"), "read_f32": (4, "be", "f32"),
}
TY_WIDTH = {"u8": 1, "i8": 1, "u16": 2, "i16": 2, "u32": 4, "i32": 4, "f32": 4, "u64": 8, "i64": 8, "f64": 8}

READ_EXACT = {
    "std::io::Read::read_exact": "sync",
    "tokio::io::AsyncReadExt::read_exact": "tokio",
    "tokio::io::util::async_read_ext::AsyncReadExt::read_exact": "tokio",
    "async_std::io::ReadExt::read_exact": "astd",
    "async_std::io::read::ReadExt::read_exact": "astd",
    "futures_lite::io::AsyncReadExt::read_exact": "astd",
}


def is_read_exact(path):
    return path in READ_EXACT or path.endswith("::read_exact")


def unwrap(n):
    """strip try/await wrappers"""
    while True:
        n = H.strip(n)
        if H.tag(n) in ("try", "await"):
            n = n[1]
        else:
            return n


def prim_of_fn(fn):
    """-> (width, endian, ty, flavour) if fn body is a primitive fixed-width reader, else None."""
    if fn["hir"] is None:
        return None
    body = H.unwrap_async(fn["hir"])
    stmts = H.stmts_of(body)
    # (b) delegation to tokio's native reader
    if len(stmts) == 1 and stmts[0][0] == "tail":
        e = unwrap(stmts[0][1])
        if H.is_mcall(e):
            mc = H.mcall(e)
            if ("AsyncReadExt::" in mc["path"]) and mc["name"] in TOKIO_NATIVE and H.local_name(H.strip_refs(mc["recv"])):
                w, en, ty = TOKIO_NATIVE[mc["name"]]
                return (w, en, ty, "tokio")
        return None
    if len(stmts) != 3:
        return None
    s0, s1, s2 = stmts
    if s0[0] != "let" or H.tag(s0[1]) != "bind" or s0[2] is None:
        return None
    init = H.strip(s0[2])
    if H.tag(init) != "repeat" or not init[1].startswith("[u8; ") or H.lit_int(init[2]) != 0:
        return None
    try:
        n = int(init[1][5:-1])
    except ValueError:
        return None  # e.g. a const-generic length: decided by interpretation (prim_semantic)
    buf = s0[1][1]
    if s1[0] not in ("semi", "expr"):
        return None
    e1 = unwrap(s1[1])
    if not H.is_mcall(e1):
        return None
    mc = H.mcall(e1)
    if not is_read_exact(mc["path"]) or len(mc["args"]) != 1 or H.local_name(H.strip_refs(mc["args"][0])) != buf:
        return None
    flavour = READ_EXACT.get(mc["path"], "?")
    if s2[0] != "tail":
        return None
    e2 = H.strip(s2[1])
    if not (H.is_call(e2) and (H.call_path(e2) or "").endswith("::Ok") and len(H.call_args(e2)) == 1):
        return None
    inner = H.strip(H.call_args(e2)[0])
    p = H.call_path(inner) or ""
    if not (p.startswith("std::num::<impl ") or p.startswith("std::f32::<impl ") or "<impl f32>" in p or "<impl " in p):
        return None
    if p.endswith("::from_le_bytes"):
        en = "le"
    elif p.endswith("::from_be_bytes"):
        en = "be"
    else:
        return None
    ty = p.split("<impl ")[1].split(">")[0]
    if H.local_name(H.call_args(inner)[0]) != buf:
        return None
    if TY_WIDTH.get(ty) != n:
        return None
    return (n, en, ty, flavour)


RESULT_TY = re.compile(r"Result<(u8|i8|u16|i16|u32|i32|u64|i64|f32|f64), ")


def prim_semantic(g, crate, fn):
    """A fixed-width reader of any shape (helper calls, const generics, arrays built another way): the body is interpreted on a stream of
    distinct abstract bytes; it is a primitive iff it returns Ok of exactly the first N bytes in little- or big-endian order, N being the
    width of its result type, and consumes exactly those."""
    m = RESULT_TY.search(fn.get("output") or "")
    if fn.get("hir") is None or not m or len(fn.get("params") or []) != 1:
        return None
    ty = m.group(1)
    from .minieval import Mini, Stream, Tok, Wide, Unsupported, Panic
    FB = {c: g.f(c) for c in ("wow_world_messages", "wow_login_messages", "wow_world_base")}
    toks = [Tok(900 + i, "any") for i in range(16)]
    st = Stream(toks)
    try:
        res = Mini(FB, crate).call_fn(fn["path"], [st])
    except (Unsupported, Panic, KeyError, TypeError, ValueError, IndexError, AttributeError, RecursionError):
        return None
    w = TY_WIDTH[ty]
    if not (isinstance(res, tuple) and len(res) == 2 and res[0] == "Ok") or st.pos != w:
        return None
    v = res[1]
    slots = v.slots if isinstance(v, Wide) else [v]
    flavour = strip_flavour(fn["name"])[1]
    if slots == toks[:w]:
        return (w, "le", ty, flavour)
    if slots == toks[:w][::-1]:
        return (w, "be", ty, flavour)
    return None


# semantic leaves by function name (prefix tokio_/astd_ stripped); their bodies are checked by builtin.siblings / C03
NAMED_LEAVES = {
    "read_c_string_to_vec": ("cstring",),
    "read_sized_c_string_to_vec": ("sizedbody",),
    "read_fixed_string_to_vec": ("fixedstr",),
    "read_bool_u8": ("bool", 1), "read_bool_u16": ("bool", 2), "read_bool_u32": ("bool", 4),
    "read_guid": ("guid",), "read_packed_guid": ("packedguid",),
    "read_monster_move_spline": ("builtin", "MonsterMoveSplines"),
    "read_achievement_done": ("builtin", "AchievementDoneArray"),
    "read_achievement_in_progress": ("builtin", "AchievementInProgressArray"),
    "read_addon_array": ("builtin", "AddonArray"),
}


def strip_flavour(name):
    for p in ("tokio_", "astd_"):
        if name.startswith(p):
            return name[len(p):], p[:-1]
    return name, "sync"


class LeafTable:
    """global fn path -> leaf description, computed from the util modules of a crate."""

    def __init__(self, g, crate):
        self.g, self.crate = g, crate
        self.prims = {}
        self.named = {}
        F = g.f(crate)
        for fn in F.all("fn", lambda p: p.startswith("crate::util::")):
            gp = gpath(crate, fn["path"])
            pr = prim_of_fn(fn)
            if pr is None and fn["name"].split("_")[0] in ("read", "tokio", "astd") and strip_flavour(fn["name"])[0] not in NAMED_LEAVES:
                pr = prim_semantic(g, crate, fn)
            if pr is not None:
                self.prims[gp] = pr
                continue
            base, flavour = strip_flavour(fn["name"])
            if base in NAMED_LEAVES:
                self.named[gp] = NAMED_LEAVES[base] + (flavour,)

    def leaf(self, gp):
        if gp in self.prims:
            w, en, ty, fl = self.prims[gp]
            if ty.startswith("f"):
                return {"k": "float", "leaf": ("float", w, en), "rty": ty}
            return {"k": "int", "leaf": ("int", w, en, ty.startswith("i")), "rty": ty}
        if gp in self.named:
            d = self.named[gp]
            if d[0] == "bool":
                return {"k": "bool", "leaf": ("bool", d[1])}
            if d[0] == "builtin":
                return {"k": "builtin", "name": d[1]}
            return {"k": d[0], "leaf": (d[0],)}
        return None
