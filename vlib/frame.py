"""Header framing analysis of the world reader entry points (C02-D2(b)/(e), C02-D3, C05-D2/D3).

A small path-sensitive abstract interpreter over typed HIR: it follows the statements of a reader entry point,
forks on the large-header test, and reports per path how many header bytes were taken from the transport, which
buffers went through the decrypter and how often, how long the body buffer is in terms of the size field, and what
is handed to the body decoder."""
from . import hir as H
from .prims import is_read_exact, unwrap
from .world import gpath


class Path:
    def __init__(self):
        self.consumed = 0
        self.large = None
        self.decrypts = {}  # buffer name -> times decrypted
        self.header_bufs = []  # names of fixed buffers read from the transport
        self.env = {}
        self.body_len = None
        self.body_buf = None
        self.body_decrypted = 0
        self.passed = None
        self.final_call = None
        self.notes = []
        self.dead = False
        self.returned = None  # None, or how the path left the function early: "call" (delegates to a decoder) / "err" / "other"

    def fork(self):
        p = Path()
        p.consumed, p.large = self.consumed, self.large
        p.decrypts = dict(self.decrypts)
        p.header_bufs = list(self.header_bufs)
        p.env = dict(self.env)
        p.body_len, p.body_buf, p.passed, p.final_call = self.body_len, self.body_buf, self.passed, self.final_call
        p.body_decrypted = self.body_decrypted
        p.notes = list(self.notes)
        p.returned = self.returned
        return p


def show(v):
    if v is None:
        return "?"
    if v[0] == "sf":
        return "size_field" + ("(3-byte form)" if v[1] == "l3" else "")
    if v[0] == "sub":
        return f"{show(v[1])} - {v[2]}"
    if v[0] == "hdr":
        return "header"
    return str(v[0])


class FrameReader:
    def __init__(self, g, crate, fn, helper_summaries=None):
        self.g, self.crate, self.fn = g, crate, fn
        self.unknown = []
        self.helper = helper_summaries or {}

    def unk(self, what, n=None):
        self.unknown.append(what + (": " + H.short(n, maxlen=140) if n is not None else ""))

    def run(self):
        body = H.unwrap_async(self.fn["hir"])
        p = Path()
        for prm, ty in zip(self.fn["params"], self.fn["inputs"]):
            if H.tag(prm) == "bind":
                if "Decrypter" in ty:
                    p.env[prm[1]] = ("decrypter",)
                elif prm[1] == "r" or "Read" in ty:
                    p.env[prm[1]] = ("reader",)
        paths = self.block(body, [p])
        return [q for q in paths if not q.dead]

    # -- expression evaluation (value + effects) -------------------------------------------------
    def is_reader(self, n, p):
        n = H.strip_refs(n)
        return H.tag(n) == "local" and p.env.get(n[1]) == ("reader",)

    def is_decrypter(self, n, p):
        n = H.strip_refs(n)
        return H.tag(n) == "local" and p.env.get(n[1]) == ("decrypter",)

    def buf_name(self, n, p):
        n = H.strip_refs(n)
        if H.tag(n) == "local" and isinstance(p.env.get(n[1]), tuple) and p.env[n[1]][0] in ("bytes", "vec"):
            return n[1]
        return None

    def ev(self, n, p):
        """-> list of (path, value)"""
        n0 = n
        had_try = False
        x_ = H.strip(n)
        while H.tag(x_) in ("try", "await"):
            had_try = had_try or H.tag(x_) == "try"
            x_ = H.strip(x_[1])
        n = unwrap(n)
        t = H.tag(n)
        if t == "local":
            return [(p, p.env.get(n[1]))]
        if t in ("ref", "refmut"):
            return self.ev(n[1], p)
        if t == "cast":
            res = self.ev(n[4], p)
            from .intconv import INT_TYPES
            if n[2] in INT_TYPES and n[3] in INT_TYPES and INT_TYPES[n[3]][0] < INT_TYPES[n[2]][0]:
                for q, v in res:
                    if v == ("op",):
                        q.notes.append(("opcode-narrowed", f"{n[2]} as {n[3]}"))
            return res
        if t == "lit":
            return [(p, ("lit", n[2]))]
        if t == "repeat":
            ty = n[1]
            if ty.startswith("[u8; "):
                return [(p, ("bytes", int(ty[5:-1])))]
            return [(p, None)]
        if t == "call":
            path = H.call_path(n) or ""
            args = H.call_args(n)
            last = path.split("::")[-1]
            if last == "from_elem" and len(args) == 2:
                # vec![0; E]
                out = []
                for q, v in self.ev(args[1], p):
                    out.append((q, ("vec", v)))
                return out
            if last in ("from_be_bytes", "from_le_bytes") and len(args) == 1:
                return [(p, self.bytes_value(last, path, args[0], p))]
            if last in ("from_array", "from_large_array") and ("ServerHeader" in path or "ClientHeader" in path):
                form = "l3" if last == "from_large_array" else "s2"
                return [(p, ("hdr", form))]
            gp = gpath(self.crate, path)
            if gp in self.helper or path in self.helper:
                h = self.helper.get(gp) or self.helper.get(path)
                vals = [self.ev(a, p)[0][1] for a in args]
                p.final_call = last
                if "len_arg" in h:
                    bv = vals[h["len_arg"]] if h["len_arg"] < len(vals) else None
                    p.passed = bv[1] if isinstance(bv, tuple) and bv and bv[0] == "vec" else None
                    return [(p, None)]
                sizev = vals[h["size_arg"]] if h["size_arg"] < len(vals) else None
                p.passed = ("sub", sizev, h["k"]) if sizev is not None else None
                return [(p, None)]
            if last == "read_opcodes" and len(args) == 3:
                p.final_call = last
                p.passed = self.ev(args[1], p)[0][1]
                return [(p, None)]
            for pre in ("tokio_", "astd_"):
                if last.startswith(pre):
                    last = last[len(pre):]
            if last in ("read_u16_be", "read_u16_le", "read_u32_le", "read_u8_le") and args and self.is_reader(args[0], p):
                w = {"read_u16_be": 2, "read_u16_le": 2, "read_u32_le": 4, "read_u8_le": 1}[last]
                p.consumed += w
                if last == "read_u16_be":
                    return [(p, ("sf", "s2"))]
                return [(p, ("op",))]
            if last in ("Ok", "Some"):
                return self.ev(args[0], p) if args else [(p, None)]
            if path in ("std::convert::From::from", "std::convert::Into::into") and len(args) == 1:
                # a widening conversion of an integer (u32::from(x)): the value is that of its operand
                ga = H.call_gargs(n)
                from .intconv import INT_TYPES
                if len(ga) >= 2 and ga[0] in INT_TYPES and ga[1] in INT_TYPES:
                    return self.ev(args[0], p)
            if path.startswith("crate::"):
                # an unknown crate function: still look at its arguments (casts of the opcode, reads) for their effects
                for a_ in args:
                    try:
                        self.ev(a_, p)
                    except Exception:  # noqa
                        pass
            if had_try and path.startswith("crate::") and p.consumed > 0 and p.body_len is None:
                # `f(..)?` on a crate function that is neither a transport read nor the body decoder: its error leaves the function
                # here, after the header was taken from the stream and before the body was
                p.notes.append(("fallible-before-body", path))
            return [(p, None)]
        if t == "mcall":
            mc = H.mcall(n)
            nm = mc["name"]
            if is_read_exact(mc["path"]) and self.is_reader(mc["recv"], p) and len(mc["args"]) == 1:
                b = self.buf_name(mc["args"][0], p)
                if b is None:
                    self.unk("read_exact into an unrecognised buffer", n)
                    return [(p, None)]
                v = p.env[b]
                if v[0] == "bytes":
                    p.consumed += v[1]
                    p.header_bufs.append(b)
                    p.decrypts.setdefault(b, 0)
                else:
                    p.body_len = v[1]
                    p.body_buf = b
                return [(p, None)]
            if self.is_decrypter(mc["recv"], p):
                if nm == "decrypt" and len(mc["args"]) == 1:
                    b = self.buf_name(mc["args"][0], p)
                    if b is None:
                        self.unk("decrypt of an unrecognised buffer", n)
                    elif p.env[b][0] == "vec":
                        p.body_decrypted += 1
                    else:
                        p.decrypts[b] = p.decrypts.get(b, 0) + 1
                    return [(p, None)]
                if nm in ("decrypt_server_header", "decrypt_client_header") and len(mc["args"]) == 1:
                    b = self.buf_name(mc["args"][0], p)
                    if b is not None:
                        p.decrypts[b] = p.decrypts.get(b, 0) + 1
                    else:
                        self.unk("header decryption of an unrecognised buffer", n)
                    return [(p, ("hdr", "s2"))]
                if nm == "attempt_decrypt_server_header" and len(mc["args"]) == 1:
                    b = self.buf_name(mc["args"][0], p)
                    if b is not None:
                        p.decrypts[b] = p.decrypts.get(b, 0) + 1
                    return [(p, ("attempt",))]
                if nm == "decrypt_large_server_header" and len(mc["args"]) == 1:
                    a = H.strip(mc["args"][0])
                    b = self.buf_name(a[3], p) if H.tag(a) == "idx" else None
                    if b is not None:
                        p.decrypts[b] = p.decrypts.get(b, 0) + 1
                    else:
                        self.unk("large header decryption of an unrecognised byte", n)
                    return [(p, ("hdr", "l3"))]
                self.unk(f"unrecognised decrypter call {nm}", n)
                return [(p, None)]
            if nm == "saturating_sub" and len(mc["args"]) == 1:
                k = H.lit_int(mc["args"][0])
                out = []
                for q, v in self.ev(mc["recv"], p):
                    out.append((q, ("sub", v, k) if k is not None and v is not None else None))
                return out
            if nm in ("into", "try_into", "clone", "as_slice", "unwrap"):
                return self.ev(mc["recv"], p)
            return [(p, None)]
        if t == "field":
            out = []
            for q, v in self.ev(n[1], p):
                if v is not None and v[0] == "hdr":
                    out.append((q, ("sf", v[1]) if n[2] == "size" else ("op",) if n[2] == "opcode" else None))
                else:
                    out.append((q, None))
            return out
        if t == "tup":
            paths = [(p, [])]
            for e in n[1]:
                nxt = []
                for q, acc in paths:
                    for q2, v in self.ev(e, q):
                        nxt.append((q2, acc + [v]))
                paths = nxt
            return [(q, ("tuple", acc)) for q, acc in paths]
        if t == "array":
            return [(p, ("arr", n[1]))]
        if t == "block":
            res = []
            for q in self.block_val(n, p):
                res.append(q)
            return res
        if t == "if":
            return self.if_expr(n, p)
        if t == "match":
            return self.match_expr(n, p)
        if t == "ret":
            out = []
            inner = n[1] if len(n) > 1 else None
            res = self.ev(inner, p) if inner is not None else [(p, None)]
            for q, v in res:
                e = H.strip(inner) if inner is not None else None
                if e is not None and H.tag(e) == "call" and (H.call_path(e) or "").split("::")[-1] == "Err":
                    q.returned = "err"
                elif q.final_call is not None:
                    q.returned = "call"
                else:
                    q.returned = "other"
                out.append((q, None))
            return out
        if t == "bin":
            if n[2] == "BitAnd" and (H.lit_int(n[5]) is not None or H.tag(H.strip(n[5])) == "path"):
                res = self.ev(n[4], p)
                out = []
                for q, v in res:
                    if v == ("sf-raw", "l3"):
                        m = H.lit_int(n[5])
                        if m is None:
                            c = self.g.f(self.crate).const(H.strip(n[5])[1])
                            m = int(c["val"]) if c and c.get("val") is not None else None
                        if m == 0x7FFFFF:
                            out.append((q, ("sf", "l3")))
                        else:
                            lost = 0x7FFFFF & ~(m or 0)
                            self.unk(f"the 3-byte size is masked with {m:#x}: only the marker bit 23 may be cleared (mask 0x7fffff); size bits {lost:#x} are dropped, "
                                     f"so size fields of {(lost & -lost):#x} and above are decoded as a smaller body and the rest of the frame is read as the next header" if m is not None else "the 3-byte size is masked with a non-constant", n)
                            out.append((q, None))
                    else:
                        out.append((q, None))
                return out
            return [(p, None)]
        return [(p, None)]

    def bytes_value(self, last, path, arg, p):
        a = H.strip(arg)
        if H.tag(a) != "array":
            return None
        elems = [H.strip(x) for x in a[1]]

        def idx_of(e):
            # header[i]  or  header[i] & MASK
            mask = None
            if H.tag(e) == "bin" and e[2] == "BitAnd":
                mask = H.lit_int(e[5])
                e = H.strip(e[4])
            if H.tag(e) == "idx":
                b = self.buf_name(e[3], p) or H.local_name(H.strip_refs(e[3]))
                return (b, H.lit_int(e[4]), mask)
            if H.lit_int(e) == 0:
                return ("zero", None, None)
            return None

        xs = [idx_of(e) for e in elems]
        if any(x is None for x in xs):
            return None
        nz = [x for x in xs if x[0] != "zero"]
        if last == "from_be_bytes":
            if len(nz) == 2 and [x[1] for x in nz] == [0, 1] and all(x[2] is None for x in nz) and xs[-2:] == nz:
                return ("sf", "s2")
            if len(nz) == 3 and [x[1] for x in nz] == [0, 1, 2] and nz[0][2] == 0x7F and nz[1][2] is None and nz[2][2] is None and xs[-3:] == nz and len(xs) == 4:
                return ("sf", "l3")
            if len(nz) == 3 and [x[1] for x in nz] == [0, 1, 2] and all(x[2] is None for x in nz) and xs[-3:] == nz and len(xs) == 4:
                return ("sf-raw", "l3")  # still carries the large-header marker (bit 23): must be cleared by a word-level mask
            self.unk("size bytes are not the big-endian bytes 0..1 (or 0&0x7F,1,2) of the header", arg)
            return None
        if last == "from_le_bytes":
            # opcode bytes: little-endian, directly after the size bytes (2-byte form: header[2..]; 3-byte form: header[3], extra byte[0])
            if any(x[0] == "zero" or x[2] is not None for x in xs):
                self.unk("opcode bytes are padded or masked", arg)
                return None
            want_len = getattr(self, "op_len", None)
            if want_len is not None and len(xs) != want_len:
                self.unk(f"opcode is assembled from {len(xs)} header bytes, this direction uses {want_len}", arg)
                return None
            hb = [b for b in p.header_bufs]
            if p.large:
                ok = len(xs) == 2 and len(hb) >= 2 and xs[0][:2] == (hb[0], 3) and xs[1][:2] == (hb[-1], 0) and hb[0] != hb[-1]
                if not ok:
                    self.unk("opcode of the 3-byte size form is not [header[3], extra_byte[0]] (little-endian)", arg)
                    return None
            else:
                ok = bool(hb) and all(x[0] == hb[0] and x[1] == 2 + j for j, x in enumerate(xs))
                if not ok:
                    self.unk("opcode bytes are not header[2..] in little-endian order", arg)
                    return None
            return ("op",)
        return None

    # -- control flow ------------------------------------------------------------------------------
    def is_large_test(self, cond):
        c = H.strip(cond)
        # header[0] & 0x80 != 0
        for x in H.walk(c):
            if H.tag(x) == "bin" and x[2] == "BitAnd" and H.lit_int(x[5]) == 0x80:
                inner = H.strip(x[4])
                if H.tag(inner) == "idx" and H.lit_int(inner[4]) == 0:
                    return H.tag(c) == "bin" and c[2] == "Ne"
        return False

    def if_expr(self, n, p):
        cond, then, els = n[1], n[2], n[3]
        c0 = H.strip(cond)
        if H.tag(c0) == "letexpr":
            # `if let PAT = e { .. } else { .. }` is the two-armed match on e (the else branch stands for every other variant)
            pat = c0[1]
            pp = pat
            while H.tag(pp) in ("pref", "pderef"):
                pp = pp[1]
            out = []
            for q, v in self.ev(c0[2], p):
                if v == ("attempt",):
                    name = pp[1].split("::")[-1] if H.tag(pp) in ("ts", "ppath", "ps") else ""
                    if name in ("Header", "AdditionalByteRequired"):
                        a, b = q.fork(), q.fork()
                        a.large, b.large = (name != "Header"), (name == "Header")
                        if name == "Header" and H.tag(pp) == "ts" and pp[2] and H.tag(pp[2][0]) == "bind":
                            a.env[pp[2][0][1]] = ("hdr", "s2")
                        out += self.ev(then, a)
                        out += self.ev(els, b) if els is not None else [(b, None)]
                        q.dead = True
                        continue
                    self.unk("unrecognised WrathServerAttempt pattern", pat)
                out += self.ev(then, q.fork())
                out += self.ev(els, q.fork()) if els is not None else [(q.fork(), None)]
                q.dead = True
            return out
        named = H.tag(c0) == "local" and p.env.get(c0[1]) == ("largetest",)
        # the negated test (`if !is_large { small } else { large }`): the same split with the branches exchanged
        negated = False
        if H.tag(c0) == "un" and c0[2] == "Not":
            inner = H.strip(c0[4])
            if (H.tag(inner) == "local" and p.env.get(inner[1]) == ("largetest",)) or self.is_large_test(inner):
                negated = True
        if named or negated or self.is_large_test(cond):
            a = p.fork()
            a.large = not negated
            b = p.fork()
            b.large = negated
            p.dead = True
            out = self.ev(then, a)
            out += self.ev(els, b) if els is not None else [(b, None)]
            return out
        # other conditions (opcode == M::OPCODE ...): follow both branches; without an else the fall-through path continues too
        out = self.ev(then, p.fork())
        if els is not None:
            out += self.ev(els, p.fork())
        else:
            out.append((p.fork(), None))
        p.dead = True
        return out

    def match_expr(self, n, p):
        res = self.ev(n[1], p)
        out = []
        for q, v in res:
            if v == ("attempt",):
                for pat, guard, body in n[3]:
                    pp = pat
                    while H.tag(pp) in ("pref", "pderef"):
                        pp = pp[1]
                    name = pp[1].split("::")[-1] if H.tag(pp) in ("ts", "ppath", "ps") else ""
                    f = q.fork()
                    if name == "Header":
                        f.large = False
                        if H.tag(pp) == "ts" and pp[2] and H.tag(pp[2][0]) == "bind":
                            f.env[pp[2][0][1]] = ("hdr", "s2")
                        out += self.ev(body, f)
                    elif name == "AdditionalByteRequired":
                        f.large = True
                        out += self.ev(body, f)
                    else:
                        self.unk("unrecognised WrathServerAttempt arm", pat)
                q.dead = True
            else:
                for pat, guard, body in n[3]:
                    out += self.ev(body, q.fork())
                q.dead = True
        return out

    def bind(self, pat, v, p):
        if H.tag(pat) == "bind":
            p.env[pat[1]] = v
        elif H.tag(pat) == "ptup" and v is not None and v[0] == "tuple":
            for sp, sv in zip(pat[1], v[1]):
                self.bind(sp, sv, p)

    def block_val(self, blk, p):
        """evaluate a block expression -> list of (path, value)"""
        b = blk
        while H.tag(b) == "mac":
            b = b[2]
        paths = [p]
        for st in b[1]:
            nxt = []
            for q in paths:
                if q.returned is not None:
                    nxt.append(q)
                    continue
                if st[0] == "let":
                    if st[2] is None:
                        nxt.append(q)
                        continue
                    if H.tag(st[1]) == "bind" and self.is_large_test(st[2]):
                        q.env[st[1][1]] = ("largetest",)  # `let is_large = header[0] & 0x80 != 0;`
                        nxt.append(q)
                        continue
                    for q2, v in self.ev(st[2], q):
                        self.bind(st[1], v, q2)
                        nxt.append(q2)
                elif st[0] in ("semi", "expr"):
                    for q2, v in self.ev(st[1], q):
                        nxt.append(q2)
                else:
                    nxt.append(q)
            paths = nxt
        out = []
        for q in paths:
            if q.returned is not None:
                out.append((q, None))
            elif b[2] is not None:
                out += self.ev(b[2], q)
            else:
                out.append((q, None))
        return out

    def block(self, blk, paths):
        out = []
        for p in paths:
            out += [q for q, _ in self.block_val(blk, p)]
        return out


def helper_summary_semantic(g, crate, fn):
    """The same summary by interpretation: the helper is run with M::OPCODE as the opcode, the decoder `read_body` as an observation
    point, buffers of two lengths and a range of size values; the body size handed to the decoder must be `size saturating- k` for one
    k (-> size_arg) or the length of the buffer (-> len_arg) in every run. -> summary or None"""
    from .minieval import Mini, Unsupported, Panic
    from .intconv import INT_TYPES
    names = [p[1] if H.tag(p) == "bind" else None for p in fn["params"]]
    ints = [i for i, t in enumerate(fn["inputs"]) if t.replace("&", "").strip() in INT_TYPES]
    others = [i for i in range(len(names)) if i not in ints]
    if len(ints) != 2 or len(others) != 1:
        return None
    FB = {c: g.f(c) for c in ("wow_world_messages", "wow_world_base")}
    for si, oi in ((ints[0], ints[1]), (ints[1], ints[0])):
        bits = INT_TYPES[fn["inputs"][si].replace("&", "").strip()][0]
        obs = []
        ok = True
        for blen in (7, 11):
            for S in (0, 1, 2, 3, 4, 5, 6, 9, 100, (1 << bits) - 1):
                calls = []
                m = Mini(FB, crate)
                m.consts = {"crate::traits::Message::OPCODE": 0x1234, "crate::Message::OPCODE": 0x1234}

                def rb(a, calls=calls):
                    calls.append(a)
                    return ("Ok", ("decoded",))
                m.overrides = {"::Message::read_body": rb, "::opcode_to_name": lambda a: "name"}
                args = [None] * len(names)
                args[others[0]] = [0x50 + j for j in range(blen)]
                args[si], args[oi] = S, 0x1234
                try:
                    m.call_fn(fn["path"], args)
                except (Unsupported, Panic, KeyError, TypeError, ValueError, IndexError, AttributeError):
                    ok = False
                    break
                if len(calls) != 1 or len(calls[0]) != 2 or not isinstance(calls[0][1], int):
                    ok = False
                    break
                obs.append((blen, S, calls[0][1]))
            if not ok:
                break
        if not ok or not obs:
            continue
        for k in range(0, 9):
            if all(v == max(S - k, 0) for _b, S, v in obs):
                return {"size_arg": si, "k": k}
        if all(v == b_ for b_, _S, v in obs):
            return {"len_arg": others[0]}
    return None


def helper_summary(g, crate, fn):
    """read_server_body / read_client_body: which argument is the size and how much is subtracted before read_body"""
    sem = helper_summary_semantic(g, crate, fn)
    if sem is not None:
        return sem
    for x in H.walk(fn["hir"]):
        if H.tag(x) == "call" and (H.call_path(x) or "").endswith("::read_body"):
            args = H.call_args(x)
            if len(args) == 2:
                a = H.strip(args[1])
                while H.tag(a) == "cast":
                    a = H.strip(a[4])
                if H.tag(a) == "local":
                    # a local bound once by `let`: look through it
                    lets = [st for st in H.walk(fn["hir"]) if H.tag(st) == "let" and H.tag(st[1]) == "bind" and st[1][1] == a[1] and st[2] is not None]
                    if len(lets) == 1:
                        a = H.strip(lets[0][2])
                        while H.tag(a) == "cast":
                            a = H.strip(a[4])
                if H.is_mcall(a) and H.mcall(a)["name"] == "saturating_sub":
                    k = H.lit_int(H.mcall(a)["args"][0])
                    nm = H.local_name(H.mcall(a)["recv"])
                    names = [p[1] for p in fn["params"]]
                    if nm in names and k is not None:
                        return {"size_arg": names.index(nm), "k": k}
                if H.is_mcall(a) and H.mcall(a)["name"] == "len":
                    # the decoder is told the length of the buffer it is handed: read_body(buf, buf.len() as u32)
                    nm = H.local_name(H.strip_refs(H.mcall(a)["recv"]))
                    names = [p[1] for p in fn["params"]]
                    b0 = H.local_name(H.strip_refs(args[0]))
                    if nm in names and nm == b0:
                        return {"len_arg": names.index(nm)}
    return None
