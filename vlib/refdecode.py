"""Concrete decoding of example bytes along the reference layout (vlib/wowm.py RefLayouts): which top-level members are
present for these bytes and which byte range each occupies.  Used by C18 to compare documented example annotations with the
definition; it never runs repository code."""
from . import wowm


class Opaque(Exception):
    """a built-in / compressed member whose extent is not decoded here"""


class Short(Exception):
    pass


def _int(data, pos, w, en="le", signed=False):
    if pos + w > len(data):
        raise Short()
    b = data[pos:pos + w]
    v = int.from_bytes(bytes(b), "little" if en == "le" else "big", signed=signed)
    return v


def _val(v):
    return v if isinstance(v, int) else wowm.parse_int_value(v)


def decode_item(it, data, pos, values):
    """-> new pos; stores integer values of named scalar members in `values`"""
    k = it["k"]
    if k in ("int", "bool"):
        w = it["leaf"][1]
        en = it["leaf"][2] if k == "int" else "le"
        v = _int(data, pos, w, en)
        if it.get("name"):
            values[it["name"]] = v
        return pos + w
    if k == "float":
        if pos + 4 > len(data):
            raise Short()
        return pos + 4
    if k in ("enum", "flag"):
        w = wowm.BASIC_INT[it["wire"]][0]
        v = _int(data, pos, w, "le")
        if it.get("name"):
            values[it["name"]] = v
        return pos + w
    if k == "guid":
        if pos + 8 > len(data):
            raise Short()
        return pos + 8
    if k == "datetime":
        if pos + 4 > len(data):
            raise Short()
        return pos + 4
    if k == "packedguid":
        m = _int(data, pos, 1)
        n = bin(m).count("1")
        if pos + 1 + n > len(data):
            raise Short()
        return pos + 1 + n
    if k == "cstring":
        q = pos
        while True:
            if q >= len(data):
                raise Short()
            if data[q] == 0:
                return q + 1
            q += 1
    if k == "sizedcstring":
        n = _int(data, pos, 4)
        if pos + 4 + n > len(data):
            raise Short()
        return pos + 4 + n
    if k == "string":
        n = _int(data, pos, 1)
        if pos + 1 + n > len(data):
            raise Short()
        return pos + 1 + n
    if k == "struct":
        return decode_seq(it["obj_items"](it), data, pos, {}, None)
    if k == "array":
        c = it["count"]
        if c[0] == "fixed":
            n = c[1]
        elif c[0] == "field":
            if c[1] not in values:
                raise Opaque(f"array count {c[1]} unknown")
            n = values[c[1]]
        else:
            n = None
        if it.get("compressed"):
            raise Opaque("compressed array")
        if n is None:
            while pos < len(data):
                pos = decode_item(dict(it["elem"], obj_items=it.get("obj_items")), data, pos, {})
            return pos
        if n > len(data):
            raise Short()
        for _ in range(n):
            pos = decode_item(dict(it["elem"], obj_items=it.get("obj_items")), data, pos, {})
        return pos
    raise Opaque(f"{k} {it.get('bname', '')}".strip())


def decode_seq(items, data, pos, values, out, obj_items=None):
    """flattened walk; `out` (when not None) receives (name, start, end, kind) of every present named member of this level"""
    for it in items:
        it = dict(it, obj_items=obj_items) if obj_items is not None else it
        k = it["k"]
        if k == "switch":
            var = it["var"]
            if var not in values:
                raise Opaque(f"if variable {var} unknown")
            definer = it["definer"]
            en = next((f[0] for f in definer.fields if _val(f[1]) == values[var]), None) if definer else None
            if en is None or en not in it["table"]:
                raise Opaque(f"value {values[var]} of {var} is not an enumerator")
            pos = decode_seq(it["table"][en], data, pos, values, out, obj_items)
            continue
        if k == "flagif":
            var = it["var"]
            if var not in values:
                raise Opaque(f"if variable {var} unknown")
            definer = it["definer"]
            bits = {f[0]: _val(f[1]) for f in definer.fields}
            chosen = None
            for ens, sub in it["arms"]:
                if any(values[var] & bits.get(e, 0) for e in ens):
                    chosen = sub
                    break
            pos = decode_seq(chosen if chosen is not None else it["else"], data, pos, values, out, obj_items)
            continue
        if k == "optional":
            if pos < len(data):
                pos = decode_seq(it["items"], data, pos, values, out, obj_items)
            continue
        if k == "zlib":
            raise Opaque("compressed body")
        start = pos
        pos = decode_item(it, data, pos, values)
        if out is not None and it.get("name"):
            out.append((it["name"], start, pos, k))
    return pos


def prepare(rl, items, decls=None):
    """attach what the decoder needs (definer of each if variable, nested struct layouts) to a RefLayouts item list"""
    decls = {} if decls is None else decls

    def obj_items(it):
        return prepare(rl, rl.container(it["obj"].ast))

    def walk(its):
        for it in its:
            if it.get("name"):
                decls[it["name"]] = it
            if it["k"] in ("switch", "flagif"):
                v = decls.get(it["var"])
                it["definer"] = v["obj"].ast if v and "obj" in v else None
                if it["k"] == "switch":
                    for sub in it["table"].values():
                        walk(sub)
                else:
                    for _e, sub in it["arms"]:
                        walk(sub)
                    walk(it["else"])
            elif it["k"] in ("optional", "zlib"):
                walk(it.get("items", []))
            elif it["k"] == "struct":
                it["obj_items"] = obj_items
            elif it["k"] == "array":
                it["obj_items"] = obj_items
                if it["elem"]["k"] == "struct":
                    it["elem"]["obj_items"] = obj_items
    walk(items)
    return items
