"""Canonical layouts and their structural comparison (read / write / wowm reference)."""
from . import hir as H
from .intconv import INT_TYPES
from .world import enumerator_rust_name, split_gpath, gpath

BUILTIN_TYPES = {
    "UpdateMask", "AuraMask", "MonsterMoveSplines", "AchievementDoneArray", "AchievementInProgressArray",
    "EnchantMask", "InspectTalentGearMask", "NamedGuid", "VariableItemRandomProperty", "AddonArray", "CacheMask",
}
INT_W = {"u8": 1, "u16": 2, "u32": 4, "u64": 8, "i8": 1, "i16": 2, "i32": 4, "i64": 8, "u48": 6}


class Canon:
    """Helper that assigns ids to leaf items in DFS order."""

    def __init__(self):
        self.n = 0

    def next(self):
        self.n += 1
        return self.n - 1


# ----------------------------------------------------------------------------------------------
# reference (wowm) -> canonical
# ----------------------------------------------------------------------------------------------
def canon_ref(items, rust_of, ids=None, names=None):
    """rust_of(obj) -> global rust path of the paired Rust item."""
    ids = ids or Canon()
    names = names if names is not None else {}
    out = []
    for it in items:
        k = it["k"]
        if k in ("int", "float", "bool", "guid", "packedguid", "cstring", "sizedcstring", "string", "datetime"):
            c = {"c": k, "leaf": it["leaf"], "id": ids.next(), "name": it.get("name")}
            if it.get("wty") in ("Seconds", "Milliseconds"):
                c["unit"] = "s" if it["wty"] == "Seconds" else "ms"  # both are std::time::Duration in Rust: only the unit tells them apart
            out.append(c)
        elif k == "builtin":
            out.append({"c": "builtin", "name": it["bname"], "id": ids.next(), "fname": it.get("name")})
        elif k in ("enum", "flag"):
            out.append({"c": k, "ty": rust_of(it["obj"]), "wire_w": INT_W[it["wire"]], "id": ids.next(), "name": it.get("name"),
                        "obj": it["obj"]})
        elif k == "struct":
            out.append({"c": "struct", "ty": rust_of(it["obj"]), "id": ids.next(), "name": it.get("name")})
        elif k == "array":
            elem = canon_ref([dict(it["elem"], name=None)], rust_of, ids, {})
            cnt = it["count"]
            if cnt[0] == "field":
                ref = names.get(cnt[1])
                cnt = ("field", ref["id"] if ref else None, cnt[1])
            elif cnt[0] == "endless":
                cnt = ("endless",)
            arr = {"c": "array", "count": cnt, "elem": elem, "name": it.get("name")}
            if it.get("compressed"):
                out.append({"c": "int", "leaf": ("int", 4, "le", False), "id": ids.next(), "name": it.get("name") + "_decompressed_size"})
                out.append({"c": "zlib", "items": [arr]})
            else:
                out.append(arr)
            names[it["name"]] = arr
            continue
        elif k == "switch":
            var = names.get(it["var"])
            table = {}
            for en, sub in it["table"].items():
                table[enumerator_rust_name(en)] = canon_ref(sub, rust_of, ids, names)
            out.append({"c": "switch", "var": var["id"] if var else None, "varname": it["var"], "table": table})
            continue
        elif k == "flagif":
            var = names.get(it["var"])
            arms = [(tuple(nk(e) for e in ens), canon_ref(sub, rust_of, ids, names)) for ens, sub in it["arms"]]
            els = canon_ref(it["else"], rust_of, ids, names)
            out.append({"c": "flagif", "var": var["id"] if var else None, "varname": it["var"], "arms": arms, "else": els})
            continue
        elif k == "optional":
            out.append({"c": "optional", "items": canon_ref(it["items"], rust_of, ids, names), "name": it["name"]})
            continue
        elif k == "zlib":
            out.append({"c": "zlib", "items": canon_ref(it["items"], rust_of, ids, names)})
            continue
        else:
            out.append({"c": "?", "raw": k})
        if it.get("name"):
            names[it["name"]] = out[-1]
    return out


# ----------------------------------------------------------------------------------------------
# read layout -> canonical
# ----------------------------------------------------------------------------------------------
class ReadCanon:
    def __init__(self, g, crate, flag_types, findings):
        self.g, self.crate = g, crate
        self.flag_types = flag_types  # set of global rust paths of flag structs
        self.findings = findings  # list of (rule, subkey, message, span)
        self.ids = Canon()
        self.item_c = {}  # id(Item) -> canonical dict

    def adt(self, gp):
        c, p = split_gpath(gp)
        return self.g.f(c).adt(p) if c else None

    def lossy(self, it, what):
        self._pending.append(("taint.lossless-read", what, it))

    def leaf(self, it):
        k = it["k"]
        conv = it.get("conv", [])
        self._pending = []
        try:
            return self._leaf(it, k, conv)
        finally:
            for rule, what, it2 in self._pending:
                # a narrowing before an enum conversion only matters for undeclared values (C04), not for canonical ones
                rule2 = "enum.fullwidth" if it2.get("is_enum") else rule
                self.findings.append((rule2, what, it2))

    def _leaf(self, it, k, conv):
        if k == "int":
            w, en, signed = it["leaf"][1], it["leaf"][2], it["leaf"][3]
            cur_ty = it.get("rty")
            kind = None
            target = None
            for c in conv:
                if c[0] == "cast":
                    src, dst = c[1], c[2]
                    if src in INT_TYPES and dst in INT_TYPES:
                        sb, db = INT_TYPES[src][0], INT_TYPES[dst][0]
                        if db < sb:
                            self.lossy(it, f"narrowing cast {src} as {dst} between the wire read and the stored value")
                    cur_ty = dst
                elif c[0] == "try_into":
                    tgt = c[2]
                    a = self.adt(tgt)
                    if a is not None and a["kind"] == "Enum":
                        kind, target = "enum", tgt
                        it["conv_src"] = c[1]
                    elif tgt in INT_TYPES:
                        cur_ty = tgt
                    elif tgt.endswith("::DateTime"):
                        kind, target = "datetime", tgt  # x.try_into() is DateTime::try_from(x)
                elif c[0] == "from_int":
                    a = self.adt(c[1])
                    if a is not None and a["kind"] == "Enum":
                        kind, target = "enum", c[1]
                        it["conv_src"] = cur_ty
                elif c[0] == "try_from":
                    if c[2].endswith("::DateTime"):
                        kind, target = "datetime", c[2]
                elif c[0] == "new":
                    if c[1] in self.flag_types:
                        kind, target = "flag", c[1]
                    else:
                        it["wrapper"] = c[1]
                elif c[0] in ("into", "from"):
                    tgt = c[2]
                    if tgt in INT_TYPES:
                        cur_ty = tgt
                    else:
                        it["wrapper"] = tgt
                elif c[0] == "duration":
                    it["wrapper"] = c[1]
            if it.get("merged_hi") is not None:
                w = w + it["merged_hi"]["leaf"][1]
            if kind == "enum":
                it["is_enum"] = True
                return {"c": "enum", "ty": target, "wire_w": w, "src": it.get("conv_src"), "wire_ty": it.get("rty")}
            if kind == "flag":
                return {"c": "flag", "ty": target, "wire_w": w}
            if kind == "datetime":
                return {"c": "datetime", "leaf": ("datetime",)}
            r_ = {"c": "int", "leaf": ("int", w, en, signed)}
            dur = [c for c in conv if c[0] == "duration"]
            if dur:
                r_["unit"] = {"from_secs": "s", "from_millis": "ms"}.get(dur[-1][1], dur[-1][1])
            return r_
        if k == "float":
            return {"c": "float", "leaf": it["leaf"]}
        if k == "bool":
            return {"c": "bool", "leaf": it["leaf"]}
        if k in ("guid", "packedguid", "cstring"):
            return {"c": k, "leaf": (k,)}
        if k == "builtin":
            return {"c": "builtin", "name": it["name"]}
        if k == "call":
            ty = it.get("ty")
            if ty:
                last = ty.split("::")[-1]
                a = self.adt(ty)
                if last in BUILTIN_TYPES:
                    return {"c": "builtin", "name": last}
                if ty.startswith("std::vec::Vec<") and it["fn"].endswith("read_addon_array"):
                    return {"c": "builtin", "name": "AddonArray"}
                if a is not None:
                    return {"c": "struct", "ty": ty}
            return {"c": "?", "raw": f"call {it['fn']} -> {ty}"}
        if k == "bytes":
            if it.get("n") is not None:
                return {"c": "array", "count": ("fixed", it["n"]), "elem": [{"c": "int", "leaf": ("int", 1, "le", False), "id": None}]}
            return {"c": "?", "raw": "variable read_exact " + str(it.get("len_expr"))}
        return {"c": "?", "raw": k}

    def seq(self, items):
        out = []
        i = 0
        items = [x for x in items if x.get("merged_into") is None]
        while i < len(items):
            it = items[i]
            k = it["k"]
            nxt = items[i + 1] if i + 1 < len(items) else None
            if k == "int" and nxt is not None and nxt["k"] in ("fixedstr", "sizedbody") and nxt.get("len_from") is it:
                kind = "string" if nxt["k"] == "fixedstr" else "sizedcstring"
                okw = (kind == "string" and it["leaf"][1] == 1) or (kind == "sizedcstring" and it["leaf"][1] == 4)
                c = {"c": kind if okw else "?", "leaf": (kind,), "id": self.ids.next(), "raw": "length prefix width"}
                self.item_c[id(it)] = c
                self.item_c[id(nxt)] = c
                out.append(c)
                i += 2
                continue
            if k == "zlib-start":
                rest = self.seq(items[i + 1:])
                out.append({"c": "zlib", "items": rest, "ctor": it.get("ctor")})
                return out
            if k == "array":
                elem = self.seq(it["elem"])
                cnt = it["count"]
                if cnt[0] == "field":
                    ref = self.item_c.get(id(cnt[1]))
                    cnt = ("field", ref["id"] if ref else None, cnt[1].get("bind"))
                elif cnt[0] == "endless":
                    cnt = ("endless",)
                c = {"c": "array", "count": cnt, "elem": elem}
                self.item_c[id(it)] = c
                out.append(c)
            elif k == "switch":
                var = it["var"]
                vc = self.item_c.get(id(var))
                table = {}
                variants = None
                if vc is not None and vc.get("c") == "enum":
                    a = self.adt(vc["ty"])
                    variants = [v[0] for v in a["variants"]] if a else None
                wild = None
                explicit = {}
                bad = None
                for key, sub in it["arms"]:
                    if key == "_":
                        wild = sub
                    elif isinstance(key, str):
                        vn = key.split("::")[-1]
                        owner = key.rsplit("::", 1)[0]
                        if vc is not None and vc.get("c") == "enum" and owner != vc["ty"]:
                            bad = f"arm {key} is not a variant of {vc['ty']}"
                        explicit[vn] = sub
                    else:
                        bad = f"literal arm {key}"
                if variants is None:
                    bad = bad or "match scrutinee is not an enum-typed read"
                    variants = list(explicit)
                for vn in variants:
                    if vn in explicit:
                        table[vn] = self.seq(explicit[vn])
                    elif wild is not None:
                        table[vn] = self.seq(wild)
                    else:
                        table[vn] = []
                c = {"c": "switch", "var": vc["id"] if vc else None, "table": table, "varname": var.get("bind")}
                if bad:
                    c = {"c": "?", "raw": "switch: " + bad}
                out.append(c)
            elif k == "flagif":
                vc = self.item_c.get(id(it["var"]))
                arms = [((nk(nm),), self.seq(sub)) for nm, sub in it["arms"]]
                c = {"c": "flagif", "var": vc["id"] if vc else None, "arms": arms, "else": self.seq(it["else"]), "varname": it["var"].get("bind")}
                if vc is None or vc.get("c") != "flag":
                    c = {"c": "?", "raw": "flag test on a value that is not a flag-typed read"}
                out.append(c)
            elif k == "optional":
                out.append({"c": "optional", "items": self.seq(it["items"])})
            elif k == "cond":
                out.append({"c": "?", "raw": f"reads under unrecognised condition `{it['cond']}`"})
            elif k in ("fixedstr", "sizedbody"):
                out.append({"c": "?", "raw": f"{k} without its length prefix"})
            else:
                c = self.leaf(it)
                c["id"] = self.ids.next()
                c["span"] = it.get("span")
                c["bind"] = it.get("bind")
                self.item_c[id(it)] = c
                out.append(c)
            i += 1
        return out


# ----------------------------------------------------------------------------------------------
# comparison
# ----------------------------------------------------------------------------------------------
def describe(c):
    k = c.get("c")
    if k in ("int", "float", "bool"):
        return f"{k}{c['leaf'][1:]}"
    if k in ("enum", "flag"):
        return f"{k} {c['ty'].split('::')[-1]} on {c['wire_w']} byte(s)"
    if k == "struct":
        return f"struct {c['ty'].split('::')[-1]}"
    if k == "builtin":
        return f"builtin {c['name']}"
    if k == "array":
        return f"array[{c['count'][0]}{'' if len(c['count'])<2 else ' '+str(c['count'][-1])}] of " + ", ".join(describe(e) for e in c["elem"])
    if k == "?":
        return f"unrecognised({c.get('raw')})"
    return k


def compare(a, b, path, out, la="code", lb="wowm"):
    """a, b: canonical sequences.  Appends (path, message) to out."""
    n = max(len(a), len(b))
    for i in range(n):
        if i >= len(a):
            out.append((path, f"[{i}] {la} ends, {lb} continues with {describe(b[i])}" + (f" ({b[i].get('name')})" if b[i].get('name') else "")))
            return
        if i >= len(b):
            out.append((path, f"[{i}] {lb} ends, {la} continues with {describe(a[i])}"))
            return
        x, y = a[i], b[i]
        nm = y.get("name") or x.get("bind") or ""
        here = f"{path}/[{i}]{nm}"
        if x["c"] == "?" or y["c"] == "?":
            out.append((here, f"{describe(x)} vs {describe(y)}"))
            continue
        if x["c"] != y["c"]:
            out.append((here, f"{la} has {describe(x)}, {lb} has {describe(y)}"))
            continue
        k = x["c"]
        if k in ("int", "float", "bool", "guid", "packedguid", "cstring", "sizedcstring", "string", "datetime"):
            if tuple(x["leaf"]) != tuple(y["leaf"]):
                out.append((here, f"{la} has {describe(x)}, {lb} has {describe(y)}"))
            elif x.get("unit") != y.get("unit") and (x.get("unit") or y.get("unit")):
                names_ = {"s": "seconds", "ms": "milliseconds", None: "a plain integer"}
                out.append((here, f"unit of the Duration member: {la} converts {names_.get(x.get('unit'), x.get('unit'))}, {lb} says {names_.get(y.get('unit'), y.get('unit'))} "
                                  f"(the value on the wire is off by a factor of 1000)"))
        elif k in ("enum", "flag"):
            if x.get("ty") is None and x.get("table") is not None and y.get("obj") is not None:
                exp = {enumerator_rust_name(f[0]): f[1] for f in y["obj"].ast.fields}
                if x["table"] != exp:
                    out.append((here, f"{la}: as_int table of {x.get('synth')} differs from wowm enum {y['obj'].name}"))
                if x["wire_w"] != y["wire_w"]:
                    out.append((here, f"{k} wire width: {la} {x['wire_w']}, {lb} {y['wire_w']}"))
            elif x["ty"] != y["ty"]:
                out.append((here, f"{k} type: {la} {x['ty']}, {lb} {y['ty']}"))
            elif x["wire_w"] != y["wire_w"]:
                out.append((here, f"{k} {x['ty'].split('::')[-1]} wire width: {la} {x['wire_w']}, {lb} {y['wire_w']}"))
        elif k == "struct":
            if x["ty"] != y["ty"]:
                out.append((here, f"struct type: {la} {x['ty']}, {lb} {y['ty']}"))
        elif k == "builtin":
            if x["name"] != y["name"]:
                out.append((here, f"builtin: {la} {x['name']}, {lb} {y['name']}"))
        elif k == "array":
            cx, cy = x["count"], y["count"]
            if cx[0] != cy[0] or (cx[0] == "fixed" and cx[1] != cy[1]) or (cx[0] == "field" and cx[1] != cy[1]):
                out.append((here, f"array count: {la} {cx[:2]} ({cx[-1]}), {lb} {cy[:2]} ({cy[-1]}) (field references are item indices)"))
            compare(x["elem"], y["elem"], here + "/elem", out, la, lb)
        elif k == "switch":
            if x["var"] != y["var"]:
                out.append((here, f"switch variable: {la} item #{x['var']} ({x.get('varname')}), {lb} item #{y['var']} ({y.get('varname')})"))
            vs = list(y["table"].keys())
            for v in sorted(set(x["table"]) | set(y["table"]), key=lambda q: vs.index(q) if q in vs else 1 << 30):
                if v not in x["table"]:
                    out.append((here, f"{la} has no arm for enumerator {v}"))
                elif v not in y["table"]:
                    out.append((here, f"{lb} has no enumerator {v}"))
                else:
                    compare(x["table"][v], y["table"][v], f"{here}/{v}", out, la, lb)
        elif k == "flagif":
            if x["var"] != y["var"]:
                out.append((here, f"flag variable: {la} item #{x['var']}, {lb} item #{y['var']} ({y.get('varname')})"))
            if [a_[0] for a_ in x["arms"]] != [b_[0] for b_ in y["arms"]]:
                out.append((here, f"flag conditions: {la} {[a_[0] for a_ in x['arms']]}, {lb} {[b_[0] for b_ in y['arms']]}"))
            else:
                for (ea, sa), (eb, sb) in zip(x["arms"], y["arms"]):
                    compare(sa, sb, f"{here}/&{'|'.join(ea)}", out, la, lb)
                compare(x["else"], y["else"], f"{here}/else", out, la, lb)
        elif k in ("optional", "zlib"):
            compare(x["items"], y["items"], f"{here}/{k}", out, la, lb)


# ----------------------------------------------------------------------------------------------
# write layout -> canonical
# ----------------------------------------------------------------------------------------------
def nk(s):
    """normalised enumerator key: ON_TRANSPORT / on_transport / OnTransport -> ontransport"""
    return s.replace("_", "").lower()


WRITE_BUILTIN_FNS = {
    "write_packed_guid": ("packedguid",),
    "write_monster_move_spline": ("builtin", "MonsterMoveSplines"),
    "write_achievement_done": ("builtin", "AchievementDoneArray"),
    "write_achievement_in_progress": ("builtin", "AchievementInProgressArray"),
    "write_addon_array": ("builtin", "AddonArray"),
}


class WriteCanon:
    def __init__(self, g, crate, enum_types, flag_types, synth_flag_owner, findings):
        self.g, self.crate = g, crate
        self.enum_types, self.flag_types, self.synth = enum_types, flag_types, synth_flag_owner
        self.findings = findings
        self.ids = Canon()
        self.by_path = {}  # access path -> canonical item (value written from that path)
        self.len_items = {}  # array path -> canonical count item

    def adt(self, gp):
        c, p = split_gpath(gp)
        return self.g.f(c).adt(p) if c else None

    def as_int_table(self, ty):
        c, p = split_gpath(ty)
        if not c:
            return None
        fn = self.g.f(c).fn(p + "::as_int")
        if fn is None:
            return None
        body = H.strip(fn["hir"])
        if H.tag(body) != "match":
            return None
        table = {}
        for pat, gd, ab in body[3]:
            while H.tag(pat) in ("pref", "pderef"):
                pat = pat[1]
            if H.tag(pat) not in ("ps", "ppath", "ts"):
                return None
            v = H.lit_int(ab)
            if v is None:
                return None
            table[pat[1].split("::")[-1]] = v
        return table

    def leaf(self, it):
        k = it["k"]
        if k in ("int", "float"):
            src = it.get("src") or {}
            ops = src.get("ops", [])
            w, en = it["w"], it["e"]
            c = None
            opnames = [o[0] for o in ops]
            if k == "float":
                c = {"c": "float", "leaf": ("float", w, en)}
            elif "as_int" in opnames:
                o = next(o for o in ops if o[0] == "as_int")
                rty = gpath(self.crate, o[2])
                a = self.adt(rty)
                last = rty.split("::")[-1]
                if rty in self.enum_types:
                    c = {"c": "enum", "ty": rty, "wire_w": w}
                elif rty in self.flag_types:
                    c = {"c": "flag", "ty": rty, "wire_w": w}
                elif rty in self.synth:
                    c = {"c": "flag", "ty": self.synth[rty], "wire_w": w}
                elif last == "DateTime":
                    c = {"c": "datetime", "leaf": ("datetime",)} if (w, en) == (4, "le") else {"c": "?", "raw": "DateTime width"}
                elif last == "Population":
                    c = {"c": "float", "leaf": ("float", w, en)}
                elif a is not None and a["kind"] == "Enum":
                    t = self.as_int_table(rty)
                    c = {"c": "enum", "ty": None, "table": t, "wire_w": w, "synth": rty} if t is not None else {"c": "?", "raw": f"as_int of {rty}"}
                else:
                    c = {"c": "int", "leaf": ("int", w, en, it["signed"]), "wrapper": last}
                # u48 split: (x.as_int() as u32) then ((x.as_int() >> 32) as u16)
                if any(o[0] == "shr" for o in ops):
                    c["hi_part"] = next(o[1] for o in ops if o[0] == "shr")
            elif "guid" in opnames:
                c = {"c": "guid", "leaf": ("guid",)} if (w, en) == (8, "le") else {"c": "?", "raw": "guid width"}
            elif any(o[0] == "from" and o[1] == "bool" for o in ops):
                c = {"c": "bool", "leaf": ("bool", w)}
            elif "len" in opnames:
                c = {"c": "int", "leaf": ("int", w, en, it["signed"]), "len_of": src.get("path"), "len_ops": ops}
            else:
                c = {"c": "int", "leaf": ("int", w, en, it["signed"])}
                if src.get("kind") == "const":
                    c["const"] = src["const"]
                du = [o[0] for o in ops if o[0] in ("as_secs", "as_millis", "as_micros", "as_nanos", "subsec_millis", "subsec_nanos", "as_secs_f32", "as_secs_f64")]
                if du:
                    c["unit"] = {"as_secs": "s", "as_millis": "ms"}.get(du[-1], du[-1])
            c["src_path"] = src.get("path")
            return c
        if k == "call":
            fname = it["fn"].split("::")[-1]
            if fname in WRITE_BUILTIN_FNS:
                d = WRITE_BUILTIN_FNS[fname]
                return {"c": d[0], "leaf": (d[0],)} if d[0] != "builtin" else {"c": "builtin", "name": d[1]}
            ty = it.get("recv_ty")
            if ty:
                ty = ty.replace("&", "")
                last = ty.split("<")[0].split("::")[-1]
                if last in BUILTIN_TYPES:
                    return {"c": "builtin", "name": last}
                if self.adt(ty) is not None:
                    return {"c": "struct", "ty": ty}
            return {"c": "?", "raw": f"call {it['fn']} on {ty}"}
        if k == "constbytes":
            return {"c": "?", "raw": f"constant bytes {it['bytes']}"}
        if k == "strbytes":
            return {"c": "?", "raw": "string bytes without terminator/length"}
        if k == "rawbytes":
            return {"c": "?", "raw": "raw bytes of " + str(it["src"].get("path"))}
        return {"c": "?", "raw": it.get("raw", k)}

    def seq(self, items):
        out = []
        i = 0
        while i < len(items):
            it = items[i]
            k = it["k"]
            nxt = items[i + 1] if i + 1 < len(items) else None
            nxt2 = items[i + 2] if i + 2 < len(items) else None
            # strings
            if k == "strbytes" and nxt is not None and nxt["k"] == "constbytes" and nxt["bytes"] == [0]:
                c = {"c": "cstring", "leaf": ("cstring",), "id": self.ids.next(), "src_path": it["src"].get("path")}
                out.append(c)
                i += 2
                continue
            if k == "int" and nxt is not None and nxt["k"] == "strbytes":
                ops = (it.get("src") or {}).get("ops", [])
                names = [o[0] for o in ops]
                same = (it.get("src") or {}).get("path") == nxt["src"].get("path") and "len" in names
                if same and it["w"] == 1 and "add" not in names:
                    out.append({"c": "string", "leaf": ("string",), "id": self.ids.next(), "src_path": nxt["src"].get("path")})
                    i += 2
                    continue
                if same and it["w"] == 4 and ("add", 1) in ops and nxt2 is not None and nxt2["k"] == "constbytes" and nxt2["bytes"] == [0]:
                    out.append({"c": "sizedcstring", "leaf": ("sizedcstring",), "id": self.ids.next(), "src_path": nxt["src"].get("path")})
                    i += 3
                    continue
            if k == "zlib-start":
                # the integer written right before the compressed stream is its decompressed size (`k * v.len()`, `v.len()` when the
                # elements are one byte wide, a sum of sizes), not the element count of the array inside the stream
                if out and out[-1].get("len_of") is not None and self.len_items.get(out[-1]["len_of"]) is out[-1]:
                    del self.len_items[out[-1]["len_of"]]
                    out[-1]["decompressed_size_of"] = out[-1]["len_of"]
                rest_items = items[i + 1:]
                rest = self.seq(rest_items)
                out.append({"c": "zlib", "items": rest, "ctor": it.get("ctor")})
                return out
            if k == "array":
                elem = self.seq(it["elem"])
                if it.get("fixed") is not None:
                    cnt = ("fixed", it["fixed"])
                else:
                    ci = self.len_items.get(it["path"])
                    cnt = ("field", ci["id"], "len") if ci is not None else ("endless",)
                c = {"c": "array", "count": cnt, "elem": elem, "src_path": it["path"]}
                out.append(c)
            elif k == "switch":
                p = it["path"]
                vc = self.by_path.get(p)
                a = self.adt(it["scrut_ty"])
                variants = [v[0] for v in a["variants"]] if a and a["kind"] == "Enum" else None
                explicit, wild = {}, None
                for key, sub in it["arms"]:
                    if key == "_":
                        wild = sub
                    elif key is not None:
                        explicit[key.split("::")[-1]] = sub
                if variants is None:
                    out.append({"c": "?", "raw": f"match on non-enum {it['scrut_ty']}"})
                else:
                    table = {}
                    for vn in variants:
                        if vn in explicit:
                            table[vn] = self.seq(explicit[vn])
                        elif wild is not None:
                            table[vn] = self.seq(wild)
                        else:
                            table[vn] = []
                    out.append({"c": "switch", "var": vc["id"] if vc else None, "table": table, "varname": ".".join(p) if p else None})
            elif k == "iflet":
                p = it["path"]
                owner = self.by_path.get(p[:-1]) if p else None
                if owner is not None and owner.get("c") == "flag":
                    then = it["then"]
                    if len(then) == 1 and then[0]["k"] == "switch" and then[0]["path"] == p:
                        arms = [((nk(key.split("::")[-1]),), self.seq(sub)) for key, sub in then[0]["arms"] if key not in (None, "_")]
                    else:
                        arms = [((nk(p[-1]),), self.seq(then))]
                    c = {"c": "flagif", "var": owner["id"], "arms": arms, "else": self.seq(it["else"]), "varname": ".".join(p[:-1])}
                    out.append(c)
                else:
                    out.append({"c": "optional", "items": self.seq(it["then"]), "src_path": p})
                    if it["else"]:
                        out.append({"c": "?", "raw": "optional else branch writes"})
            elif k == "cond":
                out.append({"c": "?", "raw": f"writes under unrecognised condition `{it['cond']}`"})
            else:
                c = self.leaf(it)
                # merge u48 halves
                if c.get("hi_part") and out and out[-1].get("c") == c.get("c") and out[-1].get("src_path") == c.get("src_path") and c["hi_part"] == 8 * out[-1]["wire_w"]:
                    out[-1]["wire_w"] += c["wire_w"]
                    i += 1
                    continue
                c["id"] = self.ids.next()
                c["span"] = it.get("span")
                if c.get("src_path") is not None and c["c"] in ("enum", "flag"):
                    self.by_path[c["src_path"]] = c
                if c.get("len_of") is not None and all(o[0] in ("cast", "len") for o in c.get("len_ops", [])):
                    self.len_items[c["len_of"]] = c
                if it.get("in_zlib") and it.get("writer") == "w" and False:
                    pass
                out.append(c)
            i += 1
        return out
