"""Effective cfg of every function-like item = cfgs of the `mod` declarations on the way from lib.rs + (for a private module
whose items are only reachable through one `pub use m::*`) the cfgs of that re-export + cfgs of the enclosing inline modules /
impl blocks / traits + its own cfgs.  Used by C19 cfg.sibling-gates."""
import collections
import itertools
import os
import re

FLAVOUR = {"sync": "feature=sync", "tokio": "feature=tokio", "astd": "feature=async-std"}


class GateError(Exception):
    pass


def parse_pred(text):
    toks = re.findall(r'[A-Za-z_][A-Za-z0-9_]*|"[^"]*"|[(),=]', text)
    pos = [0]

    def peek():
        return toks[pos[0]] if pos[0] < len(toks) else None

    def eat(t=None):
        if pos[0] >= len(toks):
            raise GateError(f"unexpected end of cfg predicate `{text}`")
        x = toks[pos[0]]
        pos[0] += 1
        if t is not None and x != t:
            raise GateError(f"expected {t} got {x} in `{text}`")
        return x

    def pred():
        name = eat()
        if peek() == "(":
            eat("(")
            args = []
            while peek() != ")":
                args.append(pred())
                if peek() == ",":
                    eat(",")
            eat(")")
            if name not in ("cfg", "all", "any", "not"):
                raise GateError(f"unknown cfg operator {name} in `{text}`")
            return (name, args)
        if peek() == "=":
            eat("=")
            return ("atom", f"{name}={eat().strip(chr(34))}")
        return ("atom", name)
    p = pred()
    if p[0] != "cfg":
        raise GateError(f"not a cfg attribute: `{text}`")
    return ("all", p[1])


def ev(p, env):
    if p[0] == "atom":
        return env.get(p[1], False)
    if p[0] == "all":
        return all(ev(x, env) for x in p[1])
    if p[0] == "any":
        return any(ev(x, env) for x in p[1])
    if p[0] == "not":
        return not ev(p[1][0], env)
    raise GateError(repr(p))


def atoms(p, acc):
    if p[0] == "atom":
        acc.add(p[1])
    else:
        for x in p[1]:
            atoms(x, acc)
    return acc


MODPATH = {}  # file -> module path segments (filled by module_tree)


def module_tree(crate_src, recs):
    """-> ({file: inherited cfg texts}, [unresolved module declarations])"""
    inh, unresolved = {}, []
    todo = [(os.path.join(crate_src, "lib.rs"), [], [])]
    while todo:
        f, I, mp = todo.pop()
        if f in inh:
            continue
        inh[f] = I
        MODPATH[f] = mp
        base = os.path.dirname(f) if os.path.basename(f) in ("lib.rs", "mod.rs") else f[:-3]
        globs = collections.defaultdict(list)  # module name -> cfgs of `pub use name::*` in the same scope
        for d in recs.get(f, []):
            if d["kind"] == "use":
                m = re.match(r"^(?:self::)?(\w+)::\*$", d["extra"])
                if m:
                    globs[(d["module"], m.group(1))].append(d["own"] + d["enclosing"])
        for d in recs.get(f, []):
            if d["kind"] == "mod" and d["extra"].startswith("file"):
                sub = os.path.join(base, *[m for m in d["module"].split("::") if m])
                c1, c2 = os.path.join(sub, d["name"] + ".rs"), os.path.join(sub, d["name"], "mod.rs")
                child = c1 if os.path.exists(c1) else c2 if os.path.exists(c2) else None
                if child is None:
                    unresolved.append((f, d["name"]))
                    continue
                extra = []
                g = globs.get((d["module"], d["name"]), [])
                if not d["extra"].endswith("|pub") and len(g) == 1:
                    # a crate-private module whose items are exported by exactly one glob re-export: they are visible only when that is
                    extra = [c for c in g[0] if c not in d["own"]]
                todo.append((child, I + d["enclosing"] + d["own"] + extra, mp + [m for m in d["module"].split("::") if m] + [d["name"]]))
    return inh, unresolved


def sibling_groups(crate_src, recs, inh):
    """-> {(scope, base name): {flavour: [(file, record, effective cfg texts)]}}"""
    groups = collections.defaultdict(lambda: collections.defaultdict(list))
    n = 0
    for f, rs in recs.items():
        if f not in inh:
            continue
        for d in rs:
            if d["kind"] not in ("fn", "impl-fn", "trait-fn"):
                continue
            n += 1
            nm = d["name"]
            fl = "tokio" if nm.startswith("tokio_") else "astd" if nm.startswith("astd_") else "sync"
            base = nm[6:] if fl == "tokio" else nm[5:] if fl == "astd" else nm
            rel = os.path.relpath(f, crate_src)
            scope = "util" if rel.startswith("util" + os.sep) else rel + "|" + d["module"]
            groups[(scope, base)][fl].append((f, d, inh[f] + d["enclosing"] + d["own"]))
    return groups, n


def restricted_table(eff, flavour, rest):
    """truth vector of the effective condition over the non-flavour atoms when exactly `flavour` is the enabled flavour"""
    ps = [parse_pred(t) for t in eff]
    vec = []
    for combo in itertools.product((False, True), repeat=len(rest)):
        env = dict(zip(rest, combo))
        env.update({v: False for v in FLAVOUR.values()})
        env[FLAVOUR[flavour]] = True
        vec.append(all(ev(p, env) for p in ps))
    return tuple(vec)


def witness(rest, va, vb):
    for i, combo in enumerate(itertools.product((False, True), repeat=len(rest))):
        if va[i] != vb[i]:
            on = [a.replace("feature=", "") for a, c in zip(rest, combo) if c]
            return on, va[i], vb[i]
    return None
