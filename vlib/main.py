import importlib
import os
import sys
import traceback

sys.path.insert(0, os.path.dirname(os.path.dirname(os.path.abspath(__file__))))
from vlib.common import Ctx, ToolError, finish  # noqa: E402


def main():
    args = sys.argv[1:]
    if not args:
        print("usage: vcheck <C01..C20|setup|selftest> [--tier quick|thorough]")
        return 2
    prop = args[0]
    tier = os.environ.get("VERIF_TIER", "quick")
    if "--tier" in args:
        tier = args[args.index("--tier") + 1]
    seed = int(os.environ.get("VERIF_SEED", "0") or 0)
    if prop == "setup":
        from vlib import setup
        return setup.main()
    if prop == "selftest":
        from vlib import selftest
        return selftest.main(args[1:])
    try:
        mod = importlib.import_module("vlib.props." + prop.lower())
    except ModuleNotFoundError:
        print(f"no check for {prop}")
        return 2
    ctx = Ctx(prop, tier, seed)
    try:
        level, explanation, extra = mod.run(ctx)
    except ToolError as e:
        print(f"TOOL-ERROR {prop}: {e}")
        return 2
    except Exception:
        traceback.print_exc()
        print(f"TOOL-ERROR {prop}: internal error in checker")
        return 2
    return finish(ctx, level, explanation, extra)


if __name__ == "__main__":
    sys.exit(main())
