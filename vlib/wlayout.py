"""Wire layout of a *writer* function (write_into_vec & friends), extracted from typed HIR in evaluation order."""
import re

from . import hir as H
from .rlayout import Item
from .world import gpath, split_gpath

TO_BYTES = re.compile(r"^std::(?:num|f32)::<impl (\w+)>::to_(le|be)_bytes$")
WIDTH = {"u8": 1, "i8": 1, "u16": 2, "i16": 2, "u32": 4, "i32": 4, "f32": 4, "u64": 8, "i64": 8, "usize": 8}


def is_write_all(path):
    return path.endswith("::write_all")


class WriteExtractor:
    def __init__(self, g, crate, fn):
        self.g, self.crate, self.fn = g, crate, fn
        self.unknown = []
        self.asserts = []
        self.writer_names = set()
        for p, ty in zip(fn["params"], fn["inputs"]):
            if H.tag(p) == "bind" and (p[1] in ("w", "v") or "Write" in ty or ty in ("W",)):
                if p[1] != "self":
                    self.writer_names.add(p[1])
        self.zlib = False

    def unk(self, what, n):
        self.unknown.append(f"{what}: {H.short(n, maxlen=200)}")

    def run(self):
        body = H.unwrap_async(self.fn["hir"])
        return self.visit(body, {})

    def is_writer(self, n):
        n = H.strip_refs(n)
        return H.tag(n) == "local" and (n[1] in self.writer_names or n[1] in ("w", "encoder", "s"))

    # ---- value sources --------------------------------------------------------------------------
    def path_of(self, n, env):
        """access path of an expression: ('self','a','b') ; locals resolved through env aliases."""
        n = H.strip_refs(n)
        t = H.tag(n)
        if t == "local":
            if n[1] in env and isinstance(env[n[1]], tuple):
                return env[n[1]]
            if n[1] == "self":
                return ("self",)
            return None
        if t == "field":
            b = self.path_of(n[1], env)
            return b + (n[2],) if b is not None else None
        return None

    def source(self, n, env):
        """describe the value expression being serialised -> dict(path=..., ops=[...], ty=...)"""
        ops = []
        cur = n
        while True:
            cur = H.strip_refs(cur)
            t = H.tag(cur)
            if t == "cast":
                ops.append(("cast", cur[2], cur[3]))
                cur = cur[4]
                continue
            if t == "mcall":
                mc = H.mcall(cur)
                nm = mc["name"]
                if nm in ("as_int", "guid", "len", "as_secs", "as_millis", "size", "size_uncompressed", "clone") and not mc["args"]:
                    ops.append((nm, mc["path"], mc["recv_ty"].lstrip("&")))
                    cur = mc["recv"]
                    continue
                if nm in ("as_slice", "as_ref", "iter", "to_owned", "borrow") and not mc["args"]:
                    cur = mc["recv"]
                    continue
                return {"kind": "expr", "text": H.short(cur), "ops": ops}
            if t == "call":
                p = H.call_path(cur) or ""
                a = H.call_args(cur)
                if p == "std::convert::From::from" and len(a) == 1:
                    ga = H.call_gargs(cur)
                    ops.append(("from", ga[1] if len(ga) > 1 else "?", ga[0] if ga else "?"))
                    cur = a[0]
                    continue
                return {"kind": "expr", "text": H.short(cur), "ops": ops}
            if t == "bin":
                # (x.len() + 1) / (self.size() - k) / (x.as_int() >> 32) / k * x.len()
                op = cur[2]
                l, r = H.strip(cur[4]), H.strip(cur[5])
                lv, rv = H.lit_int(l), H.lit_int(r)
                if rv is not None and op in ("Add", "Sub", "Shr", "Mul"):
                    ops.append((op.lower(), rv))
                    cur = l
                    continue
                if lv is not None and op in ("Mul", "Add"):
                    ops.append((op.lower(), lv))
                    cur = r
                    continue
                return {"kind": "expr", "text": H.short(cur), "ops": ops}
            if t == "path":
                return {"kind": "const", "const": gpath(self.crate, cur[1]), "ops": ops}
            if t == "lit":
                return {"kind": "lit", "value": cur[2], "ops": ops}
            if t == "un" and cur[2] == "Deref":
                cur = cur[4]
                continue
            p = self.path_of(cur, env)
            if p is not None:
                return {"kind": "path", "path": p, "ops": ops}
            if t == "local" and cur[1] in env and isinstance(env[cur[1]], dict):
                d = dict(env[cur[1]])
                d["ops"] = ops + d.get("ops", [])
                return d
            return {"kind": "expr", "text": H.short(cur), "ops": ops}

    # ---- walk ---------------------------------------------------------------------------------------
    def visit_seq(self, nodes, env):
        out = []
        for n in nodes:
            out += self.visit(n, env)
        return out

    def visit(self, n, env):
        mac = None
        while H.tag(n) == "mac":
            mac = n[1]
            n = n[2]
        if mac in ("assert_ne", "assert_eq", "assert", "debug_assert", "debug_assert_eq"):
            self.asserts.append(mac)
            return []
        t = H.tag(n)
        if t is None:
            return []
        if t == "block":
            env2 = dict(env)
            out = []
            for st in n[1]:
                if st[0] == "let":
                    if st[2] is not None:
                        out += self.visit(st[2], env2)
                        pat = st[1]
                        if H.tag(pat) == "bind":
                            init = H.strip(st[2])
                            # let mut w = &mut ZlibEncoder::new(w, ..) shadows the writer
                            if any(H.tag(x) == "call" and "ZlibEncoder" in (H.call_path(x) or "") for x in H.walk(init)):
                                self.writer_names.add(pat[1])
                            else:
                                p = self.path_of(init, env2)
                                tb = TO_BYTES.match(H.mcall(init)["path"]) if H.is_mcall(init) else None
                                if tb:
                                    # let x = <value>.to_le_bytes(): the byte image of a value, written whole or in pieces (&x[a..b])
                                    env2[pat[1]] = {"kind": "byteimage", "ty": tb.group(1), "e": tb.group(2), "src": self.source(H.mcall(init)["recv"], env2)}
                                elif p is not None:
                                    env2[pat[1]] = p
                                else:
                                    env2[pat[1]] = self.source(init, env2)
                elif st[0] in ("semi", "expr"):
                    out += self.visit(st[1], env2)
            if n[2] is not None:
                out += self.visit(n[2], env2)
            return out
        if t in ("try", "await"):
            return self.visit(n[1], env)
        if t == "mcall":
            return self.visit_mcall(n, env)
        if t == "call":
            return self.visit_call(n, env)
        if t == "for":
            return self.visit_for(n, env)
        if t == "if":
            return self.visit_if(n, env)
        if t == "match":
            return self.visit_match(n, env)
        if t in ("while", "loop"):
            inner = self.visit(n[2], env)
            if inner:
                self.unk("writes inside while/loop", n)
            return inner
        if t in ("ref", "refmut"):
            return self.visit(n[1], env)
        if t in ("cast",):
            return self.visit(n[4], env)
        if t == "un":
            return self.visit(n[4], env)
        if t in ("bin", "asgop"):
            return self.visit(n[4], env) + self.visit(n[5], env)
        if t == "asg":
            return self.visit(n[2], env)
        if t == "field":
            return self.visit(n[1], env)
        if t in ("tup", "array"):
            return self.visit_seq(n[1], env)
        if t == "struct":
            return self.visit_seq([f[1] for f in n[2]], env)
        if t == "ret":
            return self.visit(n[1], env) if n[1] is not None else []
        if t == "closure":
            return self.visit(n[3], env)
        if t == "idx":
            return self.visit(n[3], env) + self.visit(n[4], env)
        return []

    def bytes_item(self, arg, env, span):
        """argument of write_all -> Item"""
        a = H.strip_refs(arg)
        # a let-bound byte image, whole (&x) or a piece of it (&x[a..b]): bytes a..b of the little-endian image are the integer
        # (value >> 8a) truncated to b-a bytes
        img, lo_, hi_ = None, None, None
        if H.tag(a) == "local" and isinstance(env.get(a[1]), dict) and env[a[1]].get("kind") == "byteimage":
            img = env[a[1]]
            lo_, hi_ = 0, WIDTH[img["ty"]]
        elif H.tag(a) == "idx" and H.tag(H.strip_refs(a[3])) == "local" and isinstance(env.get(H.strip_refs(a[3])[1]), dict) and env[H.strip_refs(a[3])[1]].get("kind") == "byteimage":
            img = env[H.strip_refs(a[3])[1]]
            r = H.strip(a[4])
            full = WIDTH[img["ty"]]
            if H.tag(r) == "struct" and r[1].split("<")[0].endswith(("::Range", "::RangeTo", "::RangeFrom")):
                f = {k: v for k, v in r[2]}
                lo_ = H.lit_int(f["start"]) if "start" in f else 0
                hi_ = H.lit_int(f["end"]) if "end" in f else full
            elif H.tag(r) == "call" and "RangeInclusive" in (H.call_path(r) or "") and len(H.call_args(r)) == 2:
                lo_ = H.lit_int(H.call_args(r)[0])
                hi_ = (H.lit_int(H.call_args(r)[1]) or -2) + 1
            if lo_ is None or hi_ is None or not (0 <= lo_ < hi_ <= full):
                img = None
        if img is not None and img["e"] == "le":
            src = dict(img["src"])
            ops = list(src.get("ops", []))
            if lo_ > 0:
                ops = [("shr", 8 * lo_)] + ops
            src["ops"] = ops
            w_ = hi_ - lo_
            ty_ = {1: "u8", 2: "u16", 4: "u32", 8: "u64"}.get(w_, img["ty"])
            return Item({"k": "float" if img["ty"].startswith("f") and w_ == WIDTH[img["ty"]] else "int", "w": w_, "e": "le", "signed": img["ty"].startswith("i") and hi_ == WIDTH[img["ty"]],
                         "ty": ty_, "src": src, "span": span})
        if img is not None and img["e"] == "be" and (lo_, hi_) == (0, WIDTH[img["ty"]]):
            return Item({"k": "float" if img["ty"].startswith("f") else "int", "w": hi_, "e": "be", "signed": img["ty"].startswith("i"), "ty": img["ty"], "src": dict(img["src"]), "span": span})
        # .as_slice()
        if H.is_mcall(a) and H.mcall(a)["name"] == "as_slice":
            a = H.strip_refs(H.mcall(a)["recv"])
        if H.is_mcall(a):
            mc = H.mcall(a)
            m = TO_BYTES.match(mc["path"])
            if m:
                ty, en = m.group(1), m.group(2)
                src = self.source(mc["recv"], env)
                return Item({"k": "float" if ty.startswith("f") else "int", "w": WIDTH[ty], "e": en, "signed": ty.startswith("i"), "ty": ty, "src": src, "span": span})
            if mc["name"] == "as_bytes" and "str" in mc["path"]:
                src = self.source(mc["recv"], env)
                return Item({"k": "strbytes", "src": src, "span": span})
            if mc["name"] == "octets":
                return Item({"k": "int", "w": 4, "e": "be", "signed": False, "ty": "u32", "src": self.source(mc["recv"], env), "span": span, "via": "octets"})
        if H.tag(a) == "array":
            vals = [H.lit_int(x) for x in a[1]]
            if all(v is not None for v in vals):
                return Item({"k": "constbytes", "bytes": vals, "span": span})
            if vals and vals[0] is None and all(v == 0 for v in vals[1:]) and len(vals) in (1, 2, 4, 8):
                # [x, 0, 0, 0]: the little-endian image of the byte x zero-extended to the array's width
                src = self.source(a[1][0], env)
                w_ = len(vals)
                return Item({"k": "int", "w": w_, "e": "le", "signed": False, "ty": {1: "u8", 2: "u16", 4: "u32", 8: "u64"}[w_], "src": src, "span": span})
        p = self.path_of(a, env)
        if p is not None:
            return Item({"k": "rawbytes", "src": {"kind": "path", "path": p, "ops": []}, "span": span})
        return Item({"k": "?", "raw": "write_all(" + H.short(arg, maxlen=120) + ")", "span": span})

    def visit_mcall(self, n, env):
        mc = H.mcall(n)
        if is_write_all(mc["path"]) and self.is_writer(mc["recv"]) and len(mc["args"]) == 1:
            it = self.bytes_item(mc["args"][0], env, mc["span"])
            it["writer"] = H.local_name(H.strip_refs(mc["recv"]))
            if self.zlib:
                it["in_zlib"] = True
            return [it]
        if mc["args"] and any(self.is_writer(a) for a in mc["args"]):
            # x.write_into_vec(&mut w)
            src = self.source(mc["recv"], env)
            it = Item({"k": "call", "fn": gpath(self.crate, mc["path"]), "src": src, "recv_ty": gpath(self.crate, mc["recv_ty"].replace("&mut ", "").lstrip("&")), "span": mc["span"]})
            it["writer"] = next(H.local_name(H.strip_refs(a)) for a in mc["args"] if self.is_writer(a))
            if self.zlib:
                it["in_zlib"] = True
            return [it]
        return self.visit(mc["recv"], env) + self.visit_seq(mc["args"], env)

    def visit_call(self, n, env):
        p = H.call_path(n)
        args = H.call_args(n)
        if p is None:
            return self.visit_seq(args, env)
        if "ZlibEncoder" in p:
            self.zlib = True
            return [Item({"k": "zlib-start", "ctor": p})]
        if args and any(self.is_writer(a) for a in args):
            others = [a for a in args if not self.is_writer(a)]
            src = self.source(others[0], env) if others else None
            aty = None
            F = self.g.f(self.crate)
            callee = F.fn(p)
            if callee is not None and callee["inputs"]:
                aty = gpath(self.crate, callee["inputs"][0].replace("&mut ", "").lstrip("&"))
            it = Item({"k": "call", "fn": gpath(self.crate, p), "src": src, "recv_ty": aty, "span": H.call_span(n)})
            it["writer"] = next(H.local_name(H.strip_refs(a)) for a in args if self.is_writer(a))
            if self.zlib:
                it["in_zlib"] = True
            return [it]
        return self.visit_seq(args, env)

    def visit_for(self, n, env):
        pat, it_expr, body = n[1], n[2], n[3]
        ie = H.strip(it_expr)
        env2 = dict(env)
        arr_path = None
        rty = None
        if H.is_mcall(ie) and H.mcall(ie)["name"] in ("iter", "iter_mut"):
            arr_path = self.path_of(H.mcall(ie)["recv"], env)
            rty = H.mcall(ie)["recv_ty_unadj"] or H.mcall(ie)["recv_ty"]
        # the desugared pattern is `Some(i)`
        if H.tag(pat) == "ps" and pat[1].endswith("::Some") and pat[2]:
            pat = pat[2][0][1]
        elif H.tag(pat) == "ts" and pat[1].endswith("::Some") and pat[2]:
            pat = pat[2][0]
        if H.tag(pat) == "bind" and arr_path is not None:
            env2[pat[1]] = arr_path + ("[]",)
        inner = self.visit(body, env2)
        if not inner:
            return []
        if arr_path is None:
            self.unk("for loop with writes over an unrecognised iterator", it_expr)
        m = re.search(r"; (\d+)\]$", (rty or ""))
        return [Item({"k": "array", "path": arr_path, "fixed": int(m.group(1)) if m else None, "elem": inner})]

    def visit_if(self, n, env):
        cond, then, els = H.strip(n[1]), n[2], n[3]
        if H.tag(cond) == "letexpr":
            pat, init = cond[1], cond[2]
            # if let Some(x) = &self.a.b  |  = &self.flags.get_x()
            inner_pat = pat
            if H.tag(inner_pat) == "ts" and inner_pat[1].endswith("::Some") and len(inner_pat[2]) == 1:
                b = inner_pat[2][0]
                i2 = H.strip_refs(init)
                via_get = None
                if H.is_mcall(i2) and H.mcall(i2)["name"].startswith("get_") and not H.mcall(i2)["args"]:
                    via_get = H.mcall(i2)["name"][4:]
                    base = self.path_of(H.mcall(i2)["recv"], env)
                    p = base + (via_get,) if base is not None else None
                else:
                    p = self.path_of(i2, env)
                env2 = dict(env)
                if H.tag(b) == "bind" and p is not None:
                    env2[b[1]] = p
                ti = self.visit(then, env2)
                ei = self.visit(els, env) if els is not None else []
                if not ti and not ei:
                    return []
                if p is None:
                    self.unk("if-let with writes on an unrecognised value", init)
                return [Item({"k": "iflet", "path": p, "then": ti, "else": ei})]
        ti = self.visit(then, env)
        ei = self.visit(els, env) if els is not None else []
        if ti or ei:
            return [Item({"k": "cond", "cond": H.short(cond, maxlen=120), "then": ti, "else": ei})]
        return []

    def visit_match(self, n, env):
        scrut = n[1]
        sp = self.path_of(scrut, env)
        arms = []
        total = 0
        for pat, guard, body in n[3]:
            env2 = dict(env)
            while H.tag(pat) in ("pref", "pderef"):
                pat = pat[1]
            key = None
            if H.tag(pat) == "ps":
                key = gpath(self.crate, pat[1])
                for fname, fp in pat[2]:
                    if H.tag(fp) == "bind" and sp is not None:
                        env2[fp[1]] = sp + (fname,)
            elif H.tag(pat) in ("ppath", "ts"):
                key = gpath(self.crate, pat[1])
            elif H.tag(pat) in ("wild", "bind"):
                key = "_"
            it = self.visit(body, env2)
            total += len(it)
            arms.append((key, it))
        if total == 0:
            return []
        if sp is None:
            self.unk("match with writes on an unrecognised scrutinee", scrut)
        return [Item({"k": "switch", "path": sp, "arms": arms, "scrut_ty": gpath(self.crate, n[2].replace("&mut ", "").lstrip("&"))})]
