"""Global view over the facts of all crates + pairing of wowm objects with Rust items."""
import re

from .facts import facts
from . import wowm

CRATES = ["wow_login_messages", "wow_world_base", "wow_world_messages", "wow_message_parser"]
_CRATE_RE = re.compile(r"\bcrate::")


def gpath(crate, path):
    """Make a def path / type string global: `crate::x` -> `<crate>::x`."""
    return _CRATE_RE.sub(crate + "::", path)


def split_gpath(g):
    for c in CRATES:
        if g.startswith(c + "::"):
            return c, "crate::" + g[len(c) + 2:]
    return None, g


class G:
    """Lookup by global path across crates."""

    def __init__(self, config="union"):
        self.config = config

    def f(self, crate):
        return facts(crate, self.config)

    def _lookup(self, kind, g):
        c, p = split_gpath(g)
        if c is None:
            return None
        r = self.f(c)._get(kind, p)
        return (c, r[0]) if r else None

    def adt(self, g):
        r = self._lookup("adt", g)
        return r[1] if r else None

    def fn(self, g):
        r = self._lookup("fn", g)
        return r[1] if r else None

    def const(self, g):
        r = self._lookup("const", g)
        return r[1] if r else None

    def mir(self, g):
        r = self._lookup("mir", g)
        return r[1] if r else None

    def namespace(self, crate, modpath):
        """name -> (global path, kind) for the children of a module."""
        r = self.f(crate)._get("mod", modpath)
        if not r:
            return None
        out = {}
        for name, p, kind, reexport, public in r[0]["children"]:
            # type namespace first: keep Struct/Enum over Ctor etc.
            if kind.startswith("Ctor"):
                continue
            key = (name, "value" if kind in ("Fn", "Const", "Static") or kind.startswith("AssocConst") else "type")
            out[key] = (gpath(crate, p), kind)
        return out


# scopes: (scope id, kind, crate holding the facade, module path, version)
WORLD_SCOPES = [
    ("vanilla", "wow_world_messages", "crate::world::vanilla", wowm.EXPANSIONS["vanilla"]),
    ("tbc", "wow_world_messages", "crate::world::tbc", wowm.EXPANSIONS["tbc"]),
    ("wrath", "wow_world_messages", "crate::world::wrath", wowm.EXPANSIONS["wrath"]),
]
BASE_SCOPES = [
    ("vanilla", "wow_world_base", "crate::inner::vanilla", wowm.EXPANSIONS["vanilla"]),
    ("tbc", "wow_world_base", "crate::inner::tbc", wowm.EXPANSIONS["tbc"]),
    ("wrath", "wow_world_base", "crate::inner::wrath", wowm.EXPANSIONS["wrath"]),
]
LOGIN_SCOPES = [(f"login{v}", "wow_login_messages", f"crate::logon::version_{v}", v) for v in wowm.LOGIN_VERSIONS]


def rust_type_name(name):
    return name


def enumerator_rust_name(name):
    """SCREAMING_SNAKE -> UpperCamel, as documented for generated enums (independent re-implementation)."""
    parts = [p for p in name.split("_") if p != ""]
    out = "".join(p[0].upper() + p[1:].lower() for p in parts)
    # identifiers that clash with Rust keywords / the TryFrom::Error associated type are escaped with an X
    if out in ("Self", "Error"):
        out += "X"
    return out


class Pairing:
    """Pairs every wowm object of every scope with the Rust item visible under the scope's facade module."""

    def __init__(self, g=None, model=None):
        self.g = g or G()
        self.model = model or wowm.Model()
        self.pairs = []  # dict(scope, obj, rust, kind)
        self.missing = []  # (scope, obj)
        self._build()

    def _build(self):
        m, g = self.model, self.g
        for scope, crate, mod, ver in WORLD_SCOPES:
            ns = g.namespace(crate, mod) or {}
            ns_base = g.namespace("wow_world_base", "crate::inner::" + scope) or {}
            for o in m.world_objects(scope):
                r = ns.get((o.name, "type")) or ns_base.get((o.name, "type"))
                if r is None:
                    self.missing.append((scope, o))
                else:
                    self.pairs.append({"scope": scope, "obj": o, "rust": r[0], "kind": r[1], "version": ver, "login": False})
        for scope, crate, mod, ver in LOGIN_SCOPES:
            ns = g.namespace(crate, mod) or {}
            ns_all = g.namespace(crate, "crate::logon::all") or {}
            for o in m.login_objects(ver):
                r = ns.get((o.name, "type")) or ns_all.get((o.name, "type"))
                if r is None:
                    self.missing.append((scope, o))
                else:
                    self.pairs.append({"scope": scope, "obj": o, "rust": r[0], "kind": r[1], "version": ver, "login": True})

    def of_kind(self, *kinds):
        for p in self.pairs:
            a = p["obj"].ast
            if a.kind in kinds:
                yield p
