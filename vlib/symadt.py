"""Symbolic evaluator for value-shuffling code over algebraic data types (typed HIR from rsfacts).

Domain: uninterpreted leaf symbols named by their access path in the input, struct / enum-variant / Option values with
symbolic fields, universally quantified vector elements, and small bit-set integers. Control flow that depends on the
shape of a symbolic input (which variant, Some/None, which optional members of a flag struct are present) is handled by
case splitting: the evaluator raises Need(key, options) and the driver re-runs it once per option, so every combination of
shapes the code distinguishes is explored and nothing is sampled.
"""
import re

from . import hir as H


class Shape(Exception):
    """construct outside the recognised idiom set (reported as 'shape not recognised — review')"""


class Need(Exception):
    def __init__(self, key, options):
        self.key = key
        self.options = options


class _Ret(Exception):
    def __init__(self, v):
        self.v = v


class Sym:
    __slots__ = ("path", "ty")

    def __init__(self, path, ty):
        self.path, self.ty = path, ty

    def __repr__(self):
        return f"<{self.path}>"


class Adt:
    __slots__ = ("ty", "variant", "fields")

    def __init__(self, ty, variant, fields):
        self.ty, self.variant, self.fields = ty, variant, fields

    def __repr__(self):
        nm = self.ty.split("::")[-1] + ("::" + self.variant if self.variant else "")
        if not self.fields:
            return nm
        return nm + "{" + ", ".join(f"{k}: {v!r}" for k, v in self.fields.items()) + "}"


class Vec:
    """a vector of any length whose elements are all the same symbolic element; `cut` records what was done to its length
    (None: as long as the vector it was made from; ('take', k): at most k elements of it; 'skip' / 'filter': some elements dropped)"""
    __slots__ = ("elem", "cut")

    def __init__(self, elem, cut=None):
        self.elem = elem
        self.cut = cut

    def __repr__(self):
        return f"[each: {self.elem!r}]" + (f" cut {self.cut}" if self.cut else "")


class Bits:
    """(base & keep) | mask   (base: None or a Sym; keep: None = all bits of the base are kept)"""
    __slots__ = ("base", "mask", "keep")

    def __init__(self, base, mask, keep=None):
        self.base, self.mask, self.keep = base, mask, keep

    def __repr__(self):
        b = ""
        if self.base is not None:
            b = f"{self.base!r}" if self.keep is None else f"({self.base!r} & {self.keep:#x})"
        if self.base is not None and self.mask:
            return f"{b} | {self.mask:#x}"
        return b if self.base is not None else hex(self.mask)


INT_BITS = {"u8": 8, "u16": 16, "u32": 32, "u64": 64, "i8": 8, "i16": 16, "i32": 32, "i64": 64, "usize": 64}


class Const:
    __slots__ = ("val",)

    def __init__(self, val):
        self.val = val

    def __repr__(self):
        return repr(self.val)


class Default:
    __slots__ = ("ty",)

    def __init__(self, ty):
        self.ty = ty

    def __repr__(self):
        return f"Default::<{self.ty.split('::')[-1]}>()"


class FnVal:
    __slots__ = ("path", "gargs")

    def __init__(self, path, gargs):
        self.path, self.gargs = path, gargs


class Closure:
    __slots__ = ("params", "body", "env")

    def __init__(self, params, body, env):
        self.params, self.body, self.env = params, body, env


class Env:
    def __init__(self, parent=None):
        self.vars = {}
        self.parent = parent

    def get(self, k):
        e = self
        while e is not None:
            if k in e.vars:
                return e.vars[k]
            e = e.parent
        raise Shape(f"unbound local `{k}`")

    def let(self, k, v):
        self.vars[k] = v

    def set(self, k, v):
        e = self
        while e is not None:
            if k in e.vars:
                e.vars[k] = v
                return
            e = e.parent
        raise Shape(f"assignment to unbound local `{k}`")


OPTION = "std::option::Option"
_GEN = re.compile(r"^([\w:]+)<(.*)>$")


def strip_ref(ty):
    ty = ty.strip()
    while ty.startswith("&"):
        ty = ty[1:].strip()
        if ty.startswith("mut "):
            ty = ty[4:].strip()
        if ty.startswith("'"):
            ty = ty.split(" ", 1)[1] if " " in ty else ty
    return ty


def generic(ty):
    m = _GEN.match(ty)
    if m:
        return m.group(1), m.group(2)
    return ty, None


class Interp:
    def __init__(self, F, decisions):
        self.F = F
        self.dec = decisions
        self.forced = {}
        self.depth = 0
        self.impl_index = None

    # ---- decisions / forcing ------------------------------------------------------------------------------
    def decide(self, key, options):
        if key not in self.dec:
            raise Need(key, list(options))
        return self.dec[key]

    def is_flag_struct(self, adt):
        if adt["kind"] != "Struct":
            return False
        fs = adt["variants"][0][2]
        names = [f[0] for f in fs]
        return len(fs) > 1 and names[0] == "inner" and all(generic(f[1])[0] == OPTION for f in fs[1:])

    def force(self, v):
        if not isinstance(v, Sym):
            return v
        if v.path in self.forced:
            return self.forced[v.path]
        ty = strip_ref(v.ty)
        head, arg = generic(ty)
        out = v
        if head == OPTION:
            which = self.decide((v.path, "option"), ["Some", "None"])
            out = Adt(OPTION, which, {"0": Sym(v.path + ".Some", arg)} if which == "Some" else {})
        elif head == "std::vec::Vec" and self.F.adt(strip_ref(arg)) is not None:
            out = Vec(Sym(v.path + "[*]", arg))
        else:
            adt = self.F.adt(ty)
            if adt is not None:
                if adt["kind"] == "Enum":
                    names = [x[0] for x in adt["variants"]]
                    which = self.decide((v.path, "variant"), names)
                    var = next(x for x in adt["variants"] if x[0] == which)
                    out = Adt(ty, which, {f[0]: Sym(f"{v.path}.{which}.{f[0]}", f[1]) for f in var[2]})
                elif self.is_flag_struct(adt):
                    out = self.canonical_flag_struct(v, ty, adt)
                elif adt["kind"] == "Struct":
                    out = Adt(ty, None, {f[0]: Sym(f"{v.path}.{f[0]}", f[1]) for f in adt["variants"][0][2]})
        self.forced[v.path] = out
        return out

    def canonical_flag_struct(self, v, ty, adt):
        """canonical value of a generated flag struct: T::empty() then set_<x>(member) for every member present;
        bits of enumerators without members stay symbolic."""
        fs = adt["variants"][0][2]
        cur = self.call_path(f"{ty}::empty", [], [])
        covered = 0
        flag_ty = None
        for fname, fty, _ in fs[1:]:
            setter = self.F.fn(f"{ty}::set_{fname}")
            if setter is None:
                raise Shape(f"{ty}: no set_{fname}")
            for x in H.walk(setter["hir"]):
                if H.tag(x) == "asgop" and x[2] in ("BitOr", "BitOrAssign"):
                    p = H.path_of(x[5])
                    if p:
                        c = self.F.const(p)
                        if c is not None and c.get("val") is not None:
                            covered |= int(c["val"])
                            flag_ty = p.rsplit("::", 1)[0]
            if self.decide((v.path, "has", fname), [True, False]):
                inner = generic(fty)[1]
                cur = self.call_path(f"{ty}::set_{fname}", [cur, Sym(f"{v.path}.{fname}", inner)], [])
        other = 0
        if flag_ty is not None:
            for p in self.F.paths("const"):
                if p.startswith(flag_ty + "::"):
                    c = self.F.const(p)
                    if c is not None and c.get("val") is not None and p.rsplit("::", 1)[1].isupper():
                        other |= int(c["val"]) & ~covered
        if other:
            inner = cur.fields["inner"]
            cur = Adt(cur.ty, cur.variant, dict(cur.fields, inner=Bits(Sym(v.path + ".inner&" + hex(other), "int"), inner.mask if isinstance(inner, Bits) else 0)))
        return cur

    # ---- calls ----------------------------------------------------------------------------------------------
    def build_impl_index(self):
        self.impl_index = {}
        for r in self.F.impls():
            if r.get("trait"):
                self.impl_index[(r["trait"], r["self_ty"])] = r["path"]

    def resolve(self, path, gargs):
        if self.F.fn(path) is not None and self.F.fn(path).get("hir") is not None:
            return path
        if "::" in path and gargs:
            trait, name = path.rsplit("::", 1)
            if self.impl_index is None:
                self.build_impl_index()
            ip = self.impl_index.get((trait, gargs[0]))
            if ip and self.F.fn(ip + "::" + name) is not None:
                return ip + "::" + name
        return None

    def call_path(self, path, args, gargs):
        real = self.resolve(path, gargs)
        if real is None:
            raise Shape(f"call to {path} (no body available)")
        r = self.F.fn(real)
        if self.depth > 12:
            raise Shape("call depth exceeded")
        env = Env()
        if len(r["params"]) != len(args):
            raise Shape(f"arity of {real}")
        for p, a in zip(r["params"], args):
            if not self.bind(p, a, env):
                raise Shape(f"parameter pattern of {real}")
        self.depth += 1
        try:
            return self.ev(r["hir"], env)
        except _Ret as e_:
            return e_.v
        finally:
            self.depth -= 1

    def apply(self, f, args):
        if isinstance(f, FnVal):
            return self.call_path(f.path, args, f.gargs)
        if isinstance(f, Closure):
            env = Env(f.env)
            for p, a in zip(f.params, args):
                if not self.bind(p, a, env):
                    raise Shape("closure parameter pattern")
            try:
                return self.ev(f.body, env)
            except _Ret as e_:
                return e_.v
        raise Shape(f"call of non-function value {f!r}")

    # ---- patterns ---------------------------------------------------------------------------------------------
    def bind(self, pat, val, env):
        """match `val` against `pat`; binds into env; returns True/False. May raise Need."""
        t = H.tag(pat)
        if t == "bind":
            if pat[5] is not None:
                if not self.bind(pat[5], val, env):
                    return False
            env.let(pat[1], val)
            return True
        if t == "wild":
            return True
        if t in ("pref", "pderef"):
            return self.bind(pat[1], val, env)
        if t == "por":
            for alt in pat[1]:
                e2 = Env(env)
                if self.bind(alt, val, e2):
                    env.vars.update(e2.vars)
                    return True
            return False
        if t == "ppath":
            val = self.force(val)
            if not isinstance(val, Adt):
                raise Shape(f"path pattern {pat[1]} against {val!r}")
            return val.variant == pat[1].split("::")[-1]
        if t in ("ps", "ts"):
            val = self.force(val)
            if not isinstance(val, Adt):
                raise Shape(f"struct pattern {pat[1]} against {val!r}")
            name = pat[1].split("::")[-1]
            if val.variant is not None and val.variant != name:
                return False
            if t == "ps":
                for fname, fp in pat[2]:
                    if fname not in val.fields:
                        raise Shape(f"pattern field {fname} missing in {val!r}")
                    if not self.bind(fp, val.fields[fname], env):
                        return False
            else:
                for i, fp in enumerate(pat[2]):
                    if str(i) not in val.fields:
                        raise Shape(f"tuple pattern field {i} missing in {val!r}")
                    if not self.bind(fp, val.fields[str(i)], env):
                        return False
            return True
        if t == "ptup":
            val = self.force(val)
            if isinstance(val, Adt) and val.ty == "(tuple)":
                return all(self.bind(fp, val.fields[str(i)], env) for i, fp in enumerate(pat[1]))
        raise Shape(f"pattern {t}")

    # ---- expressions --------------------------------------------------------------------------------------------
    def adt_of_literal(self, path, ty):
        ty = strip_ref(ty) if ty else None
        adt = self.F.adt(ty) if ty else None
        if adt is None:
            raise Shape(f"struct literal of unknown type {ty} ({path})")
        variant = path.split("::")[-1] if adt["kind"] == "Enum" else None
        return ty, variant

    def ev(self, n, env):
        n = H.strip(n)
        t = H.tag(n)
        if t == "local":
            return env.get(n[1])
        if t in ("ref", "refmut"):
            return self.ev(n[1], env)
        if t == "un":
            if n[2] == "Deref":
                return self.ev(n[4], env)
            v = self.ev(n[4], env)
            if n[2] == "Not" and isinstance(v, Bits) and v.base is None and strip_ref(n[3]) in INT_BITS:
                return Bits(None, ~v.mask & ((1 << INT_BITS[strip_ref(n[3])]) - 1))
            raise Shape(f"unary {n[2]}")
        if t == "lit":
            if n[1] == "int":
                return Bits(None, int(n[2]))
            return Const(n[2])
        if t == "cast":
            return self.ev(n[4], env)
        if t == "field":
            base = self.force(self.ev(n[1], env))
            if isinstance(base, Adt) and n[2] in base.fields:
                return base.fields[n[2]]
            raise Shape(f"field .{n[2]} of {base!r}")
        if t == "path" or t == "selfctor":
            kind = n[2] if t == "path" else ""
            p = n[1]
            if "Ctor(Variant, Const)" in kind:
                ty, var = p.rsplit("::", 1)
                return Adt(ty, var, {})
            if "Const" in kind:
                c = self.F.const(p)
                if c is not None and c.get("val") is not None:
                    return Bits(None, int(c["val"]))
                if c is not None and c.get("hir") is not None:
                    lit = H.strip(c["hir"])
                    if H.tag(lit) == "lit":
                        return Const(lit[2])  # a string / char / float constant: an opaque constant value
                raise Shape(f"constant {p} has no evaluated value")
            if "Fn" in kind:
                return FnVal(p, n[3])
            raise Shape(f"path {p} ({kind})")
        if t == "struct":
            ty, variant = self.adt_of_literal(n[1], n[4])
            fields = {}
            if n[3] is not None:
                base = self.force(self.ev(n[3], env))
                if not isinstance(base, Adt):
                    raise Shape("struct base expression")
                fields.update(base.fields)
            for fname, fv in n[2]:
                fields[fname] = self.ev(fv, env)
            return Adt(ty, variant, fields)
        if t == "tup":
            return Adt("(tuple)", None, {str(i): self.ev(x, env) for i, x in enumerate(n[1])})
        if t == "call":
            f = H.strip(n[2])
            if H.tag(f) == "path":
                p, kind, gargs = f[1], f[2], f[3]
                args = [self.ev(a, env) for a in n[3]]
                if "Ctor(Variant, Fn)" in kind or "Ctor(Struct, Fn)" in kind:
                    ty, var = p.rsplit("::", 1)
                    if "Struct" in kind:
                        ty, var = p, None
                    return Adt(ty, var, {str(i): a for i, a in enumerate(args)})
                if p == "std::default::Default::default":
                    return Default(strip_ref(n[4]))
                if p in ("std::vec::Vec::<T>::with_capacity", "std::vec::Vec::<T>::new"):
                    return Vec(None)  # no element yet
                if p in ("std::convert::From::from", "std::convert::Into::into") and len(args) == 1 and len(gargs) >= 2 and gargs[0] == gargs[1]:
                    return args[0]
                return self.call_path(p, args, gargs)
            return self.apply(self.ev(f, env), [self.ev(a, env) for a in n[3]])
        if t == "mcall":
            m = H.mcall(n)
            p = m["path"]
            recv = self.ev(m["recv"], env)
            name = p.split("::")[-1]
            if p in ("std::clone::Clone::clone", "std::borrow::ToOwned::to_owned", "std::string::ToString::to_string", "std::string::String::as_str", "std::string::String::as_mut_str") or p.startswith("std::option::Option::<T>::as_ref") \
                    or p in ("std::option::Option::<T>::as_deref", "std::option::Option::<&T>::cloned", "std::option::Option::<&T>::copied",
                             "std::convert::AsRef::as_ref", "std::borrow::Borrow::borrow"):
                return recv
            if p in ("std::iter::traits::collect::IntoIterator::into_iter", "std::slice::<impl [T]>::iter", "std::iter::traits::iterator::Iterator::collect",
                     "std::iter::traits::iterator::Iterator::cloned", "std::iter::traits::iterator::Iterator::copied", "std::slice::<impl [T]>::to_vec",
                     "std::vec::Vec::<T, A>::as_slice", "std::ops::Deref::deref"):
                recv = self.force(recv)
                return recv
            if p in ("std::option::Option::<T>::is_some", "std::option::Option::<T>::is_none"):
                # decided by which variant the (possibly still symbolic) option is - the same decision a `match` on it takes
                ov = self.force(recv)
                if isinstance(ov, Adt) and ov.ty == OPTION:
                    return Const((ov.variant == "Some") == p.endswith("is_some"))
                raise Shape(f"{name} of {ov!r}")
            if p in ("std::vec::Vec::<T, A>::len", "std::slice::<impl [T]>::len"):
                return Sym(("len",), "usize")
            if p == "std::vec::Vec::<T, A>::push":
                cur = self.force(recv)
                val = self.ev(m["args"][0], env)
                if isinstance(cur, Vec):
                    if cur.elem is None:
                        self.assign(H.strip_refs(m["recv"]), Vec(val), env)
                        return Adt("()", None, {})
                    if self.same(cur.elem, val) is None:
                        return Adt("()", None, {})
                raise Shape("push of differing elements into a vector")
            if p == "std::iter::traits::iterator::Iterator::map":
                recv = self.force(recv)
                f = self.ev(m["args"][0], env)
                if isinstance(recv, Vec):
                    return Vec(self.apply(f, [recv.elem]), recv.cut)
                raise Shape(f"map over {recv!r}")
            if p in ("std::iter::traits::iterator::Iterator::take", "std::iter::traits::iterator::Iterator::skip", "std::iter::traits::iterator::Iterator::step_by"):
                recv = self.force(recv)
                k = self.ev(m["args"][0], env)
                kv = k.val if isinstance(k, Const) else (k if isinstance(k, int) else None)
                if isinstance(recv, Vec):
                    if name == "take" and isinstance(kv, int):
                        cut = ("take", min(kv, recv.cut[1]) if isinstance(recv.cut, tuple) else kv) if recv.cut is None or isinstance(recv.cut, tuple) else recv.cut
                        return Vec(recv.elem, cut)
                    if name == "skip" and kv == 0 or name == "step_by" and kv == 1:
                        return recv
                    return Vec(recv.elem, name)
                raise Shape(f"{name} over {recv!r}")
            if p == "std::option::Option::<T>::map":
                recv = self.force(recv)
                f = self.ev(m["args"][0], env)
                if isinstance(recv, Adt) and recv.ty == OPTION:
                    if recv.variant == "None":
                        return recv
                    return Adt(OPTION, "Some", {"0": self.apply(f, [recv.fields["0"]])})
                raise Shape(f"Option::map over {recv!r}")
            if p in ("std::convert::Into::into", "std::convert::From::from") and len(m["gargs"]) >= 2 and m["gargs"][0] == m["gargs"][1]:
                return recv
            if name == "reverse_bits" and isinstance(recv, Bits) and recv.base is None and strip_ref(m["recv_ty"]) in INT_BITS:
                w = INT_BITS[strip_ref(m["recv_ty"])]
                return Bits(None, int(format(recv.mask & ((1 << w) - 1), f"0{w}b")[::-1], 2))
            args = [recv] + [self.ev(a, env) for a in m["args"]]
            gargs = m["gargs"] or []
            if not gargs or self.F.adt(strip_ref(gargs[0])) is None:
                gargs = [strip_ref(m["recv_ty"])] + list(gargs)
            return self.call_path(p, args, gargs)
        if t == "closure":
            return Closure(n[2], n[3], env)
        if t == "block":
            e2 = Env(env)
            for st in n[1]:
                self.stmt(st, e2)
            if n[2] is None:
                return Adt("()", None, {})
            return self.ev(n[2], e2)
        if t == "match":
            scrut = self.ev(n[1], env)
            for pat, guard, body in n[3]:
                if guard is not None:
                    raise Shape("match guard")
                e2 = Env(env)
                if self.bind(pat, scrut, e2):
                    return self.ev(body, e2)
            raise Shape(f"no match arm covers {self.force(scrut)!r}")
        if t == "if":
            c = H.strip(n[1])
            if H.tag(c) == "letexpr":
                e2 = Env(env)
                if self.bind(c[1], self.ev(c[2], env), e2):
                    return self.ev(n[2], e2)
                if n[3] is None:
                    return Adt("()", None, {})
                return self.ev(n[3], env)
            # a condition on symbolic values (`if name.eq_ignore_ascii_case("Patch")`): both outcomes are explored; the round trip must be the
            # identity under either, so the condition itself need not be evaluated (its subexpressions have no effects in conversion code)
            taken = None
            try:
                cv = self.ev(c, env)
                if isinstance(cv, Const) and isinstance(cv.val, bool):
                    taken = cv.val  # decided by what is already known (`x.is_some()` of an option whose variant is fixed)
            except Shape:
                taken = None
            if taken is None:
                taken = self.decide(("if", n[1][1] if isinstance(n[1], list) and len(n[1]) > 1 and isinstance(n[1][1], str) else H.short(n[1], maxlen=60)), [True, False])
            if taken:
                return self.ev(n[2], env)
            if n[3] is None:
                return Adt("()", None, {})
            return self.ev(n[3], env)
        if t == "try":
            return self.ev(n[1], env)
        if t == "ret":
            raise _Ret(self.ev(n[1], env) if len(n) > 1 and n[1] is not None else Adt("()", None, {}))
        if t == "for":
            # a loop over a vector whose elements are all the same symbolic element: the body is evaluated once for that element;
            # a vector filled by `push` in the body then holds the pushed value for every element
            src = self.force(self.ev(n[2], env))
            if isinstance(src, Vec):
                if src.elem is None:
                    return Adt("()", None, {})
                e2 = Env(env)
                fp = n[1]
                if H.tag(fp) == "ts" and fp[1].endswith("::Some") and len(fp[2]) == 1:
                    fp = fp[2][0]  # the dump keeps the `Some(pat)` arm of the desugared loop
                elif H.tag(fp) == "ps" and fp[1].endswith("::Some") and len(fp[2]) == 1:
                    fp = fp[2][0][1]
                if not self.bind(fp, src.elem, e2):
                    raise Shape("for pattern")
                self.ev(n[3], e2)
                return Adt("()", None, {})
            raise Shape(f"for loop over {src!r}")
        raise Shape(f"expression `{t}`: {H.short(n, maxlen=100)}")

    def stmt(self, st, env):
        k = st[0]
        if k == "let":
            if st[3] is not None:
                raise Shape("let-else")
            if st[2] is None:
                raise Shape("let without initialiser")
            if not self.bind(st[1], self.ev(st[2], env), env):
                raise Shape("refutable let pattern")
            return
        if k == "item":
            return
        if k in ("semi", "expr"):
            e = H.strip(st[1])
            te = H.tag(e)
            if te == "asg":
                self.assign(e[1], self.ev(e[2], env), env)
                return
            if te == "asgop":
                if e[2] not in ("BitOr", "BitOrAssign", "BitAnd", "BitAndAssign"):
                    raise Shape(f"compound assignment {e[2]}")
                cur = self.ev(e[4], env)
                rhs = self.ev(e[5], env)
                if isinstance(cur, Sym) and e[3] in INT_BITS:
                    cur = Bits(cur, 0)
                if not (isinstance(cur, Bits) and isinstance(rhs, Bits) and rhs.base is None):
                    raise Shape(f"{e[2]} on {cur!r}, {rhs!r}")
                if e[2].startswith("BitOr"):
                    new = Bits(cur.base, cur.mask | rhs.mask, cur.keep)
                else:
                    full = (1 << INT_BITS.get(e[3], 64)) - 1
                    keep = (full if cur.keep is None else cur.keep) & rhs.mask
                    new = Bits(cur.base, cur.mask & rhs.mask, None if (cur.base is None or keep == full) else keep)
                self.assign(e[4], new, env)
                return
            self.ev(e, env)
            return
        raise Shape(f"statement {k}")

    def assign(self, target, val, env):
        target = H.strip(target)
        if H.tag(target) == "local":
            env.set(target[1], val)
            return
        fc = H.field_chain(target)
        if fc is None:
            raise Shape(f"assignment target {H.short(target)}")
        root, fields = fc

        def upd(v, fs):
            v = self.force(v)
            if not isinstance(v, Adt) or fs[0] not in v.fields:
                raise Shape(f"assignment into {v!r}.{fs[0]}")
            nf = dict(v.fields)
            nf[fs[0]] = val if len(fs) == 1 else upd(v.fields[fs[0]], fs[1:])
            return Adt(v.ty, v.variant, nf)

        env.set(root, upd(env.get(root), fields))

    # ---- equality ---------------------------------------------------------------------------------------------------
    def same(self, a, b, where="value"):
        """structural identity; returns None when equal, else a description of the first difference"""
        if isinstance(a, Sym) and isinstance(b, Sym):
            if a.path == b.path:
                return None
        a2, b2 = self.force(a), self.force(b)
        for x, y in ((a2, b2), (b2, a2)):
            if isinstance(x, Bits) and isinstance(y, Sym) and x.base is not None and x.base.path == y.path and x.mask == 0 and x.keep is None:
                return None
        if isinstance(a2, Sym) or isinstance(b2, Sym):
            if isinstance(a2, Sym) and isinstance(b2, Sym) and a2.path == b2.path:
                return None
            return f"{where}: got {a2!r}, original is {b2!r}"
        if type(a2) is not type(b2):
            return f"{where}: got {a2!r}, original is {b2!r}"
        if isinstance(a2, Adt):
            if a2.ty != b2.ty or a2.variant != b2.variant:
                return f"{where}: got {a2.ty.split('::')[-1]}::{a2.variant}, original is {b2.ty.split('::')[-1]}::{b2.variant}"
            if set(a2.fields) != set(b2.fields):
                return f"{where}: field sets differ"
            for k in b2.fields:
                d = self.same(a2.fields[k], b2.fields[k], f"{where}.{k}")
                if d:
                    return d
            return None
        if isinstance(a2, Vec):
            if a2.cut != b2.cut:
                what = f"only the first {a2.cut[1]} elements are kept" if isinstance(a2.cut, tuple) and a2.cut[0] == "take" else f"elements are dropped ({a2.cut})"
                return f"{where}: the vector does not keep its length: {what} (a longer vector does not survive)"
            return self.same(a2.elem, b2.elem, where + "[*]")
        if isinstance(a2, Bits):
            if a2.mask == b2.mask and ((a2.base is None and b2.base is None) or (a2.base is not None and b2.base is not None and a2.base.path == b2.base.path and a2.keep == b2.keep)):
                return None
            return f"{where}: got bits {a2!r}, original has {b2!r}"
        if isinstance(a2, Const):
            return None if a2.val == b2.val else f"{where}: got {a2!r}, original is {b2!r}"
        if isinstance(a2, Default):
            return None if a2.ty == b2.ty else f"{where}: defaults of different types"
        return f"{where}: incomparable {a2!r} / {b2!r}"


def explore(F, run, limit=20000):
    """Run `run(interp)` for every combination of shape decisions it asks for. Returns list of (decisions, result)."""
    stack = [{}]
    out = []
    while stack:
        d = stack.pop()
        it = Interp(F, d)
        try:
            out.append((d, run(it)))
        except Need as nd:
            for o in nd.options:
                d2 = dict(d)
                d2[nd.key] = o
                stack.append(d2)
        if len(out) + len(stack) > limit:
            raise Shape("case explosion")
    return out
