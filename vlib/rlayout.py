"""Wire layout of a generated/hand-written *reader* function, extracted by a walk of its typed HIR in evaluation
order (effect extraction): the sequence of transport reads with their control structure and value conversions."""
import re

from . import hir as H
from .prims import is_read_exact, unwrap
from .world import gpath

_RESULT = re.compile(r"^std::result::Result<(.*), ([^,<>]*(?:<.*>)?)>$")


def result_ok_type(out):
    """Result<T, E> / impl Future<Output = Result<T, E>> -> T"""
    s = out
    m = re.match(r"^impl std::future::(?:future::)?Future<Output = (.*)>$", s)
    if m:
        s = m.group(1)
    if not s.startswith("std::result::Result<"):
        return None
    inner = s[len("std::result::Result<"):-1]
    depth = 0
    for i, ch in enumerate(inner):
        if ch == "<":
            depth += 1
        elif ch == ">":
            depth -= 1
        elif ch == "," and depth == 0:
            return inner[:i]
    return None


class Item(dict):
    """A layout item; identity matters (locals refer to items)."""
    __hash__ = object.__hash__

    def __eq__(self, other):
        return self is other


class ReadExtractor:
    def __init__(self, g, crate, leaves, fn):
        self.g, self.crate, self.leaves, self.fn = g, crate, leaves, fn
        self.unknown = []  # unrecognised shapes
        self.guards = []  # size guards etc.
        self.alloc_guards = []
        self.panics = []
        self.reader_names = set()
        self.body_size_name = None
        for p, ty in zip(fn["params"], fn["inputs"]):
            if H.tag(p) == "bind":
                if p[1] in ("r",) or "Read" in ty or ty in ("R", "&mut R", "&mut &[u8]"):
                    self.reader_names.add(p[1])
                if ty == "u32" and p[1] == "body_size":
                    self.body_size_name = p[1]
        self.zlib = False

    # ------------------------------------------------------------------
    def run(self):
        body = H.unwrap_async(self.fn["hir"])
        items, val = self.visit(body, {})
        return items

    def unk(self, what, n):
        self.unknown.append(f"{what}: {H.short(n, maxlen=200)}")

    def is_reader(self, n):
        n = H.strip_refs(n)
        return H.tag(n) == "local" and (n[1] in self.reader_names or n[1] in ("r", "decoder"))

    # ------------------------------------------------------------------
    def visit_seq(self, nodes, env):
        items = []
        for n in nodes:
            it, _ = self.visit(n, env)
            items += it
        return items

    def conv(self, val, c):
        if val is not None:
            val.setdefault("conv", []).append(c)

    def visit(self, n, env):
        """-> (items, value item or None)"""
        mac = None
        while H.tag(n) == "mac":
            mac = n[1]
            n = n[2]
        t = H.tag(n)
        if t is None:
            return [], None
        if mac in ("panic", "unreachable", "todo", "unimplemented"):
            self.panics.append(mac)
            return [], None
        if mac == "vec":
            # vec![x; n] : no transport effect; arguments may reference items
            return [], None
        if t == "block":
            env2 = dict(env)
            items = []
            val = None
            for st in n[1]:
                k = st[0]
                if k == "let":
                    it, v = self.visit(st[2], env2) if st[2] is not None else ([], None)
                    items += it
                    pat = st[1]
                    if H.tag(pat) == "bind":
                        env2[pat[1]] = v
                        if v is not None and "bind" not in v:
                            v["bind"] = pat[1]
                        # remember array/vec typed locals for read_exact
                        env2["#ty:" + pat[1]] = pat[4]
                        if st[2] is not None:
                            env2["#init:" + pat[1]] = st[2]
                    if st[3] is not None:
                        self.unk("let-else", st[3])
                elif k in ("semi", "expr"):
                    it, _ = self.visit(st[1], env2)
                    items += it
                elif k == "item":
                    pass
            if n[2] is not None:
                it, val = self.visit(n[2], env2)
                items += it
            # propagate shadowing of the reader (let mut r = &buf[..])
            return items, val
        if t in ("try", "await"):
            return self.visit(n[1], env)
        if t == "local":
            return [], env.get(n[1])
        if t in ("lit", "path", "selfctor", "continue", "constblock"):
            return [], None
        if t == "cast":
            it, v = self.visit(n[4], env)
            if v is not None:
                self.conv(v, ("cast", n[2], n[3]))
            return it, v
        if t in ("ref", "refmut"):
            return self.visit(n[1], env)
        if t == "un":
            it, v = self.visit(n[4], env)
            return it, (v if n[2] == "Deref" else None)
        if t == "field":
            it, _ = self.visit(n[1], env)
            return it, None
        if t in ("bin", "asgop"):
            a, _ = self.visit(n[4], env)
            b, _ = self.visit(n[5], env)
            return a + b, None
        if t == "asg":
            b, v = self.visit(n[2], env)
            a, _ = self.visit(n[1], env)
            # assignment to a pre-declared local (separate if statements): remember the value
            ln = H.local_name(n[1])
            if ln and v is not None:
                env[ln] = v
                if "bind" not in v:
                    v["bind"] = ln
            return b + a, None
        if t == "idx":
            a, _ = self.visit(n[3], env)
            b, _ = self.visit(n[4], env)
            return a + b, None
        if t in ("tup", "array"):
            return self.visit_seq(n[1], env), None
        if t == "repeat":
            return self.visit(n[2], env)[0], None
        if t == "struct":
            items = []
            for fname, fe in n[2]:
                it, _ = self.visit(fe, env)
                items += it
            if n[3] is not None:
                items += self.visit(n[3], env)[0]
            return items, None
        if t == "closure":
            it, _ = self.visit(n[3], env)
            return it, None
        if t == "ret":
            if n[1] is not None:
                it, _ = self.visit(n[1], env)
                return it, None
            return [], None
        if t == "break":
            return [], None
        if t == "letexpr":
            return self.visit(n[2], env)[0], None
        if t == "call":
            return self.visit_call(n, env)
        if t == "mcall":
            return self.visit_mcall(n, env)
        if t == "if":
            return self.visit_if(n, env)
        if t == "match":
            return self.visit_match(n, env)
        if t == "for":
            return self.visit_for(n, env)
        if t == "while":
            return self.visit_while(n, env)
        if t == "loop":
            it, _ = self.visit(n[2], env)
            if it:
                self.unk("reads inside bare loop", n)
            return it, None
        self.unk("expression kind " + t, n)
        return [], None

    # ------------------------------------------------------------------
    def visit_call(self, n, env):
        p = H.call_path(n)
        args = H.call_args(n)
        if p is None:
            items = self.visit(n[2], env)[0] + self.visit_seq(args, env)
            return items, None
        gp = gpath(self.crate, p)
        leaf = self.leaves.leaf(gp)
        if leaf is not None:
            if not args or not self.is_reader(args[0]):
                self.unk("leaf reader not applied to the transport", n)
            it = Item(leaf)
            it["fn"] = gp
            it["span"] = H.call_span(n)
            extra = []
            if leaf["k"] in ("fixedstr", "sizedbody") and len(args) == 2:
                ei, ev_ = self.visit(args[1], env)
                extra = ei
                it["len_from"] = ev_
                if ev_ is not None:
                    it["len_conv"] = list(ev_.get("conv", []))
            if self.zlib:
                it["in_zlib"] = True
            return extra + [it], it
        last = p.split("::")[-1]
        if last in ("Ok", "Some", "Err") and ("result::Result" in p or "option::Option" in p or "prelude" in p):
            items = []
            v = None
            for a in args:
                it, v = self.visit(a, env)
                items += it
            return items, (v if last in ("Ok", "Some") else None)
        if p == "std::convert::TryFrom::try_from" and len(args) == 1:
            it, v = self.visit(args[0], env)
            ga = H.call_gargs(n)
            if v is not None:
                self.conv(v, ("try_from", ga[1] if len(ga) > 1 else "?", gpath(self.crate, ga[0]) if ga else "?"))
            return it, v
        if p == "std::convert::From::from" and len(args) == 1:
            it, v = self.visit(args[0], env)
            ga = H.call_gargs(n)
            if v is not None:
                self.conv(v, ("from", ga[1] if len(ga) > 1 else "?", gpath(self.crate, ga[0]) if ga else "?"))
            return it, v
        if last == "from_int" and len(args) == 1 and p.count("::") >= 2:
            # generated `Enum::from_int(base)`: the same fallible table lookup as TryFrom<base> (its table is decided by C11)
            it, v = self.visit(args[0], env)
            if v is not None:
                self.conv(v, ("from_int", gpath(self.crate, p.rsplit("::", 1)[0])))
            return it, v
        if p.endswith("::from_utf8") and len(args) == 1:
            it, v = self.visit(args[0], env)
            if v is not None:
                self.conv(v, ("utf8",))
            return it, v
        if p.startswith("std::time::Duration::from_") and len(args) == 1:
            it, v = self.visit(args[0], env)
            if v is not None:
                self.conv(v, ("duration", p.split("::")[-1]))
            return it, v
        if "ZlibDecoder" in p:
            items = self.visit_seq(args, env)
            z = Item({"k": "zlib-start", "ctor": p})
            self.zlib = True
            return items + [z], None
        if p.endswith("::with_capacity") or p.endswith("::from_elem"):
            # allocation sized by an expression: record provenance for C03
            items = self.visit_seq(args, env)
            return items, None
        # wrapper constructors T::new(x) on a single read value
        if last == "new" and len(args) == 1:
            it, v = self.visit(args[0], env)
            if v is not None:
                self.conv(v, ("new", gpath(self.crate, p.rsplit("::", 1)[0])))
                return it, v
            # u48 flag: T::new(lo | (hi << 32)) in any spelling (casts or u64::from, | or +, either operand order): two integers read one
            # after the other, the second shifted left by the width of the first
            refs = []
            for l in H.walk(args[0]):
                if H.tag(l) == "local":
                    x = env.get(H.local_name(l))
                    if x is not None and not any(x is y for y in refs):
                        refs.append(x)
            if len(refs) == 2 and refs[0].get("k") == "int" and refs[1].get("k") == "int":
                e = H.strip(args[0])

                def uses(node):
                    return [x for x in (env.get(H.local_name(l)) for l in H.walk(node) if H.tag(l) == "local") if x is not None]
                ok = False
                if H.tag(e) == "bin" and e[2] in ("BitOr", "Add", "BitXor"):
                    for hi_side, lo_side in ((H.strip(e[5]), H.strip(e[4])), (H.strip(e[4]), H.strip(e[5]))):
                        while H.tag(hi_side) == "cast":
                            hi_side = H.strip(hi_side[4])
                        if H.tag(hi_side) == "bin" and hi_side[2] == "Shl":
                            hu, lu = uses(hi_side[4]), uses(lo_side)
                            if len(hu) == 1 and len(lu) == 1 and hu[0] is not lu[0] and H.lit_int(H.strip(hi_side[5])) == 8 * lu[0]["leaf"][1]:
                                a, b = lu[0], hu[0]
                                ok = True
                                break
                if ok:
                    a["merged_hi"] = b
                    b["merged_into"] = a
                    self.conv(a, ("new", gpath(self.crate, p.rsplit("::", 1)[0])))
                    return it, a
            return it, None
        # reader-taking call = struct / builtin read
        if args and any(self.is_reader(a) for a in args):
            F = self.g.f(self.crate)
            callee = F.fn(p)
            out = None
            if callee is not None:
                out = result_ok_type(callee["output"])
            else:
                ety = H.strip(n)[4]
                out = result_ok_type(ety) if ety else None
            it = Item({"k": "call", "fn": gp, "ty": gpath(self.crate, out) if out else None, "span": H.call_span(n)})
            if self.zlib:
                it["in_zlib"] = True
            pre = []
            for a in args:
                if not self.is_reader(a):
                    pre += self.visit(a, env)[0]
            return pre + [it], it
        return self.visit_seq(args, env), None

    def visit_mcall(self, n, env):
        mc = H.mcall(n)
        name, path = mc["name"], mc["path"]
        if path == "std::convert::TryInto::try_into" and not mc["args"]:
            it, v = self.visit(mc["recv"], env)
            if v is not None:
                self.conv(v, ("try_into", mc["gargs"][0], gpath(self.crate, mc["gargs"][1])))
            return it, v
        if path == "std::convert::Into::into" and not mc["args"]:
            it, v = self.visit(mc["recv"], env)
            if v is not None:
                self.conv(v, ("into", mc["gargs"][0], gpath(self.crate, mc["gargs"][1])))
            return it, v
        if is_read_exact(path) and self.is_reader(mc["recv"]) and len(mc["args"]) == 1:
            buf = H.strip_refs(mc["args"][0])
            bn = H.local_name(buf)
            ty = env.get("#ty:" + bn) if bn else None
            it = Item({"k": "bytes", "span": mc["span"]})
            if ty and ty.startswith("[u8; "):
                it["n"] = int(ty[5:-1])
            else:
                it["n"] = None
                init = env.get("#init:" + bn) if bn else None
                it["len_expr"] = H.short(init) if init is not None else None
                if init is not None:
                    refs = [env.get(H.local_name(l)) for l in H.walk(init) if H.tag(l) == "local"]
                    it["len_from"] = next((r for r in refs if r is not None), None)
            if self.zlib:
                it["in_zlib"] = True
            return [it], it
        if name == "read_to_end":
            items = self.visit_seq(mc["args"], env)
            return items, None
        if name in ("unwrap", "expect") and ("Result" in path or "Option" in path):
            it, v = self.visit(mc["recv"], env)
            return it, v
        it, v = self.visit(mc["recv"], env)
        items = it + self.visit_seq(mc["args"], env)
        if name in ("clone", "to_owned", "as_ref", "borrow"):
            return items, v
        return items, None

    # ------------------------------------------------------------------
    def cond_kind(self, c, env):
        c = H.strip(c)
        # flag test: var.is_x()
        if H.is_mcall(c):
            mc = H.mcall(c)
            r = H.strip_refs(mc["recv"])
            if mc["name"].startswith("is_") and not mc["args"] and H.tag(r) == "local" and env.get(r[1]) is not None:
                return ("flag", env[r[1]], mc["name"][3:], mc["path"])
        # optional: current_size < body_size as usize
        if H.tag(c) == "bin" and c[2] == "Lt":
            a, b = H.strip(c[4]), H.strip(c[5])
            bb = b
            while H.tag(bb) == "cast":
                bb = H.strip(bb[4])
            if H.local_name(a) == "current_size" and H.local_name(bb) == self.body_size_name and self.body_size_name:
                return ("optional",)
        return None

    def is_err_return(self, blk):
        for x in H.walk(blk):
            if H.tag(x) == "ret":
                return True
        return False

    def visit_if(self, n, env):
        cond, then, els = n[1], n[2], n[3]
        ck = self.cond_kind(cond, env)
        if ck and ck[0] == "flag":
            var = ck[1]
            arms = []
            cur = n
            else_items = []
            while True:
                ck2 = self.cond_kind(cur[1], env)
                if not ck2 or ck2[0] != "flag" or ck2[1] is not var:
                    self.unk("flag else-if on a different condition", cur[1])
                    break
                it, _ = self.visit(cur[2], env)
                arms.append((ck2[2], it))
                e = cur[3]
                if e is None:
                    break
                e2 = H.strip(e)
                if H.tag(e2) == "if":
                    cur = e2
                    continue
                else_items, _ = self.visit(e, env)
                break
            item = Item({"k": "flagif", "var": var, "arms": arms, "else": else_items})
            return [item], None
        if ck and ck[0] == "optional":
            it, _ = self.visit(then, env)
            ei = self.visit(els, env)[0] if els is not None else []
            if ei:
                self.unk("optional else branch reads", els)
            return [Item({"k": "optional", "items": it})], None
        # guards: condition over body_size / allocation size, then-branch returns Err
        ci, _ = self.visit(cond, env)
        if self.is_err_return(then) and not self.visit(then, dict(env))[0]:
            self.guards.append(cond)
            ei = self.visit(els, env)[0] if els is not None else []
            return ci + ei, None
        ti, _ = self.visit(then, env)
        ei = self.visit(els, env)[0] if els is not None else []
        if ti or ei:
            # data-dependent reads under an unrecognised condition
            item = Item({"k": "cond", "cond": H.short(cond, maxlen=120), "cond_hir": cond, "then": ti, "else": ei,
                         "cond_refs": [env.get(H.local_name(l)) for l in H.walk(cond) if H.tag(l) == "local" and env.get(H.local_name(l)) is not None]})
            return ci + [item], None
        return ci, None

    def visit_match(self, n, env):
        scrut = H.strip_refs(n[1])
        sv = env.get(H.local_name(scrut)) if H.tag(scrut) == "local" else None
        si = []
        if sv is None:
            si, sv2 = self.visit(n[1], env)
            sv = sv2
        arms = []
        total = 0
        for pat, guard, body in n[3]:
            it, _ = self.visit(body, dict(env))
            total += len(it)
            arms.append((pat, guard, it))
        if total == 0:
            return si, None
        if sv is None:
            self.unk("match with reads on a value that is not a read field", n[1])
            return si + [x for a in arms for x in a[2]], None
        table = []
        for pat, guard, it in arms:
            while H.tag(pat) in ("pref", "pderef"):
                pat = pat[1]
            if guard is not None:
                self.unk("guarded match arm", guard)
            if H.tag(pat) in ("ppath", "ps", "ts"):
                table.append((gpath(self.crate, pat[1]), it))
            elif H.tag(pat) == "por":
                for q in pat[1]:
                    table.append((gpath(self.crate, q[1]) if H.tag(q) in ("ppath", "ps", "ts") else "?", it))
            elif H.tag(pat) in ("wild", "bind"):
                table.append(("_", it))
            elif H.tag(pat) == "lit":
                table.append((("lit", pat[2]), it))
            else:
                self.unk("match pattern", pat)
        return si + [Item({"k": "switch", "var": sv, "arms": table})], None

    def visit_for(self, n, env):
        pat, it_expr, body = n[1], n[2], n[3]
        ie = H.strip(it_expr)
        count = None
        pre = []
        # 0..n
        if H.tag(ie) == "struct" and ie[1].endswith("::Range") :
            f = dict((a, b) for a, b in ie[2])
            if H.lit_int(f.get("start")) == 0:
                end = H.strip(f.get("end"))
                lv = H.lit_int(end)
                if lv is not None:
                    count = ("fixed", lv)
                else:
                    e2 = end
                    while H.tag(e2) == "cast":
                        e2 = H.strip(e2[4])
                    v = env.get(H.local_name(e2)) if H.tag(e2) == "local" else None
                    if v is not None:
                        count = ("field", v)
        elif H.is_mcall(ie) and H.mcall(ie)["name"] in ("iter_mut", "iter"):
            rty = H.mcall(ie)["recv_ty"]
            m = re.search(r"\[.*; (\d+)\]$", rty.replace("&mut ", "").replace("&", ""))
            bn = H.local_name(H.strip_refs(H.mcall(ie)["recv"]))
            lty = env.get("#ty:" + bn) if bn else None
            if lty:
                m2 = re.search(r"; (\d+)\]$", lty)
                if m2:
                    count = ("fixed", int(m2.group(1)))
            if count is None and m:
                count = ("fixed", int(m.group(1)))
        else:
            pre, _ = self.visit(it_expr, env)
        bi, _ = self.visit(body, env)
        if not bi:
            return pre, None
        if count is None:
            self.unk("for loop with reads over an unrecognised iterator", it_expr)
            count = ("?",)
        return pre + [Item({"k": "array", "count": count, "elem": bi})], None

    def visit_while(self, n, env):
        cond, body = n[1], n[2]
        bi, _ = self.visit(body, env)
        if not bi:
            return [], None
        c = H.strip(cond)
        kind = None
        if H.tag(c) == "bin" and c[2] == "Lt" and H.local_name(c[4]) == "current_size":
            kind = "size"
        elif H.tag(c) == "un" and c[2] == "Not" and H.is_mcall(c[4]) and H.mcall(c[4])["name"] == "is_empty" and self.is_reader(H.mcall(c[4])["recv"]):
            kind = "empty"
        if kind is None:
            self.unk("while loop with reads under an unrecognised condition", cond)
        return [Item({"k": "array", "count": ("endless", kind), "elem": bi})], None
