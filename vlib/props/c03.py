"""C03 — decoding is total: any bytes give a message or an error, never a panic or abort
(call-graph reachability over resolved MIR calls + per-site discharge by interval analysis on typed HIR)."""
import re

from .. import hir as H
from ..containers import state
from ..facts import facts
from ..intconv import INT_TYPES, int_range
from ..ranges import Env, Ranger, Walker, grown_names, guard_fn_summary, mutated_names, ty_range
from ..world import gpath, split_gpath

EXPLANATION = (
    "From every public read entry point the resolved MIR call graph (trait calls fanned out to all impls, across "
    "wow_world_messages/wow_world_base resp. wow_login_messages) is followed and every reachable panic site is enumerated: "
    "MIR Assert terminators (overflow, bounds, division), calls into the panic machinery, unwrap/expect, panicking std "
    "indexing, and every allocation-like call. Each site must be discharged by one of a closed set of local arguments "
    "(constant index into fixed array, operand ranges from a flow-sensitive interval analysis - conditions, match arms, loop counters "
    "and accumulators, bounded vector lengths, dead match arms, summaries of small helpers -, exhaustive evaluation of pure integer "
    "expressions over a small input domain, in-memory-size axiom, prefix-size relation, guard dominating an allocation); anything "
    "else is a finding (there is no table of excused sites). Loops on decode paths must make progress by a fallible read or have a "
    "counter that only grows towards a bound the loop does not change."
)

ENTRY_RE = re.compile(r"^(tokio_|astd_)?(read_unencrypted|read_encrypted|read|read_protocol|read_initial_message|expect_(client|server)_message(_encryption|_protocol)?)$")
PANIC_CALL = re.compile(r"^std::panicking::|^std::option::Option::<T>::(unwrap|expect)$|^std::result::Result::<T, E>::(unwrap|expect|unwrap_err|expect_err)$|^std::option::(unwrap_failed|expect_failed)|^std::result::unwrap_failed|^std::slice::index::|^std::str::|::copy_from_slice$|^std::vec::Vec::<T(, A)?>::(remove|swap_remove|insert|split_off|drain)$|^std::slice::<impl \[T\]>::(split_at|split_at_mut|chunks|chunks_exact|windows|copy_within|swap)$|^std::cell::|::process::(exit|abort)$|^std::intrinsics::abort$")
INDEX_CALL = re.compile(r"as std::ops::index::Index(Mut)?<")
ALLOC_CALL = re.compile(r"^std::vec::Vec::<T>::with_capacity$|^std::vec::from_elem$|^std::vec::Vec::<T(, A)?>::(reserve|reserve_exact|resize|resize_with)$|^std::string::String::with_capacity$|^std::io::Read::read_to_end$|^std::io::Read::read_to_string$|^std::iter::repeat|^std::vec::Vec::<T(, A)?>::extend_from_slice$")
ALLOC_BUDGET_COUNT = 0xFFFFFF  # elements: the largest frame any header can announce

# tabled discharges: none.  (Until round 17 thirteen sites were excused here by (function, site kind, count); a change that kept the
# count passed unseen, so the analysis was extended until it proves them.)  The mechanism is kept empty on purpose.
TABLED = {
}


class Graph:
    def __init__(self, crates):
        self.crates = crates
        self.F = {c: facts(c) for c in crates}
        self.edges = {}
        self.local = set()
        impl_map = {}
        for c, F in self.F.items():
            for p in F.paths("mir"):
                self.local.add(gpath(c, p))
            for im in F.impls():
                if im["trait"]:
                    tr = gpath(c, im["trait"].split("<")[0])
                    for it in im["items"]:
                        if it[0] == "fn":
                            impl_map.setdefault((tr, it[1]), []).append(gpath(c, it[2]))
        self.impl_map = impl_map
        for c, F in self.F.items():
            for m in F.all("mir"):
                src = gpath(c, m["path"])
                outs = self.edges.setdefault(src, set())
                for (span, callee, resolved, ga, mac) in m["calls"]:
                    tgt = gpath(c, resolved if resolved != "-" else callee)
                    if tgt in self.local:
                        outs.add(tgt)
                    elif resolved == "-" and "::" in callee:
                        tr, meth = gpath(c, callee).rsplit("::", 1)
                        for t2 in impl_map.get((tr, meth), ()):
                            outs.add(t2)
                        # default trait method bodies
                        if gpath(c, callee) in self.local:
                            outs.add(gpath(c, callee))
            for p in F.paths("mir"):
                if "::{closure#" in p:
                    parent = gpath(c, p.split("::{closure#")[0])
                    if parent in self.local:
                        self.edges.setdefault(parent, set()).add(gpath(c, p))

    def reachable(self, roots):
        seen, parent = set(), {}
        todo = list(roots)
        while todo:
            v = todo.pop()
            if v in seen:
                continue
            seen.add(v)
            for w in self.edges.get(v, ()):
                if w not in seen:
                    parent.setdefault(w, v)
                    todo.append(w)
        return seen, parent

    def chain(self, parent, node, limit=6):
        out = [node]
        while node in parent and len(out) < limit:
            node = parent[node]
            out.append(node)
        return list(reversed(out))


def fits(r, ty):
    tr = ty_range(ty)
    return r is not None and tr is not None and tr[0] <= r[0] and r[1] <= tr[1]


class ParamRanges:
    """Interprocedural: range of an integer parameter = union of the argument ranges at all call sites in the crates."""

    def __init__(self, G):
        self.G = G
        self.memo = {}
        self.active = set()
        self._callers = {}
        self._checkers = {}

    def callers(self, gp):
        if gp in self._callers:
            return self._callers[gp]
        self._callers[gp] = out = self._callers_uncached(gp)
        return out

    def checker(self, c, rec):
        k = (c, rec["path"])
        if k not in self._checkers:
            self._checkers[k] = SiteChecker(self.G, c, rec, None, None, self)
        return self._checkers[k]

    def _callers_uncached(self, gp):
        crate, lp = split_gpath(gp)
        out = []
        needles = [lp]
        if crate != self.G.crates[0]:
            needles.append(gp)
        for c, F in self.G.F.items():
            needle = lp if c == crate else gp
            for path, lines in F._raw["fn"].items():
                for line in lines:
                    if needle in line:
                        rec = F.fn(path)
                        if rec is not None:
                            out.append((c, rec, needle))
        return out

    def get_field(self, gp, index, field):
        """range of `param.field` = union over all call sites whose argument is a constant struct (a `const` item or a literal)"""
        key = (gp, index, "." + field)
        if key in self.memo:
            return self.memo[key]
        self.memo[key] = None
        res, n_sites = None, 0
        for c, rec, needle in self.callers(gp):
            chk = self.checker(c, rec)
            for span, lst in chk.by_span.items():
                for (n, env, loops, seq) in lst:
                    if n[0] == "call" and H.call_path(n) == needle:
                        args = H.call_args(n)
                    elif n[0] == "mcall" and n[3] == needle:
                        args = [n[6]] + n[7]
                    else:
                        continue
                    if index >= len(args):
                        continue
                    n_sites += 1
                    a0 = H.strip_refs(args[index])
                    lit = None
                    if H.tag(a0) == "path":
                        cst = self.G.F[c].const(a0[1]) if a0[1].startswith("crate::") else None
                        lit = H.strip(cst["hir"]) if cst is not None and cst.get("hir") is not None else None
                    elif H.tag(a0) == "struct":
                        lit = a0
                    fv = next((v for f, v in lit[2] if f == field), None) if lit is not None and H.tag(lit) == "struct" else None
                    r = chk.ranger.rng(fv, env, seq) if fv is not None else None
                    if r is None and H.tag(a0) == "path" and a0[1].startswith(("crate::", "<crate::")):
                        # a constant built by a `const fn` (`BitField::after(Some(&Self::MINUTES), 5)`): its value is computed
                        from ..minieval import Mini, Unsupported, Panic
                        try:
                            cv = Mini({k: v for k, v in self.G.F.items()}, c).const(a0[1])
                        except (Unsupported, Panic, KeyError, TypeError, ValueError, IndexError, AttributeError, RecursionError):
                            cv = None
                        if isinstance(cv, tuple) and len(cv) == 3 and cv[0] == "struct" and isinstance(cv[2], dict) and isinstance(cv[2].get(field), int) and not isinstance(cv[2].get(field), bool):
                            r = (cv[2][field], cv[2][field])
                    if r is None and H.tag(a0) == "local":
                        # the argument is itself a parameter of the calling function (`self.mask()` inside `get(self, ..)`): its callers decide
                        pn = [q[1] for q in rec["params"] if H.tag(q) == "bind"]
                        if a0[1] in pn:
                            r = self.get_field(gpath(c, rec["path"]), pn.index(a0[1]), field)
                    if r is None:
                        return None
                    res = r if res is None else (min(res[0], r[0]), max(res[1], r[1]))
        self.memo[key] = res if n_sites else None
        return self.memo[key]

    def get(self, gp, index, name):
        key = (gp, index)
        if key in self.memo:
            return self.memo[key]
        if key in self.active:
            return None
        self.active.add(key)
        try:
            res = None
            n_sites = 0
            for c, rec, needle in self.callers(gp):
                chk = self.checker(c, rec)
                for span, lst in chk.by_span.items():
                    for (n, env, loops, seq) in lst:
                        if n[0] == "call" and H.call_path(n) == needle:
                            args = H.call_args(n)
                        elif n[0] == "mcall" and n[3] == needle:
                            args = [n[6]] + n[7]
                        else:
                            continue
                        if index >= len(args):
                            continue
                        n_sites += 1
                        r = chk.ranger.rng(args[index], env, seq)
                        if r is None:
                            self.memo[key] = None
                            return None
                        res = r if res is None else (min(res[0], r[0]), max(res[1], r[1]))
            self.memo[key] = res if n_sites else None
            return self.memo[key]
        finally:
            self.active.discard(key)


_GUARD_FNS = {}


class SiteChecker:
    """Discharge the sites of one function."""

    def __init__(self, g, crate, fn, mir, consts, params=None):
        self.g, self.crate, self.fn, self.mir = g, crate, fn, mir
        self.hir = fn["hir"]
        self.gp = gpath(crate, fn["path"])
        self.params = params
        names = [p[1] for p in fn["params"] if H.tag(p) == "bind"]

        def param_range(name):
            if self.params is None or name not in names:
                return None
            return self.params.get(self.gp, names.index(name), name)

        self.ranger = Ranger(mutated_names(self.hir), consts, param_range)
        self.ranger.grown = grown_names(self.hir)
        F_ = g.F[crate] if hasattr(g, "F") else g.f(crate)

        def guard_fn(path, F_=F_):
            if not path.startswith("crate::"):
                return None
            if path not in _GUARD_FNS.setdefault(crate, {}):
                gs_ = guard_fn_summary(F_.fn(path))
                if gs_ is None:
                    from ..ranges import guard_fn_semantic
                    gs_ = guard_fn_semantic(F_.fn(path), lambda p_, a_: self.ranger.call_concrete(p_, a_) if self.ranger.call_concrete else None)
                _GUARD_FNS[crate][path] = gs_
            return _GUARD_FNS[crate][path]
        self.ranger.guard_fn = guard_fn

        def adt_range(ty, F_=F_):
            a = F_.adt(ty) if ty and ty.startswith("crate::") else None
            if a is None or a["kind"] != "Enum" or any(v[2] for v in a["variants"]) or not a["variants"]:
                return None
            ds = [int(v[1]) for v in a["variants"]]
            return (min(ds), max(ds))
        self.ranger.adt_range = adt_range

        def const_hir(path, F_=F_):
            c = F_.const(path) if path and path.startswith(("crate::", "<crate::")) else None
            return c.get("hir") if c is not None else None
        self.ranger.const_hir = const_hir
        self.ranger.fn_of = lambda path, F_=F_: F_.fn(path)

        def param_field_range(name, field):
            if self.params is None or name not in names:
                return None
            return self.params.get_field(self.gp, names.index(name), field)
        self.ranger.param_field_range = param_field_range

        def call_concrete(path, args, crate=crate, G=g):
            from ..minieval import Mini, Unsupported, Panic
            try:
                return Mini(dict(G.F), crate).call_fn(path, list(args))
            except (Unsupported, Panic, KeyError, TypeError, ValueError, IndexError, AttributeError, RecursionError):
                return None
        self.ranger.call_concrete = call_concrete
        self.by_span = {}
        self.loops = []  # (loop node, env)
        w = Walker(self.ranger, self.on_node)
        env = Env()
        for p in fn["params"]:
            if H.tag(p) == "bind":
                env.set(p[1], ("param", p[4]), 0)
        w.walk(self.hir, env)
        self.counter_loops = w.counter_loops

    def on_node(self, n, env, loops, seq):
        t = n[0]
        if t in ("bin", "asgop", "idx", "call", "mcall", "cast") and isinstance(n[1], str):
            self.by_span.setdefault(n[1], []).append((n, env, loops, seq))
        if t in ("while", "loop", "for"):
            self.loops.append((n, env))

    # ---- asserts ---------------------------------------------------------------------------------
    def check_assert(self, span, kind):
        nodes = [(n, e, l, q) for (n, e, l, q) in self.by_span.get(span, []) if n[0] in ("bin", "asgop", "idx")]
        if not nodes:
            return False, "no HIR node at the site"
        want = {"overflow_add": "Add", "overflow_sub": "Sub", "overflow_mul": "Mul", "overflow_shl": "Shl", "overflow_shr": "Shr",
                "div0": "Div", "rem0": "Rem", "overflow_div": "Div", "overflow_rem": "Rem"}.get(kind)
        reasons = []
        found = False
        for n, env, loops, seq in nodes:
            if kind == "bounds":
                if n[0] != "idx":
                    continue
                found = True
                m = re.search(r"; (\d+)\]$", (n[2] or "").replace("&mut ", "").replace("&", ""))
                ir = self.ranger.rng(n[4], env, seq)
                if m and ir is not None and 0 <= ir[0] and ir[1] < int(m.group(1)):
                    reasons.append("const-index")
                    continue
                return False, f"index {H.short(n[4])} (range {ir}) into {n[2]} is not provably in bounds"
            op = n[2].replace("Assign", "") if n[0] in ("bin", "asgop") else None
            if op != want:
                continue
            found = True
            ty = n[3]
            a = self.ranger.rng(n[4], env, seq)
            b = self.ranger.rng(n[5], env, seq)
            if kind in ("div0", "rem0"):
                if b is not None and (b[0] > 0 or b[1] < 0):
                    reasons.append("nonzero-divisor")
                    continue
                return False, f"divisor {H.short(n[5])} may be zero"
            if kind in ("overflow_div", "overflow_rem"):
                if b is not None and b[0] > 0:
                    reasons.append("positive-divisor")
                    continue
                return False, f"divisor {H.short(n[5])} may be -1 with a minimum dividend"
            if kind in ("overflow_shl", "overflow_shr"):
                bits = INT_TYPES.get(ty, (None,))[0]
                if b is not None and bits and 0 <= b[0] and b[1] < bits:
                    reasons.append("shift-in-range")
                    continue
                return False, f"shift amount {H.short(n[5])} (range {b}) may reach the width of {ty}"
            # add / sub / mul
            if n[0] == "asgop":
                # accumulator: x += e
                tgt = H.local_name(n[4])
                if kind == "overflow_add" and ty == "usize" and b is not None and b[1] <= (1 << 56) and self.memory_like(n[5]):
                    reasons.append("in-memory-size axiom (accumulated size of objects held in memory)")
                    continue
                # the target's range where the update stands (a loop counter's invariant, a condition that guards the update)
                ta_ = ty_range(ty)
                if a is not None and b is not None and ta_ is not None and a != ta_:
                    if want == "Add":
                        r_ = (a[0] + b[0], a[1] + b[1])
                    elif want == "Sub":
                        r_ = (a[0] - b[1], a[1] - b[0])
                    else:
                        c_ = [a[0] * b[0], a[0] * b[1], a[1] * b[0], a[1] * b[1]]
                        r_ = (min(c_), max(c_))
                    if ta_[0] <= r_[0] and r_[1] <= ta_[1]:
                        reasons.append("bounded-target")
                        continue
                return False, f"accumulator `{H.short(n, maxlen=80)}`: no bound on {tgt}"
            if kind == "overflow_sub" and self.is_prefix_size(n, env):
                reasons.append("prefix-size (current_size is the size of members already read from the body_size-long slice)")
                continue
            ta = ty_range(ty)
            if a is None:
                a = ta
            if b is None:
                b = ta
            if a is None or b is None or ta is None:
                return False, f"operand range unknown in {H.short(n, maxlen=80)}"
            if want == "Add":
                r = (a[0] + b[0], a[1] + b[1])
            elif want == "Sub":
                r = (a[0] - b[1], a[1] - b[0])
            else:
                c = [a[0] * b[0], a[0] * b[1], a[1] * b[0], a[1] * b[1]]
                r = (min(c), max(c))
            if ta[0] <= r[0] and r[1] <= ta[1]:
                reasons.append("type-range")
                continue
            if ty == "usize" and want in ("Add", "Mul") and self.memory_like(n):
                reasons.append("in-memory-size axiom")
                continue
            ex = self.exhaustive(n, env, seq, ta)
            if ex is True:
                reasons.append("exhaustive evaluation over the finite domain of its only input")
                continue
            if isinstance(ex, str):
                return False, ex
            return False, f"`{H.short(n, maxlen=90)}` in {ty}: operand ranges {a} and {b} can exceed the type"
        if not found:
            return False, "no matching operator at the site"
        return True, "; ".join(sorted(set(reasons)))

    def exhaustive(self, n, env, seq, ta):
        """a pure integer expression whose only free input has a small finite domain (e.g. `y / 4 - y / 100` for a year 0..=255) is decided by
        evaluating it for every value of that input: True when no value leaves the type's range, a message with the witness otherwise,
        None when the expression is not of that kind"""
        if n[0] == "asgop":
            return None
        from ..ranges import PureEval, NotPure
        pe = PureEval(self.ranger)
        try:
            free = pe.free_inputs(n, env, seq)
        except NotPure:
            return None
        if len(free) != 1:
            return None
        (name, (lo, hi)), = free.items()
        if hi - lo > 70000:
            return None
        for xv in range(lo, hi + 1):
            try:
                pe.value(n, env, seq, {name: xv})
            except OverflowError as e_:
                return f"for {name} = {xv}: {e_} leaves the range of the type"
            except ZeroDivisionError:
                return f"for {name} = {xv}: division by zero"
            except (NotPure, KeyError, TypeError):
                return None
        return True

    def memory_like(self, n):
        """expression built only from len()/size()/size fns of live objects, constants, + and * by constants"""
        n = H.strip(n)
        t = H.tag(n)
        if t == "lit":
            return True
        if t == "cast":
            return self.memory_like(n[4])
        if t == "bin" and n[2] in ("Add", "Mul"):
            return self.memory_like(n[4]) and self.memory_like(n[5])
        if t == "mcall" and H.mcall(n)["name"] in ("len", "size", "size_uncompressed", "fold"):
            return True
        if t == "call" and ((H.call_path(n) or "").split("::")[-1].endswith("_size") or (H.call_path(n) or "").endswith("size_of")):
            return True
        if t == "local":
            return True
        if t == "block" and not n[1] and n[2] is not None:
            return self.memory_like(n[2])
        if t == "if":
            return self.memory_like(n[2]) and (n[3] is None or self.memory_like(n[3]))
        if t == "path":
            return True
        return False

    def is_prefix_size(self, n, env):
        lhs, rhs = H.strip(n[4]), H.strip(n[5])
        while H.tag(lhs) == "cast":
            lhs = H.strip(lhs[4])
        return H.local_name(lhs) == "body_size" and H.local_name(rhs) == "current_size"

    # ---- calls -----------------------------------------------------------------------------------
    def nodes_for_call(self, span):
        return [(n, e, l, q) for (n, e, l, q) in self.by_span.get(span, []) if n[0] in ("call", "mcall")]

    def check_alloc(self, span, tgt):
        nodes = self.nodes_for_call(span)
        if not nodes:
            return False, "no HIR node at the site"
        last = tgt.split("::")[-1]
        for n, env, loops, seq in nodes:
            if n[0] == "call":
                p = H.call_path(n) or ""
                args = H.call_args(n)
                if p.endswith("::with_capacity") and len(args) == 1:
                    arg = args[0]
                elif p.endswith("::from_elem") and len(args) == 2:
                    arg = args[1]
                else:
                    continue
            else:
                mc = H.mcall(n)
                if mc["name"] == "read_to_end":
                    # reads until EOF of an in-memory decoder: growth bounded by what the zlib stream inflates to
                    rt = mc["recv_ty"]
                    if "ZlibDecoder" in rt or "&[u8]" in rt:
                        return False, "read_to_end of a zlib decoder inflates without limit (decompression bomb): output is not bounded by the frame"
                    return False, f"read_to_end on {rt}"
                if mc["name"] in ("reserve", "resize", "reserve_exact") and mc["args"]:
                    arg = mc["args"][0]
                else:
                    continue
            r = self.ranger.rng(arg, env, seq)
            if r is not None and r[1] <= ALLOC_BUDGET_COUNT:
                return True, f"bounded count (<= {r[1]:#x})"
            if self.derived_from_body_size(arg):
                return True, "derived from body_size (bounded by the frame)"
            gb = self.guarded(arg, env, seq)
            if gb:
                return True, gb
            return False, f"`{H.short(n, maxlen=100)}`: requested count {H.short(arg, maxlen=60)} ranges up to {r[1] if r else '?'} and no allocation guard dominates the call"
        return True, "not an allocation with a size argument"

    def derived_from_body_size(self, arg):
        names = {H.local_name(x) for x in H.walk(arg) if H.tag(x) == "local"}
        return "body_size" in names and names <= {"body_size", "current_size"}

    def guarded(self, arg, env, seq):
        """a dominating `if allocation_size > MAX { return Err }` on a value derived from the same count"""
        names = {H.local_name(x) for x in H.walk(arg) if H.tag(x) == "local"}
        for nm in names:
            b = env.get("#guard:" + nm, seq)
            if b and b[0] != "dead":
                return f"allocation guard on `{nm}` dominates the call"
        return None

    def check_panic_call(self, span, tgt, mac, ga=""):
        nodes = self.nodes_for_call(span)
        dead = [env.get("#dead", seq) for n, env, loops, seq in nodes]
        if nodes and all(d is not None and d[0] == "dead-arm" for d in dead):
            return True, "unreachable-arm: " + dead[0][1]
        if INDEX_CALL.search(tgt):
            # Index on Vec/slice/array: only the full range cannot panic
            if "RangeFull" in ga:
                return True, "RangeFull index"
            return False, f"indexing may panic ({tgt} with {ga})"
        if tgt.endswith("Result::<T, E>::unwrap") or tgt.endswith("Result::<T, E>::expect"):
            # u32 -> usize conversions cannot fail on >= 32-bit targets
            for n, env, loops, seq in self.nodes_for_call(span):
                if n[0] == "mcall":
                    inner = H.strip(n[6])
                    if H.is_mcall(inner) and H.mcall(inner)["name"] == "try_into" and H.mcall(inner)["gargs"] in (["u32", "usize"], ["u16", "usize"], ["u8", "usize"]):
                        return True, "u32 -> usize cannot fail on targets with >= 32-bit pointers"
        return False, f"reaches {tgt}" + (f" via {mac}!" if mac else "")


def loop_progress(chk, fn_path):
    """D3: every loop either iterates a bounded range / collection or contains a fallible read on its path"""
    out = []
    for n, env in chk.loops:
        t = n[0]
        if t == "for":
            continue  # iterates a range or an in-memory collection: bounded by its (checked) length
        body = n[2]
        has_read = False
        for x in H.walk(body):
            if H.tag(x) == "try":
                inner = H.strip(x[1])
                while H.tag(inner) in ("await",):
                    inner = H.strip(inner[1])
                if H.tag(inner) in ("call", "mcall"):
                    txt = (H.call_path(inner) or "") if H.tag(inner) == "call" else H.mcall(inner)["name"]
                    if "read" in txt:
                        has_read = True
        cond = n[1] if t == "while" else None
        bounded = id(n) in getattr(chk, "counter_loops", ())
        if cond is not None and H.tag(H.strip(cond)) == "letexpr" and any(H.tag(y) == "mcall" and y[2] == "next" for y in H.walk(H.strip(cond)[2])):
            bounded = True  # `while let Some(x) = it.next()`: a `for` loop over the iterator, spelled out (judged like `for`)  # a counter that only grows, compared with a bound the loop does not change
        if cond is not None:
            c = H.strip(cond)
            if H.tag(c) == "bin" and c[2] in ("Lt", "Ne", "Le") and (H.lit_int(c[5]) is not None or H.tag(H.strip(c[5])) == "path"):
                bounded = True  # counter compared with a constant
            txt = H.short(c, maxlen=200)
            if "Lt" in txt and H.lit_int(H.strip(c)[5] if H.tag(c) == "bin" else None) is not None:
                bounded = True
        if not has_read and not bounded:
            out.append((n, "loop without a fallible read on its path and without a constant bound"))
    return out


def run(ctx):
    n_sites = n_discharged = 0
    classes = {}
    n_entries = 0
    n_reach = 0
    for crates in (["wow_world_messages", "wow_world_base"], ["wow_login_messages"]):
        G = Graph(crates)
        main = crates[0]
        F0 = G.F[main]
        roots = []
        for fn in F0.all("fn"):
            if fn["vis"] == "Public" and ENTRY_RE.match(fn["name"]):
                roots.append(gpath(main, fn["path"]))
        n_entries += len(roots)
        seen, parent = G.reachable(roots)
        n_reach += len(seen)
        consts_cache = {}
        PR = ParamRanges(G)
        tabled_seen = {}

        def consts_for(crate):
            def look(p):
                c = G.F[crate].const(p)
                if c is not None and c["val"] is not None:
                    return int(c["val"])
                return None
            return look

        for gp in sorted(seen):
            crate, lp = split_gpath(gp)
            if crate not in G.F:
                continue
            F = G.F[crate]
            m = F.mir(lp)
            base = lp.split("::{closure#")[0]
            fn = F.fn(base)
            if m is None or fn is None:
                continue
            sites = []
            for (span, kind, mac) in m["asserts"]:
                sites.append(("assert", span, kind, mac, ""))
            for (span, callee, resolved, ga, mac) in m["calls"]:
                tgt = resolved if resolved != "-" else callee
                if PANIC_CALL.search(tgt) or INDEX_CALL.search(tgt):
                    if mac in ("debug_assert", "debug_assert_eq", "debug_assert_ne"):
                        continue
                    sites.append(("panic", span, tgt, mac, ga))
                elif ALLOC_CALL.search(tgt):
                    sites.append(("alloc", span, tgt, mac, ga))
            if not sites and not any(True for _ in ()):
                pass
            chk = None
            ordinal = {}
            for (cls, span, what, mac, ga) in sites:
                if chk is None:
                    chk = SiteChecker(G, crate, fn, m, consts_for(crate), PR)
                n_sites += 1
                if cls == "assert":
                    ok, reason = chk.check_assert(span, what)
                    kind = what
                elif cls == "alloc":
                    ok, reason = chk.check_alloc(span, what)
                    kind = "alloc:" + what.split("::")[-1]
                else:
                    ok, reason = chk.check_panic_call(span, what, mac, ga)
                    kind = "panic:" + re.sub(r"<[^<>]*>", "", what).split("::")[-1]
                if not ok:
                    for (suffix, k2), (cnt, why) in TABLED.items():
                        if base.endswith(suffix) and k2 == kind:
                            ok, reason = True, "tabled: " + why
                            tabled_seen[(gp, suffix, k2)] = tabled_seen.get((gp, suffix, k2), 0) + 1
                            break
                classes.setdefault((kind, ok, reason.split(":")[0][:60]), 0)
                classes[(kind, ok, reason.split(":")[0][:60])] += 1
                if ok:
                    n_discharged += 1
                    continue
                o = ordinal.get((kind,), 0)
                ordinal[(kind,)] = o + 1
                rule = "alloc.bound" if cls == "alloc" else "panic.reach"
                chain = " <- ".join(x.split("::")[-1] if "::" in x else x for x in reversed(G.chain(parent, gp, 4)))
                line = int(span.split(":")[0]) if span else fn["line"]
                ctx.violate(rule, f"{gp}|{kind}|{o}", f"{lp}: {reason}  [reachable: {chain}]", fn["file"], line)
            # D3 loops (once per function body, not per closure)
            if lp == base:
                if chk is None:
                    chk = SiteChecker(G, crate, fn, m, consts_for(crate), PR)
                for k, (ln, why) in enumerate(loop_progress(chk, lp)):
                    n_sites += 1
                    hit = False
                    for (suffix, k2), _r in TABLED.items():
                        if base.endswith(suffix) and k2 == "loop":
                            hit = True
                    if not hit:
                        ctx.violate("loop.progress", f"{gp}|loop|{k}", f"{lp}: {why}: {H.short(ln, maxlen=100)}", fn["file"], fn["line"])
                    else:
                        n_discharged += 1
        for (gp2, suffix, k2), cnt in tabled_seen.items():
            want = TABLED[(suffix, k2)][0]
            if cnt > want:  # fewer sites than were reviewed: some are discharged by the analysis now, or were removed
                ctx.violate("panic.reach", f"{gp2}|tabled-count|{k2}", f"{gp2}: {cnt} undischarged `{k2}` sites fall under a tabled reason that was written for {want}: the function changed, review the table entry")
    ctx.rule("panic.reach", n_sites, floor=SITE_FLOOR, decided=n_sites, note=f"reachable panic/assert/alloc/loop sites from {n_entries} public read entry points over {n_reach} reachable bodies; {n_discharged} discharged")
    ctx.analysed.update({"entry_points": n_entries, "reachable_bodies": n_reach, "sites": n_sites, "discharged": n_discharged,
                         "classes": [f"{k[0]} ok={k[1]} {k[2]}: {v}" for k, v in sorted(classes.items(), key=lambda x: -x[1])][:40]})
    ctx.sample({"classes": [f"{k[0]} ok={k[1]} [{k[2]}] x{v}" for k, v in sorted(classes.items(), key=lambda x: -x[1])][:12]})
    ctx.assume("panics inside trusted external code (std read_exact, String::from_utf8, flate2 internals, wow_srp) are not analysed; stack depth is not analysed")
    ctx.assume("in-memory-size axiom: any len() <= 2^47 and wire sizes of live objects <= 2^56, so usize sums of them cannot overflow")
    ctx.assume("prefix-size: current_size is the byte count of members already read from the original body_size-long slice (size()/layout agreement is C02-D1)")
    ctx.assume("Message::read_body cannot be called from outside the crates (sealed trait parameter), so r.len() == body_size on every decode path")
    return "other", EXPLANATION, {}


SITE_FLOOR = 800
