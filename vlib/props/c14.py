"""C14 — login protocol-version views are lossless and codec-equivalent (symbolic field-flow identity + dispatch/assoc-type rules)."""
import re

from .. import hir as H
from ..facts import facts
from ..symadt import Adt, Shape, Sym, explore

EXPLANATION = (
    "D1: for every impl of CollectiveMessage (15 families) and every older protocol version N in {2,3,5,6,7} the composition "
    "to_version_N(from_version_N(v)) is evaluated symbolically over typed HIR with v an arbitrary canonical value of the "
    "version-N type (uninterpreted leaf symbols; case split over every enum variant, Option and optional flag member the code "
    "or the type distinguishes; vector elements universally quantified; helper functions, closures and the generated flag "
    "struct methods are interpreted from their own bodies) and the result must be structurally identical to v in every case. "
    "D2: the six protocol-parameterised default methods must map ProtocolVersion::K to exactly from_version_K(VersionK::read) / "
    "to_version_K().write of the same flavour (Eight: Self), and the expect_*_message_protocol helpers must hand the "
    "protocol version through unchanged. D3: rustc's normalised associated type <Main as CollectiveMessage>::VersionK must be "
    "the very type version K's own opcode enum carries for that message, so the protocol API and version K's codec are the "
    "same function."
)
TRAIT = "crate::collective::CollectiveMessage"
PV = "crate::logon::all::protocol_version::ProtocolVersion"
VERS = {"Two": 2, "Three": 3, "Five": 5, "Six": 6, "Seven": 7, "Eight": 8}
OLDER = [2, 3, 5, 6, 7]


def short_ty(t):
    return t.split("::")[-1]


def roundtrip(ctx, F, impl, assoc):
    name = short_ty(impl["self_ty"])
    n = 0
    cases_total = 0
    for N in OLDER:
        vt = assoc.get(f"Version{N}")
        ff, tf = F.fn(f"{impl['path']}::from_version_{N}"), F.fn(f"{impl['path']}::to_version_{N}")
        if vt is None or ff is None or tf is None:
            ctx.violate("coll.identity", f"anchor|{name}|v{N}", f"{name}: Version{N} / from_version_{N} / to_version_{N} not found in the impl", impl["file"], impl["line"])
            continue
        n += 1

        def run(it, N=N, vt=vt):
            v = Sym("v", vt)
            lifted = it.call_path(f"{impl['path']}::from_version_{N}", [v], [])
            # name preservation: a member of the collective value that is a plain copy of a member of v must be the member of the same
            # name when v has one (a swap made consistently in from_ and to_ survives the round trip but shows wrong values to the user)
            lf, vf = it.force(lifted), it.force(v)
            if isinstance(lf, Adt) and isinstance(vf, Adt):
                for f, val in lf.fields.items():
                    if isinstance(val, Sym) and val.path.startswith("v.") and f in vf.fields:
                        g = val.path.split(".")[-1]
                        if g != f and g in vf.fields and val.path.count(".") == (2 if vf.variant else 1):
                            return f"v.{f}: the collective member `{f}` is filled from the version-{N} member `{g}` although the version-{N} value has a member `{f}` (members swapped or misrouted)"
            lowered = it.call_path(f"{impl['path']}::to_version_{N}", [lifted], [])
            return it.same(lowered, v, "v")

        try:
            res = explore(F, run)
        except Shape as e:
            ctx.violate("coll.identity", f"{name}|v{N}|shape", f"{name} from/to_version_{N}: shape not recognised — review ({e})", ff["file"], ff["line"])
            continue
        cases_total += len(res)
        seen = set()
        for dec, diff in res:
            if diff is None:
                continue
            where = diff.split(":")[0]
            if where in seen:
                continue
            seen.add(where)
            shape = ", ".join(f"{k[0]}{'.' + k[2] if len(k) > 2 else ''}={v}" for k, v in sorted(dec.items(), key=str)) or "any value"
            if "is filled from" in diff:
                ctx.violate("coll.identity", f"{name}|v{N}|{where}|names", f"{name}: from_version_{N}(v) for version-{N} values with [{shape}] — {diff.split(': ', 1)[1]}", ff["file"], ff["line"])
                continue
            ctx.violate("coll.identity", f"{name}|v{N}|{where}",
                        f"{name}: to_version_{N}(from_version_{N}(v)) != v for version-{N} values with [{shape}] — {diff}", tf["file"], tf["line"])
    return n, cases_total


def proto_match(hir):
    for x in H.walk(hir):
        if H.tag(x) == "match" and isinstance(x[2], str) and x[2].endswith("ProtocolVersion"):
            return x
    return None


def peel(n):
    """strip try / await wrappers"""
    while True:
        n = H.strip(n)
        if H.tag(n) in ("try", "await"):
            n = n[1]
        else:
            return n


def expand_arms(arms):
    """`A | B => body` is the same as two arms with that body: each version must still get its own conversion"""
    out = []
    for pat, guard, body in arms:
        if H.tag(pat) == "por":
            out += [(p, guard, body) for p in pat[1]]
        else:
            out.append((pat, guard, body))
    return out


_SEM_DONE = set()


def dispatch_semantic(F, fn, prefix, write):
    """read_protocol / write_protocol interpreted for every protocol version with the codecs and conversions as observation points: version K
    must be decoded by VersionK's own read and lifted by from_version_K (resp. lowered by to_version_K and written by VersionK's write), once.
    -> {variant: message or None}; raises Unsupported when not interpretable"""
    from ..minieval import Mini
    out = {}
    PV = "wow_login_messages::manual::protocol_version::ProtocolVersion::"
    pv_adt = next((a for a in F.all("adt") if a["path"].endswith("::ProtocolVersion")), None)
    pvp = (pv_adt["path"].replace("crate::", "wow_login_messages::") + "::") if pv_adt else PV
    for var, K in VERS.items():
        m = Mini({"wow_login_messages": F}, "wow_login_messages")
        log = []

        def codec(args, node, log=log):
            ga = (H.call_gargs(node) if H.tag(H.strip(node)) == "call" else H.mcall(node)["gargs"])
            mk = re.search(r"Version(\d+)$", ga[0]) if ga else None
            ver = int(mk.group(1)) if mk else (8 if ga and ga[0] == "Self" else None)
            log.append((ver, args))
            return ("Ok", ("decoded", ver)) if not write else ("Ok", ())
        codec.with_node = True
        ov = {f"::Message::{prefix}read": codec, f"::Message::{prefix}write": codec}
        for k in VERS.values():
            ov[f"::from_version_{k}"] = (lambda k: (lambda a: ("lifted", k, a[0])))(k)
            ov[f"::to_version_{k}"] = (lambda k: (lambda a: ("lowered", k, a[0])))(k)
        m.overrides = ov
        pv = ("variant", pvp + var)
        args = [("selfmsg",), ("w",), pv] if write else [("r",), pv]
        res = m.call_fn(fn["path"], args)
        if isinstance(res, tuple) and res and res[0] == "closure":
            res = m.apply(res, [])
        if write:
            want_recv = ("selfmsg",) if K == 8 else ("lowered", K, ("selfmsg",))
            if len(log) != 1 or log[0][0] != K:
                out[var] = f"the message is written by the codec of version(s) {[x[0] for x in log]}, it must be written once by version {K}'s"
            elif _deref(log[0][1][0]) != want_recv:
                out[var] = f"version {K}'s writer is given {_deref(log[0][1][0])}, it must be {'self' if K == 8 else f'self.to_version_{K}()'}"
            elif res != ("Ok", ()):
                out[var] = f"the result of the writer is not returned ({str(res)[:60]})"
            else:
                out[var] = None
        else:
            want = ("Ok", ("decoded", 8)) if K == 8 else ("Ok", ("lifted", K, ("decoded", K)))
            if len(log) != 1 or log[0][0] != K:
                out[var] = f"the bytes are decoded by the codec of version(s) {[x[0] for x in log]}, they must be decoded once by version {K}'s"
            elif res != want:
                out[var] = f"the decoded version-{K} message is returned as {str(res)[:80]}, it must be {'the message itself' if K == 8 else f'Self::from_version_{K}(..)'}"
            else:
                out[var] = None
    return out


def _deref(v):
    return v.get() if hasattr(v, "get") else v


def check_dispatch(ctx, F):
    n = 0
    from ..minieval import Unsupported, Panic
    for prefix in ("", "tokio_", "astd_"):
        for write in (False, True):
            key = f"{prefix}{'write' if write else 'read'}_protocol"
            fn0 = F.fn(f"{TRAIT}::{key}")
            if fn0 is None:
                continue
            try:
                res = dispatch_semantic(F, fn0, prefix, write)
            except (Unsupported, Panic) as e_:
                continue
            _SEM_DONE.add(key)
            for var, msg in res.items():
                if msg:
                    ctx.violate("coll.dispatch", f"{key}|{var}", f"{key}: for ProtocolVersion::{var} {msg}", fn0["file"], fn0["line"])
    for prefix in ("", "tokio_", "astd_"):
        # --- read
        fn = F.fn(f"{TRAIT}::{prefix}read_protocol")
        key = f"{prefix}read_protocol"
        if fn is None:
            ctx.violate("coll.dispatch", f"anchor|{key}", f"CollectiveMessage::{key} not found")
        elif key in _SEM_DONE:
            n += 1
        else:
            n += 1
            m = proto_match(fn["hir"])
            seen = {}
            if m is None or H.local_name(m[1]) != "protocol_version":
                ctx.violate("coll.dispatch", f"{key}|shape", f"{key}: no match on the protocol_version parameter — review", fn["file"], fn["line"])
            else:
                for pat, guard, body in expand_arms(m[3]):
                    if H.tag(pat) != "ppath" or guard is not None:
                        ctx.violate("coll.dispatch", f"{key}|arm", f"{key}: unexpected arm pattern {H.short(pat)}", fn["file"], fn["line"])
                        continue
                    var = short_ty(pat[1])
                    K = VERS.get(var)
                    b = peel(body)
                    ok = False
                    if K == 8:
                        ok = H.tag(b) == "call" and H.call_path(b) == f"crate::Message::{prefix}read" and H.call_gargs(b)[:1] == ["Self"]
                        want = f"Self::{prefix}read(r)"
                    elif K is not None:
                        want = f"Self::from_version_{K}(Self::Version{K}::{prefix}read(r))"
                        if H.tag(b) == "call" and H.call_path(b) == f"{TRAIT}::from_version_{K}" and H.call_gargs(b)[:1] == ["Self"] and len(H.call_args(b)) == 1:
                            inner = peel(H.call_args(b)[0])
                            ok = (H.tag(inner) == "call" and H.call_path(inner) == f"crate::Message::{prefix}read"
                                  and H.call_gargs(inner)[:1] == [f"<Self as {TRAIT}>::Version{K}"]
                                  and [H.local_name(a) for a in H.call_args(inner)] == ["r"])
                    else:
                        want = "a known protocol version"
                    seen[var] = ok
                    if not ok:
                        ctx.violate("coll.dispatch", f"{key}|{var}", f"{key}: arm ProtocolVersion::{var} is not {want}: {H.short(body, maxlen=200)}", fn["file"], fn["line"])
                if set(seen) != set(VERS):
                    ctx.violate("coll.dispatch", f"{key}|arms", f"{key}: arms {sorted(seen)} do not cover exactly {sorted(VERS)}", fn["file"], fn["line"])
        # --- write
        fn = F.fn(f"{TRAIT}::{prefix}write_protocol")
        key = f"{prefix}write_protocol"
        if fn is None:
            ctx.violate("coll.dispatch", f"anchor|{key}", f"CollectiveMessage::{key} not found")
            continue
        n += 1
        if key in _SEM_DONE:
            continue
        m = proto_match(fn["hir"])
        seen = {}
        if m is None or H.local_name(m[1]) != "protocol_version":
            ctx.violate("coll.dispatch", f"{key}|shape", f"{key}: no match on the protocol_version parameter — review", fn["file"], fn["line"])
            continue
        for pat, guard, body in expand_arms(m[3]):
            if H.tag(pat) != "ppath" or guard is not None:
                ctx.violate("coll.dispatch", f"{key}|arm", f"{key}: unexpected arm pattern {H.short(pat)}", fn["file"], fn["line"])
                continue
            var = short_ty(pat[1])
            K = VERS.get(var)
            b = peel(body)
            ok = False
            want = "?"
            if H.tag(b) == "mcall" and b[3] == f"crate::Message::{prefix}write":
                mc = H.mcall(b)
                recv = H.strip_refs(mc["recv"])
                wargs = [H.local_name(a) for a in mc["args"]]
                if K == 8:
                    want = f"self.{prefix}write(w)"
                    ok = H.local_name(recv) == "self" and mc["gargs"][:1] == ["Self"] and wargs == ["w"]
                elif K is not None:
                    want = f"self.to_version_{K}().{prefix}write(w)"
                    ok = (H.tag(recv) == "mcall" and recv[3] == f"{TRAIT}::to_version_{K}" and H.local_name(H.strip_refs(H.mcall(recv)["recv"])) == "self"
                          and mc["gargs"][:1] == [f"<Self as {TRAIT}>::Version{K}"] and wargs == ["w"])
            seen[var] = ok
            if not ok:
                ctx.violate("coll.dispatch", f"{key}|{var}", f"{key}: arm ProtocolVersion::{var} is not {want}: {H.short(body, maxlen=200)}", fn["file"], fn["line"])
        if set(seen) != set(VERS):
            ctx.violate("coll.dispatch", f"{key}|arms", f"{key}: arms {sorted(seen)} do not cover exactly {sorted(VERS)}", fn["file"], fn["line"])
    # --- expect_*_message_protocol helpers
    for prefix in ("", "tokio_", "astd_"):
        for side in ("client", "server"):
            name = f"{prefix}expect_{side}_message_protocol"
            fn = F.fn(f"crate::helper::expected_protocol::{name}")
            if fn is None:
                ctx.violate("coll.dispatch", f"anchor|{name}", f"helper::expected_protocol::{name} not found")
                continue
            n += 1
            body = H.unwrap_async(fn["hir"])
            calls = [x for x in H.walk(body) if H.tag(x) == "call" and (H.call_path(x) or "").startswith(TRAIT + "::")]
            ok = False
            if len(calls) == 1:
                c = calls[0]
                args = H.call_args(c)
                ok = (H.call_path(c) == f"{TRAIT}::{prefix}read_protocol" and H.call_gargs(c)[:1] == ["M"] and len(args) == 2
                      and H.local_name(H.strip_refs(args[0])) == "r" and H.local_name(args[1]) == "protocol_version")
            if not ok:
                ctx.violate("coll.dispatch", f"{name}|call", f"{name}: does not call M::{prefix}read_protocol(&mut r, protocol_version) exactly once", fn["file"], fn["line"])
            # opcode gate (decided by interpretation in login.expect when that was possible)
            try:
                from ..minieval import Unsupported, Panic
                if login_expect_semantic(F, fn, prefix, "read_protocol", True) is None:
                    continue
            except (Unsupported, Panic):
                pass
            conds = [H.strip(x[1]) for x in H.walk(body) if H.tag(x) == "if"]
            gate = any(H.tag(c) == "bin" and c[2] == "Eq" and {H.local_name(c[4]) or H.path_of(c[4]), H.local_name(c[5]) or H.path_of(c[5])} == {"opcode", "crate::Message::OPCODE"} for c in conds)
            if not gate:
                ctx.violate("coll.dispatch", f"{name}|gate", f"{name}: the body is not guarded by `opcode == M::OPCODE`", fn["file"], fn["line"])
    return n


def check_assoc(ctx, F, impls):
    n = 0
    # payload types of each version's opcode enums, by message type name
    carried = {}
    for K in VERS.values():
        for side in ("Client", "Server"):
            adt = F.adt(f"crate::logon::version_{K}::opcodes::{side}OpcodeMessage")
            if adt is None:
                ctx.violate("coll.assoc", f"anchor|v{K}|{side}", f"version_{K}::opcodes::{side}OpcodeMessage not found")
                continue
            for var in adt["variants"]:
                if len(var[2]) == 1:
                    ty = var[2][0][1]
                    carried.setdefault(K, {})[short_ty(ty)] = ty
    for impl, assoc in impls:
        name = short_ty(impl["self_ty"])
        for K in VERS.values():
            got = assoc.get(f"Version{K}")
            want = carried.get(K, {}).get(name)
            if want is None:
                # the message does not exist in version K's opcode enum: nothing to agree with
                continue
            n += 1
            if got != want:
                ctx.violate("coll.assoc", f"{name}|v{K}", f"<{name} as CollectiveMessage>::Version{K} is {got}, but version_{K}'s opcode enum carries {want} for this message", impl["file"], impl["line"])
        if assoc.get("Version8") != impl["self_ty"]:
            ctx.violate("coll.assoc", f"{name}|self", f"{name}: Version8 is {assoc.get('Version8')}, not the implementing type", impl["file"], impl["line"])
    return n


def collect_impls(F):
    impls = []
    for r in F.impls():
        if r.get("trait") == TRAIT:
            assoc = {it[1]: it[3] for it in r["items"] if it[0] == "type"}
            impls.append((r, assoc))
    by_self = {r["self_ty"]: a for r, a in impls}
    proj = re.compile(r"^<(.+) as " + re.escape(TRAIT) + r">::(Version\d)$")
    for r, assoc in impls:
        for k in list(assoc):
            for _ in range(8):
                m = proj.match(assoc[k])
                if not m or m.group(1) not in by_self:
                    break
                assoc[k] = by_self[m.group(1)][m.group(2)]
    return impls


_LOGIN_SEM = set()


def login_expect_semantic(F, fn, prefix, callee, proto):
    """the helper interpreted on a stream that starts with the opcode byte, with M::OPCODE = 0x12 and the decoder as an observation point:
    byte 0x12 -> exactly one byte consumed before the decoder runs once on the same reader (with the caller's protocol version) and its
    result is returned; bytes 0x13, 0x02, 0x00, 0xff -> one byte consumed, no decode, Err(ExpectedOpcodeError::Opcode(byte)).
    -> message or None; raises Unsupported when not interpretable"""
    from ..minieval import Mini, Stream
    for byte in (0x12, 0x13, 0x02, 0x00, 0xFF):
        m = Mini({"wow_login_messages": F}, "wow_login_messages")
        m.consts = {"crate::Message::OPCODE": 0x12}
        st = Stream([byte, 0x55, 0x66, 0x77])
        log = []

        def dec(a, log=log, st=st):
            log.append((st.pos, [_deref(x) for x in a]))
            return ("Ok", ("decoded",))
        m.overrides = {f"::Message::{prefix}{callee}": dec, f"::CollectiveMessage::{prefix}{callee}": dec}
        pv = ("variant", "wow_login_messages::manual::protocol_version::ProtocolVersion::Five")
        res = m.call_fn(fn["path"], [st] + ([pv] if proto else []))
        if isinstance(res, tuple) and res and res[0] == "closure":
            res = m.apply(res, [])
        if byte == 0x12:
            if len(log) != 1 or res != ("Ok", ("decoded",)):
                return f"a stream that starts with M::OPCODE is not decoded exactly once with the decoder's result returned (decoder calls: {len(log)}, result {str(res)[:60]})"
            if log[0][0] != 1:
                return f"the decoder starts after {log[0][0]} byte(s) of the stream were consumed, the opcode is one byte"
            if log[0][1][0] is not st or (proto and log[0][1][-1] != pv):
                return "the decoder is not given the caller's reader" + (" and protocol version" if proto else "")
        else:
            ok = isinstance(res, tuple) and res[0] == "Err" and isinstance(res[1], tuple) and res[1][0] == "variant" and str(res[1][1]).endswith("ExpectedOpcodeError::Opcode") and list(res[1][2]) == [byte]
            if log:
                return f"a stream that starts with opcode {byte:#x} is decoded as M although M::OPCODE is 0x12"
            if not ok:
                return f"for the opcode byte {byte:#x} (M::OPCODE = 0x12) the helper does not return ExpectedOpcodeError::Opcode({byte}): {str(res)[:100]}"
            if st.pos != 1:
                return f"{st.pos} bytes are consumed before the opcode mismatch is reported, the opcode is one byte"
    return None


def check_login_expect(ctx):
    """login.expect (shared by C04 and C01): the typed login expect helpers - plain and protocol-parameterised, 3 flavours - read
    one opcode byte, decode M only when it equals M::OPCODE (the read sits in the then-branch of exactly that test) and otherwise
    return an Opcode error carrying the byte that was read"""
    from .. import opcodes
    F = facts("wow_login_messages")
    n = 0
    for module, suffix, callee_trait, callee in (("crate::helper::expected", "", "crate::Message", "read"), ("crate::helper::expected_protocol", "_protocol", TRAIT, "read_protocol")):
        for prefix in ("", "tokio_", "astd_"):
            for side in ("client", "server"):
                name = f"{prefix}expect_{side}_message{suffix}"
                fn = F.fn(f"{module}::{name}")
                if fn is None:
                    ctx.violate("login.expect", f"anchor|{name}", f"{module}::{name} not found (anchor disappeared)")
                    continue
                n += 1
                try:
                    from ..minieval import Unsupported, Panic
                    why = login_expect_semantic(F, fn, prefix, callee, bool(suffix))
                    if why:
                        ctx.violate("login.expect", f"{name}|gate", f"{name}: {why}", fn["file"], fn["line"])
                    _LOGIN_SEM.add(name)
                    continue
                except (Unsupported, Panic):
                    pass
                body = H.unwrap_async(fn["hir"])
                # the opcode byte
                lets = [x for x in H.walk(body) if isinstance(x, list) and x and x[0] == "let" and H.tag(x[1]) == "bind" and x[1][1] == "opcode"]
                src = None
                if len(lets) == 1 and lets[0][2] is not None:
                    core = lets[0][2]
                    while H.tag(H.strip(core)) in ("try", "await"):
                        core = H.strip(core)[1]
                    core = H.strip(core)
                    if H.tag(core) == "call":
                        src = (H.call_path(core) or "").split("::")[-1]
                if src != f"{prefix}read_u8_le":
                    ctx.violate("login.expect", f"{name}|opcode-read", f"{name}: `opcode` is not the single byte read by {prefix}read_u8_le (found {src})", fn["file"], fn["line"])
                ifs = [x for x in H.walk(body) if H.tag(x) == "if"]
                gates = []
                for x in ifs:
                    c = H.strip(x[1])
                    if H.tag(c) == "bin" and c[2] == "Eq" and {H.local_name(c[4]) or H.path_of(c[4]), H.local_name(c[5]) or H.path_of(c[5])} == {"opcode", "crate::Message::OPCODE"}:
                        gates.append(x)
                if len(gates) != 1 or len(ifs) != 1:
                    conds = [H.short(x[1], maxlen=60) for x in ifs]
                    ctx.violate("login.expect", f"{name}|gate", f"{name}: the decode is not guarded by exactly one test `opcode == M::OPCODE` (conditions found: {conds})", fn["file"], fn["line"])
                    continue
                g = gates[0]
                want_path = f"{callee_trait}::{prefix}{callee}"
                all_calls = [x for x in H.walk(body) if H.tag(x) == "call" and (H.call_path(x) or "").startswith(callee_trait + "::")]
                then_calls = [x for x in H.walk(g[2]) if H.tag(x) == "call" and H.call_path(x) == want_path and H.call_gargs(x)[:1] == ["M"]]
                if len(all_calls) != 1 or len(then_calls) != 1:
                    ctx.violate("login.expect", f"{name}|call", f"{name}: M::{prefix}{callee} is not called exactly once, inside the `opcode == M::OPCODE` branch", fn["file"], fn["line"])
                els = g[3]
                if els is None or not opcodes.is_err_opcode("wow_login_messages", H.strip(els)[2] if H.tag(H.strip(els)) == "block" and not H.strip(els)[1] else els, {"opcode"}):
                    ctx.violate("login.expect", f"{name}|else", f"{name}: when the opcode differs the helper does not return ExpectedOpcodeError::Opcode carrying the byte that was read: {H.short(els, maxlen=120) if els is not None else 'no else branch'}", fn["file"], fn["line"])
    ctx.rule("login.expect", n, floor=12, note="login expect_*_message and expect_*_message_protocol helpers (3 flavours x 2 directions x 2): opcode byte, gate, decode call, offending opcode reported")


def check_protocol_routing(ctx):
    """shared with C01 and C04: the protocol-parameterised readers / writers hand protocol version K to version K's own codec
    (coll.dispatch + coll.assoc), so that what C01 / C04 decide per version-specific codec also holds on this public path"""
    F = facts("wow_login_messages")
    d = check_dispatch(ctx, F)
    ctx.rule("coll.dispatch", d, floor=12, note="protocol-parameterised default methods (3 flavours x read/write) and expect_*_message_protocol helpers")
    a = check_assoc(ctx, F, collect_impls(F))
    ctx.rule("coll.assoc", a, floor=75, note="normalised VersionK associated types vs the payload types of version K's opcode enums")
    check_login_expect(ctx)


def run(ctx):
    F = facts("wow_login_messages")
    pv = F.adt(PV)
    if pv is None or [v[0] for v in pv["variants"]] != list(VERS):
        ctx.violate("coll.dispatch", "protocol-version", f"ProtocolVersion variants are {[v[0] for v in pv['variants']] if pv else None}, expected {list(VERS)}")
    impls = []
    for r in F.impls():
        if r.get("trait") == TRAIT:
            assoc = {it[1]: it[3] for it in r["items"] if it[0] == "type"}
            impls.append((r, assoc))
    # rustc prints `type Version3 = Self::Version2` as a projection: normalise through the impl table
    by_self = {r["self_ty"]: a for r, a in impls}
    proj = re.compile(r"^<(.+) as " + re.escape(TRAIT) + r">::(Version\d)$")
    for r, assoc in impls:
        for k in list(assoc):
            for _ in range(8):
                m = proj.match(assoc[k])
                if not m or m.group(1) not in by_self:
                    break
                assoc[k] = by_self[m.group(1)][m.group(2)]
    pairs = 0
    cases = 0
    for impl, assoc in impls:
        a, c = roundtrip(ctx, F, impl, assoc)
        pairs += a
        cases += c
    ctx.rule("coll.identity", pairs, floor=75, note=f"(family, version) round trips evaluated symbolically; {cases} shape cases explored over {len(impls)} families")
    d = check_dispatch(ctx, F)
    ctx.rule("coll.dispatch", d, floor=12, note="protocol-parameterised default methods (3 flavours x read/write) and expect_*_message_protocol helpers")
    a = check_assoc(ctx, F, impls)
    ctx.rule("coll.assoc", a, floor=75, note="normalised VersionK associated types vs the payload types of version K's opcode enums")
    check_login_expect(ctx)
    # the opcode-level protocol readers (version_8::opcodes::*OpcodeMessage::*read_protocol) choose the message from the opcode
    # table and must hand their own protocol_version on (rule shared with C01)
    from .. import opcodes
    from ..world import LOGIN_SCOPES
    o = 0
    for scope, crate, mod, ver in LOGIN_SCOPES:
        if ver == max(v for _, _, _, v in LOGIN_SCOPES):
            for side, kinds in (("Client", ("clogin",)), ("Server", ("slogin",))):
                o += opcodes.check_enum(ctx, "opc.table", crate, f"{mod}::opcodes::{side}OpcodeMessage", opcodes.LOGIN_READERS, scope, kinds, True)
    ctx.rule("opc.table", o, floor=100, note="arms of the collective opcode enums' read / read_protocol functions (3 flavours) against the wowm opcodes; protocol_version handed on unchanged")
    ctx.analysed.update({"families": len(impls), "shape_cases": cases})
    ctx.sample({"families": sorted(short_ty(i["self_ty"]) for i, _ in impls)})
    ctx.assume("canonical values only: a generated flag struct's raw bits equal the members present (plus symbolic bits of member-less enumerators); "
               "unknown flag bits of non-canonical values are outside the statement")
    ctx.assume("the version-K codecs themselves (VersionK::read/write) are decided by C01/C06; std Clone/collect/map are modelled by their contracts")
    return "other", EXPLANATION, {}
