"""C01-D4 — hand-written leaf codecs (strings, packed guid): bounded abstract interpretation over all input classes."""
from ..facts import facts
from ..minieval import Mini, Panic, Sink, Stream, Tok, Unsupported, Wide, to_wide

EXTRA = 4  # bytes of the *next* member placed after the leaf's own bytes: none of them may be consumed


def _toks(classes):
    return [Tok(i, c) for i, c in enumerate(classes)]


def _run(mini, path, args):
    try:
        return mini.call_fn(path, args), None
    except Panic as e:
        return None, f"panics: {e}"
    except Unsupported as e:
        return None, f"shape not recognised — review ({e})"
    except RecursionError:
        return None, "shape not recognised — review (recursion)"


def check_cstring(ctx, FB, crate, fn):
    """reader must return exactly the bytes before the first NUL and consume them plus the NUL, for every length 0..=255"""
    n_cases = 0
    for n in range(0, 256):
        toks = _toks(["nz"] * n + ["z"] + ["any"] * EXTRA)
        st = Stream(toks)
        mini = Mini(FB, crate)
        res, err = _run(mini, fn["path"], [st])
        n_cases += 1
        why = err
        if why is None:
            if not (isinstance(res, tuple) and res[0] == "Ok"):
                why = f"returns {res!r}"
            elif res[1] != toks[:n]:
                why = f"returns {len(res[1])} bytes, the string has {n}"
            elif st.pos != n + 1:
                why = (f"consumes {st.pos} bytes of the stream, the encoding is {n} bytes + NUL = {n + 1}: "
                       f"{'the terminator is left in the stream and every later member is decoded one byte early' if st.pos == n else 'bytes of the next member are consumed'}")
        if why:
            ctx.violate("leaf.codecs", f"{crate}::{fn['path']}|cstring", f"{fn['path']}: CString of {n} characters followed by other members: {why}", fn["file"], fn["line"], length=n)
            break
    return n_cases


def check_sized_cstring(ctx, FB, crate, fn):
    n_cases = 0
    for n in list(range(0, 300)) + [7999]:
        toks = _toks(["any"] * n + ["z"] + ["any"] * EXTRA)
        st = Stream(toks)
        res, err = _run(Mini(FB, crate), fn["path"], [st, n + 1])
        n_cases += 1
        why = err
        if why is None:
            if not (isinstance(res, tuple) and res[0] == "Ok"):
                why = f"returns {res!r}"
            elif res[1] != toks[:n]:
                why = f"returns {len(res[1])} bytes, the string has {n}"
            elif st.pos != n + 1:
                why = f"consumes {st.pos} bytes, the encoding after the length prefix is {n + 1} bytes"
        if why:
            ctx.violate("leaf.codecs", f"{crate}::{fn['path']}|sized-cstring", f"{fn['path']}: SizedCString with length field {n + 1}: {why}", fn["file"], fn["line"], length=n)
            break
    # hostile length fields must be rejected, not panic or allocate
    for size in (0, 0xFFFFFFFF, 0x7FFFFFFF):
        st = Stream(_toks(["any"] * 8))
        res, err = _run(Mini(FB, crate), fn["path"], [st, size])
        n_cases += 1
        if err or not (isinstance(res, tuple) and res[0] == "Err"):
            ctx.violate("leaf.codecs", f"{crate}::{fn['path']}|sized-cstring|hostile", f"{fn['path']}: length field {size:#x}: {err or 'accepted: ' + repr(res)[:80]}", fn["file"], fn["line"])
            break
    return n_cases


def check_fixed_string(ctx, FB, crate, fn):
    n_cases = 0
    for n in range(0, 256):
        toks = _toks(["any"] * (n + EXTRA))
        st = Stream(toks)
        res, err = _run(Mini(FB, crate), fn["path"], [st, n])
        n_cases += 1
        why = err
        if why is None:
            if not (isinstance(res, tuple) and res[0] == "Ok") or res[1] != toks[:n]:
                why = f"does not return exactly the {n} bytes that follow the length prefix"
            elif st.pos != n:
                why = f"consumes {st.pos} bytes instead of {n}"
        if why:
            ctx.violate("leaf.codecs", f"{crate}::{fn['path']}|string", f"{fn['path']}: String with length prefix {n}: {why}", fn["file"], fn["line"], length=n)
            break
        # truncated input must be an error, never a short string
        if n > 0:
            st = Stream(toks[:n - 1])
            res, err = _run(Mini(FB, crate), fn["path"], [st, n])
            n_cases += 1
            if err or not (isinstance(res, tuple) and res[0] == "Err"):
                ctx.violate("leaf.codecs", f"{crate}::{fn['path']}|string|truncated", f"{fn['path']}: stream ends after {n - 1} of {n} string bytes: {err or 'returns ' + repr(res)[:60] + ' instead of an error'}", fn["file"], fn["line"])
                break
    return n_cases


def check_packed_guid(ctx, FB, crate, rd, wr, sz):
    n_cases = 0
    guid_new = "wow_world_base::manual::shared::guid_vanilla_tbc_wrath::Guid::new"
    for mask in range(256):
        slots = [Tok(i, "nz") if mask & (1 << i) else 0 for i in range(8)]
        mini = Mini(FB, crate)
        g, err = _run(mini, guid_new, [Wide(slots)])
        if err:
            ctx.violate("leaf.codecs", f"{crate}|packed-guid|guid-new", f"Guid::new: {err}")
            return n_cases
        sink = Sink()
        res, err = _run(Mini(FB, crate), wr["path"], [g, sink])
        n_cases += 1
        want = [mask] + [s for s in slots if s != 0]
        key = f"{crate}::{wr['path']}|packed-guid"
        if err or not (isinstance(res, tuple) and res[0] == "Ok"):
            ctx.violate("leaf.codecs", key, f"{wr['path']}: guid with non-zero bytes {mask:#010b}: {err or res}", wr["file"], wr["line"])
            break
        if sink.out != want:
            ctx.violate("leaf.codecs", key, f"{wr['path']}: guid with non-zero bytes {mask:#010b} is written as {sink.out}, the packed form is mask byte {mask:#x} followed by the non-zero bytes in ascending order {want[1:]}", wr["file"], wr["line"])
            break
        if sz is not None:
            s, err = _run(Mini(FB, crate), sz["path"], [g])
            if err or s != len(want):
                ctx.violate("leaf.codecs", f"{crate}::{sz['path']}|packed-guid-size", f"{sz['path']}: reports {s if not err else err} for a guid with non-zero bytes {mask:#010b}, {len(want)} bytes are written", sz["file"], sz["line"])
                break
        st = Stream(sink.out + _toks(["any"] * EXTRA))
        res, err = _run(Mini(FB, crate), rd["path"], [st])
        keyr = f"{crate}::{rd['path']}|packed-guid"
        if err or not (isinstance(res, tuple) and res[0] == "Ok"):
            ctx.violate("leaf.codecs", keyr, f"{rd['path']}: packed guid with mask {mask:#010b}: {err or res}", rd["file"], rd["line"])
            break
        got = res[1]
        gv = got[2].get("guid") if isinstance(got, tuple) and got[0] == "struct" else None
        if gv is None or to_wide(gv, 8) != Wide(slots):
            ctx.violate("leaf.codecs", keyr, f"{rd['path']}: packed guid with mask {mask:#010b} decodes to {gv!r}, the written guid was {slots}", rd["file"], rd["line"])
            break
        if st.pos != len(want):
            ctx.violate("leaf.codecs", keyr, f"{rd['path']}: packed guid with mask {mask:#010b}: consumes {st.pos} bytes, {len(want)} were written", rd["file"], rd["line"])
            break
    return n_cases


def run(ctx):
    FB = {c: facts(c) for c in ("wow_world_messages", "wow_world_base", "wow_login_messages")}
    fns = 0
    cases = 0
    found = {"cstring": 0, "sized": 0, "fixed": 0, "guid": 0}
    for crate in ("wow_world_messages", "wow_login_messages"):
        F = FB[crate]
        for fn in F.all("fn", lambda p: p.startswith("crate::util::")):
            nm = fn["name"]
            base = nm.replace("tokio_", "").replace("astd_", "")
            if base == "read_c_string_to_vec":
                cases += check_cstring(ctx, FB, crate, fn)
                found["cstring"] += 1
                fns += 1
            elif base == "read_sized_c_string_to_vec":
                cases += check_sized_cstring(ctx, FB, crate, fn)
                found["sized"] += 1
                fns += 1
            elif base == "read_fixed_string_to_vec":
                cases += check_fixed_string(ctx, FB, crate, fn)
                found["fixed"] += 1
                fns += 1
    F = FB["wow_world_messages"]
    rd = F.fn("crate::util::functions::shared::read_packed_guid")
    wr = F.fn("crate::util::functions::shared::write_packed_guid")
    sz = F.fn("crate::util::functions::shared::packed_guid_size")
    if rd is None or wr is None or sz is None:
        ctx.violate("leaf.codecs", "anchor|packed-guid", "read_packed_guid / write_packed_guid / packed_guid_size not found (anchor disappeared)")
    else:
        cases += check_packed_guid(ctx, FB, "wow_world_messages", rd, wr, sz)
        found["guid"] = 3
        fns += 3
    for k, floor in (("cstring", 4), ("sized", 1), ("fixed", 3)):
        if found[k] < floor:
            ctx.violate("leaf.codecs", f"anchor|{k}", f"only {found[k]} {k} string readers found, expected at least {floor} (anchor disappeared)")
    ctx.rule("leaf.codecs", fns, floor=11, note=f"hand-written string / packed-guid codecs interpreted over {cases} input classes (every length 0..=255, every packed-guid mask)")
    ctx.assume("leaf codecs are decided per input class by abstract interpretation (bytes carry identity and a zero/non-zero class; lengths, counters and masks are concrete); "
               "the UTF-8 conversion of the returned bytes is std's String::from_utf8 (trusted)")
    return cases
