"""C01-D4 — hand-written leaf codecs (strings, packed guid): bounded abstract interpretation over all input classes."""
from ..facts import facts
from .. import hir as H
from ..minieval import Mini, Panic, Sink, Stream, Tok, Unsupported, Wide, to_wide

EXTRA = 4  # bytes of the *next* member placed after the leaf's own bytes: none of them may be consumed


def _toks(classes):
    return [Tok(i, c) for i, c in enumerate(classes)]


def _run(mini, path, args):
    try:
        return mini.call_fn(path, args), None
    except Panic as e:
        return None, f"panics: {e}"
    except Unsupported as e:
        return None, f"shape not recognised — review ({e})"
    except RecursionError:
        return None, "shape not recognised — review (recursion)"


def check_cstring(ctx, FB, crate, fn):
    """reader must return exactly the bytes before the first NUL and consume them plus the NUL, for every length 0..=255"""
    n_cases = 0
    for n in range(0, 257):
        toks = _toks(["nz"] * n + ["z"] + ["any"] * EXTRA)
        st = Stream(toks)
        mini = Mini(FB, crate)
        res, err = _run(mini, fn["path"], [st])
        n_cases += 1
        why = err
        if why is None:
            if not (isinstance(res, tuple) and res[0] == "Ok"):
                why = f"returns {res!r}"
            elif res[1] != toks[:n]:
                why = f"returns {len(res[1])} bytes, the string has {n}"
            elif st.pos != n + 1:
                why = (f"consumes {st.pos} bytes of the stream, the encoding is {n} bytes + NUL = {n + 1}: "
                       f"{'the terminator is left in the stream and every later member is decoded one byte early' if st.pos == n else 'bytes of the next member are consumed'}")
        if why:
            ctx.violate("leaf.codecs", f"{crate}::{fn['path']}|cstring", f"{fn['path']}: CString of {n} characters followed by other members: {why}", fn["file"], fn["line"], length=n)
            break
    return n_cases


def check_bool_reader(ctx, FB, crate, fn, width):
    """read_bool_uN: consumes exactly N bytes; false iff all of them are zero"""
    n_cases = 0
    pats = [["z"] * width] + [["z"] * i + ["nz"] + ["z"] * (width - i - 1) for i in range(width)] + [["nz"] * width]
    for cls in pats:
        toks = _toks(cls + ["any"] * EXTRA)
        st = Stream(toks)
        res, err = _run(Mini(FB, crate), fn["path"], [st])
        n_cases += 1
        want = any(c == "nz" for c in cls)
        why = err
        if why is None:
            if not (isinstance(res, tuple) and res[0] == "Ok" and isinstance(res[1], bool)):
                why = f"returns {res!r}"
            elif st.pos != width:
                why = f"consumes {st.pos} bytes, the wire type has {width}"
            elif res[1] != want:
                why = f"returns {res[1]} for the byte classes {cls} (0 means false and every other value true)"
        if why:
            ctx.violate("leaf.codecs", f"{crate}::{fn['path']}|bool", f"{fn['path']}: Bool of {width} byte(s): {why}", fn["file"], fn["line"])
            break
    return n_cases


def check_assert_empty(ctx, FB):
    """assert_empty(body_size, ..): Ok exactly for 0 (the size guard of messages without a body, used by C04/C09)"""
    F = FB["wow_world_messages"]
    fn = F.fn("crate::util::functions::shared::assert_empty")
    if fn is None:
        ctx.violate("leaf.codecs", "anchor|assert_empty", "util::functions::shared::assert_empty not found (anchor disappeared)")
        return 0
    n = 0
    for size in (0, 1, 2, 255, 256, 0xFFFF, 0xFFFFFFFF):
        n += 1
        m = Mini(FB, "wow_world_messages")
        m.overrides = {"::ParseError::new": lambda a: ("parse-error",), "std::convert::Into::into": lambda a: a[0]}
        res, err = _run(m, fn["path"], [size, 0x1DC, "MSG"])
        ok = isinstance(res, tuple) and res[0] == ("Ok" if size == 0 else "Err")
        if err or not ok:
            ctx.violate("leaf.codecs", "wow_world_messages::assert_empty", f"assert_empty(body_size = {size}) {err or 'returns ' + repr(res)[:80]}: a message without body members must be accepted exactly when the body is empty",
                        fn["file"], fn["line"])
            break
    return n


def check_guid_reader(ctx, FB, crate, fn):
    """read_guid: 8 bytes, little endian, handed to Guid::new unchanged"""
    toks = _toks(["any"] * (8 + EXTRA))
    st = Stream(toks)
    res, err = _run(Mini(FB, crate), fn["path"], [st])
    why = err
    if why is None:
        v = res[1] if isinstance(res, tuple) and res[0] == "Ok" else None
        inner = v[2].get("guid") if isinstance(v, tuple) and v and v[0] == "struct" else None
        if inner is None:
            why = f"returns {res!r}"
        elif st.pos != 8:
            why = f"consumes {st.pos} bytes, a Guid has 8"
        elif to_wide(inner, 8).slots != toks[:8]:
            why = f"the Guid holds {inner!r}, the wire bytes in little-endian order are {toks[:8]}"
    if why:
        ctx.violate("leaf.codecs", f"{crate}::{fn['path']}|guid", f"{fn['path']}: {why}", fn["file"], fn["line"])
    return 1


def check_sized_cstring(ctx, FB, crate, fn):
    n_cases = 0
    for n in list(range(0, 300)) + [7999]:
        toks = _toks(["any"] * n + ["z"] + ["any"] * EXTRA)
        st = Stream(toks)
        res, err = _run(Mini(FB, crate), fn["path"], [st, n + 1])
        n_cases += 1
        why = err
        if why is None:
            if not (isinstance(res, tuple) and res[0] == "Ok"):
                why = f"returns {res!r}"
            elif res[1] != toks[:n]:
                why = f"returns {len(res[1])} bytes, the string has {n}"
            elif st.pos != n + 1:
                why = f"consumes {st.pos} bytes, the encoding after the length prefix is {n + 1} bytes"
        if why:
            ctx.violate("leaf.codecs", f"{crate}::{fn['path']}|sized-cstring", f"{fn['path']}: SizedCString with length field {n + 1}: {why}", fn["file"], fn["line"], length=n)
            break
    # hostile length fields must be rejected, not panic or allocate
    for size in (0, 0xFFFFFFFF, 0x7FFFFFFF):
        st = Stream(_toks(["any"] * 8))
        res, err = _run(Mini(FB, crate), fn["path"], [st, size])
        n_cases += 1
        if err or not (isinstance(res, tuple) and res[0] == "Err"):
            ctx.violate("leaf.codecs", f"{crate}::{fn['path']}|sized-cstring|hostile", f"{fn['path']}: length field {size:#x}: {err or 'accepted: ' + repr(res)[:80]}", fn["file"], fn["line"])
            break
    return n_cases


def check_fixed_string(ctx, FB, crate, fn):
    n_cases = 0
    for n in range(0, 256):
        toks = _toks(["any"] * (n + EXTRA))
        st = Stream(toks)
        res, err = _run(Mini(FB, crate), fn["path"], [st, n])
        n_cases += 1
        why = err
        if why is None:
            if not (isinstance(res, tuple) and res[0] == "Ok") or res[1] != toks[:n]:
                why = f"does not return exactly the {n} bytes that follow the length prefix"
            elif st.pos != n:
                why = f"consumes {st.pos} bytes instead of {n}"
        if why:
            ctx.violate("leaf.codecs", f"{crate}::{fn['path']}|string", f"{fn['path']}: String with length prefix {n}: {why}", fn["file"], fn["line"], length=n)
            break
        # truncated input must be an error, never a short string
        if n > 0:
            st = Stream(toks[:n - 1])
            res, err = _run(Mini(FB, crate), fn["path"], [st, n])
            n_cases += 1
            if err or not (isinstance(res, tuple) and res[0] == "Err"):
                ctx.violate("leaf.codecs", f"{crate}::{fn['path']}|string|truncated", f"{fn['path']}: stream ends after {n - 1} of {n} string bytes: {err or 'returns ' + repr(res)[:60] + ' instead of an error'}", fn["file"], fn["line"])
                break
    return n_cases


def check_packed_guid(ctx, FB, crate, rd, wr, sz):
    n_cases = 0
    guid_new = "wow_world_base::manual::shared::guid_vanilla_tbc_wrath::Guid::new"
    for mask in range(256):
        slots = [Tok(i, "nz") if mask & (1 << i) else 0 for i in range(8)]
        mini = Mini(FB, crate)
        g, err = _run(mini, guid_new, [Wide(slots)])
        if err:
            ctx.violate("leaf.codecs", f"{crate}|packed-guid|guid-new", f"Guid::new: {err}")
            return n_cases
        sink = Sink()
        res, err = _run(Mini(FB, crate), wr["path"], [g, sink])
        n_cases += 1
        want = [mask] + [s for s in slots if s != 0]
        key = f"{crate}::{wr['path']}|packed-guid"
        if err or not (isinstance(res, tuple) and res[0] == "Ok"):
            ctx.violate("leaf.codecs", key, f"{wr['path']}: guid with non-zero bytes {mask:#010b}: {err or res}", wr["file"], wr["line"])
            break
        if sink.out != want:
            ctx.violate("leaf.codecs", key, f"{wr['path']}: guid with non-zero bytes {mask:#010b} is written as {sink.out}, the packed form is mask byte {mask:#x} followed by the non-zero bytes in ascending order {want[1:]}", wr["file"], wr["line"])
            break
        if sz is not None:
            s, err = _run(Mini(FB, crate), sz["path"], [g])
            if err:
                # the size is computed by arithmetic on the whole value (not byte by byte): decide it on representatives of the class
                # "non-zero bytes exactly at `mask`" - every non-zero byte 0x01 / 0x80 / 0xFF and alternating 0x01, 0xFF
                for fill in ((0x01,), (0x80,), (0xFF,), (0x01, 0xFF), (0xFF, 0x01)):
                    val, k = 0, 0
                    for i in range(8):
                        if mask & (1 << i):
                            val |= fill[k % len(fill)] << (8 * i)
                            k += 1
                    gc, e2 = _run(Mini(FB, crate), guid_new, [val])
                    s, err = _run(Mini(FB, crate), sz["path"], [gc]) if not e2 else (None, e2)
                    if err or s != len(want):
                        s = f"{s if not err else err} for the guid {val:#018x}"
                        err = None
                        break
            if err or s != len(want):
                ctx.violate("leaf.codecs", f"{crate}::{sz['path']}|packed-guid-size", f"{sz['path']}: reports {s if not err else err} for a guid with non-zero bytes {mask:#010b}, {len(want)} bytes are written", sz["file"], sz["line"])
                break
        st = Stream(sink.out + _toks(["any"] * EXTRA))
        res, err = _run(Mini(FB, crate), rd["path"], [st])
        keyr = f"{crate}::{rd['path']}|packed-guid"
        if err or not (isinstance(res, tuple) and res[0] == "Ok"):
            ctx.violate("leaf.codecs", keyr, f"{rd['path']}: packed guid with mask {mask:#010b}: {err or res}", rd["file"], rd["line"])
            break
        got = res[1]
        gv = got[2].get("guid") if isinstance(got, tuple) and got[0] == "struct" else None
        if gv is None or to_wide(gv, 8) != Wide(slots):
            ctx.violate("leaf.codecs", keyr, f"{rd['path']}: packed guid with mask {mask:#010b} decodes to {gv!r}, the written guid was {slots}", rd["file"], rd["line"])
            break
        if st.pos != len(want):
            ctx.violate("leaf.codecs", keyr, f"{rd['path']}: packed guid with mask {mask:#010b}: consumes {st.pos} bytes, {len(want)} were written", rd["file"], rd["line"])
            break
    return n_cases


# ---- hand-written mask / conditional built-ins: bytes -> value -> bytes must be the identity, size() = bytes ------------
M = "crate::manual::"
# type -> (mask width in bytes per the type's documentation page, element bytes generator(index) or None for plain tokens)
BUILTINS = {
    M + "vanilla::aura_mask::AuraMask": (4, 2, "aura-mask.md: 32 bit pattern, u16 members"),
    M + "tbc::aura_mask::AuraMask": (8, 3, "aura-mask.md: 64 bit pattern, Aura members (u16 + u8)"),
    M + "wrath::aura_mask::AuraMask": (8, 5, "aura-mask.md: 64 bit pattern, Aura members (u32 + u8)"),
    M + "wrath::cache_mask::CacheMask": (4, 4, "cache-mask.md: 32 bit pattern, u32 members"),
    M + "wrath::enchant_mask::EnchantMask": (2, 2, "enchant-mask.md: 16 bit pattern, u16 members"),
    M + "wrath::inspect_talent_gear_mask::InspectTalentGearMask": (4, "gear", "inspect-talent-gear-mask.md: 32 bit pattern, InspectTalentGear members"),
}


def _mask_patterns(bits):
    pats = [0, (1 << bits) - 1]
    pats += [1 << i for i in range(bits)]
    pats += [0x5 | (1 << (bits - 1)), int("0110" * (bits // 4), 2), (1 << (bits // 2)) | 1]
    return pats


class _Counter:
    def __init__(self):
        self.n = 1000

    def toks(self, k, cls="any"):
        out = [Tok(self.n + i, cls) for i in range(k)]
        self.n += k
        return out


def _element(kind, c):
    if kind == "gear":
        # InspectTalentGear: Item(u32) EnchantMask(u16 mask + u16 each) u16 PackedGuid(mask byte + non-zero bytes) u32
        return c.toks(4) + [0x03, 0x00] + c.toks(4) + c.toks(2) + [0x05] + c.toks(2, "nz") + c.toks(4)
    return c.toks(kind)


def same_bytes(a, b):
    """byte sequences equal; a zero-class token is the byte 0"""
    if len(a) != len(b):
        return False
    for x, y in zip(a, b):
        if x == y:
            continue
        if (isinstance(x, Tok) and x.cls == "z" and y == 0) or (isinstance(y, Tok) and y.cls == "z" and x == 0):
            continue
        return False
    return True


def check_builtins(ctx, FB):
    F = FB["wow_world_messages"]
    n_types = cases = 0
    for ty, (width, elem, why) in BUILTINS.items():
        rd, wr, sz = F.fn(ty + "::read"), F.fn(ty + "::write_into_vec"), F.fn(ty + "::size")
        if rd is None or wr is None or sz is None:
            ctx.violate("builtin.siblings", f"anchor|{ty}", f"{ty}: read / write_into_vec / size not found (anchor disappeared)")
            continue
        n_types += 1
        bits = width * 8
        for pat in _mask_patterns(bits):
            cases += 1
            c = _Counter()
            stream = [(pat >> (8 * i)) & 0xFF for i in range(width)]
            for i in range(bits):
                if pat & (1 << i):
                    stream += _element(elem, c)
            body_len = len(stream)
            stream = stream + c.toks(EXTRA)
            st = Stream(stream)
            key = f"wow_world_messages::{ty}"
            v, err = _run(Mini(FB, "wow_world_messages"), ty + "::read", [st])
            if err or not (isinstance(v, tuple) and v[0] == "Ok"):
                ctx.violate("builtin.siblings", key + "|read", f"{ty}::read, mask {pat:#x}: {err or v}", rd["file"], rd["line"])
                break
            if st.pos != body_len:
                ctx.violate("builtin.siblings", key + "|read-len", f"{ty}::read, mask {pat:#x}: consumes {st.pos} bytes, the encoding ({why}) has {body_len}", rd["file"], rd["line"])
                break
            sink = Sink()
            w, err = _run(Mini(FB, "wow_world_messages"), ty + "::write_into_vec", [v[1], sink])
            if err or not (isinstance(w, tuple) and w[0] == "Ok"):
                ctx.violate("builtin.siblings", key + "|write", f"{ty}::write_into_vec of a value decoded from mask {pat:#x}: {err or w}", wr["file"], wr["line"])
                break
            if not same_bytes(sink.out, stream[:body_len]):
                first = next((i for i, (a, b) in enumerate(zip(sink.out, stream)) if a != b), min(len(sink.out), body_len))
                ctx.violate("builtin.siblings", key + "|roundtrip",
                            f"{ty}: decoding the {body_len} bytes of an encoding with mask {pat:#x} and writing the value back gives {len(sink.out)} bytes that differ from the input at byte {first} "
                            f"(read and write disagree: {why})", wr["file"], wr["line"])
                break
            s, err = _run(Mini(FB, "wow_world_messages"), ty + "::size", [v[1]])
            if err or s != len(sink.out):
                ctx.violate("builtin.siblings", key + "|size", f"{ty}::size() = {s if not err else err} for a value that is written as {len(sink.out)} bytes (mask {pat:#x})", sz["file"], sz["line"])
                break
    # conditional built-ins
    for ty, variants in (
        (M + "shared::tbc_wrath_named_guid::NamedGuid", "named"),
        (M + "shared::tbc_wrath_variable_item_random_property::VariableItemRandomProperty", "varitem"),
    ):
        rd = F.fn(ty + "::read")
        if rd is None:
            ctx.violate("builtin.siblings", f"anchor|{ty}", f"{ty}::read not found (anchor disappeared)")
            continue
        n_types += 1
        streams = []
        c = _Counter()
        if variants == "named":
            streams.append([0] * 8)
            for nlen in (0, 1, 7):
                streams.append(c.toks(1, "nz") + c.toks(7) + c.toks(nlen, "nz") + c.toks(1, "z"))
        else:
            streams.append([0] * 4)
            # a non-zero id is followed by the factor whatever the factor is: a non-zero one and the value 0
            streams.append(c.toks(1, "nz") + c.toks(3) + c.toks(1, "nz") + c.toks(3))
            streams.append(c.toks(1, "nz") + c.toks(3) + [0, 0, 0, 0])
        for body in streams:
            cases += 1
            st = Stream(body + c.toks(EXTRA))
            key = f"wow_world_messages::{ty}"
            v, err = _run(Mini(FB, "wow_world_messages"), ty + "::read", [st])
            if err or not (isinstance(v, tuple) and v[0] == "Ok") or st.pos != len(body):
                what = err or (f"consumes {st.pos} bytes" if isinstance(v, tuple) and v[0] == "Ok" else repr(v))
                ctx.violate("builtin.siblings", key + "|read", f"{ty}::read of a {len(body)}-byte encoding: {what}", rd["file"], rd["line"])
                break
            sink = Sink()
            w, err = _run(Mini(FB, "wow_world_messages"), ty + "::write_into_vec", [v[1], sink])
            if err or not same_bytes(sink.out, body):
                ctx.violate("builtin.siblings", key + "|roundtrip", f"{ty}: writing back the value decoded from a {len(body)}-byte encoding gives {err or len(sink.out)} bytes / different bytes", rd["file"], rd["line"])
                break
            s, err = _run(Mini(FB, "wow_world_messages"), ty + "::size", [v[1]])
            if err or s != len(body):
                ctx.violate("builtin.siblings", key + "|size", f"{ty}::size() = {s if not err else err}, the value is written as {len(body)} bytes", rd["file"], rd["line"])
                break
    # monster-move splines: u32 count, first element a raw Vector3d, the rest packed into 4 bytes each. The packing pair is
    # treated as an opaque inverse pair here (its own lossiness is the known finding of taint.builtin-lossless); decided:
    # count field, element order, bytes consumed = bytes written = size().
    P = "crate::util::functions::shared::"
    rd, wr, sz = F.fn(P + "read_monster_move_spline"), F.fn(P + "write_monster_move_spline"), F.fn(P + "monster_move_spline_size")
    if rd is None or wr is None or sz is None:
        ctx.violate("builtin.siblings", "anchor|monster_move_spline", "read_monster_move_spline / write_monster_move_spline / monster_move_spline_size not found (anchor disappeared)")
    else:
        n_types += 1

        def unpack(a):
            return ("packedvec", a[0])

        def pack(a):
            if isinstance(a[0], tuple) and a[0] and a[0][0] == "packedvec":
                return a[0][1]
            raise Unsupported("vector3d_to_packed applied to an element that was not decoded by packed_to_vector3d")

        def mk():
            m = Mini(FB, "wow_world_messages")
            m.overrides = {"::packed_to_vector3d": unpack, "::vector3d_to_packed": pack}
            return m
        key = "wow_world_messages::" + P + "monster_move_spline"
        for n in range(0, 9):
            cases += 1
            c = _Counter()
            body = [n, 0, 0, 0] + (c.toks(12) if n else []) + c.toks(4 * max(n - 1, 0))
            st = Stream(body + c.toks(EXTRA))
            v, err = _run(mk(), P + "read_monster_move_spline", [st])
            if err or not (isinstance(v, tuple) and v[0] == "Ok") or st.pos != len(body) or len(v[1]) != n:
                what = err or (f"consumes {st.pos} bytes and returns {len(v[1])} elements" if isinstance(v, tuple) and v[0] == "Ok" else repr(v))
                ctx.violate("builtin.siblings", key + "|read", f"read_monster_move_spline on a {len(body)}-byte encoding of {n} points (count, 12-byte first point, 4 bytes per further point): {what}", rd["file"], rd["line"])
                break
            sink = Sink()
            w, err = _run(mk(), P + "write_monster_move_spline", [v[1], sink])
            if err or not same_bytes(sink.out, body):
                ctx.violate("builtin.siblings", key + "|roundtrip", f"write_monster_move_spline of the {n} points decoded from a {len(body)}-byte encoding gives {err or str(len(sink.out)) + ' bytes that differ from the input (count field, element order or element form)'}", wr["file"], wr["line"])
                break
            s2, err = _run(mk(), P + "monster_move_spline_size", [v[1]])
            if err or s2 != len(body):
                ctx.violate("builtin.siblings", key + "|size", f"monster_move_spline_size() = {s2 if not err else err} for {n} points that are written as {len(body)} bytes", sz["file"], sz["line"])
                break
    cases += check_wrappers(ctx, FB)
    t2, c2 = check_sentinel_arrays(ctx, FB)
    n_types += t2
    cases += c2
    ctx.rule("builtin.siblings", n_types, floor=11, note=f"hand-written mask / conditional built-ins: decode -> encode identity and size() over {cases} mask patterns / cases")
    return cases


W = "crate::util::functions::wrath::"

# hand-written value wrappers the generated codecs put between the wire and the field: (crate, decode fn, encode fn, wire bytes, float?)
_S = "crate::manual::shared::"
WRAPPERS = [
    ("wow_login_messages", "<crate::manual::population::Population as std::convert::From<f32>>::from", "crate::manual::population::Population::as_int", 4, True),
    ("wow_world_base", _S + "gold_vanilla_tbc_wrath::Gold::new", _S + "gold_vanilla_tbc_wrath::Gold::as_int", 4, False),
    ("wow_world_base", _S + "level_vanilla_tbc_wrath::Level::new", _S + "level_vanilla_tbc_wrath::Level::as_int", 1, False),
    ("wow_world_base", _S + "guid_vanilla_tbc_wrath::Guid::new", _S + "guid_vanilla_tbc_wrath::Guid::guid", 8, False),
]


def _f32(x):
    import struct
    return struct.unpack("<f", struct.pack("<f", x))[0]


def _f32_next(x, up):
    import struct
    i = struct.unpack("<I", struct.pack("<f", x))[0]
    i += 1 if (up == (x >= 0)) else -1
    return struct.unpack("<f", struct.pack("<I", i & 0xFFFFFFFF))[0]


def check_wrappers(ctx, FB):
    """encode(decode(v)) = v for the wrapper pairs, over a domain that is exhaustive for code that only *compares* the wire
    value with literals: the generic class (differs from every literal) + every literal + its neighbours."""
    n = cases = 0
    for crate, dec, enc, width, is_float in WRAPPERS:
        F = FB[crate]
        fd, fe = F.fn(dec), F.fn(enc)
        key = f"{crate}::{dec}"
        if fd is None or fe is None:
            ctx.violate("leaf.wrappers", f"anchor|{key}", f"{dec} / {enc} not found (anchor disappeared)")
            continue
        n += 1
        c = _Counter()
        v = Wide(c.toks(width)) if width > 1 else c.toks(1)[0]
        m = Mini(FB, crate)
        m.generic_ne = True
        r, err = _run(m, dec, [v])
        lits = set(m.generic_lits or ())
        cases += 1
        if err is None:
            m2 = Mini(FB, crate)
            m2.generic_ne = True
            e, err = _run(m2, enc, [r])
            if err is None and e != v:
                err = f"gives {e!r}"
        if err:
            ctx.violate("leaf.wrappers", f"{key}|generic", f"{enc.split('::')[-1]}({dec.split('::')[-2] if '::' in dec else dec}(v)) for a wire value v that differs from every literal in the code: {err} — "
                        f"the value is not handed through unchanged", fd["file"], fd["line"])
            continue
        # literals of both bodies, and their neighbours
        for fn in (fd, fe):
            for x in H.walk(fn["hir"]):
                if H.tag(x) == "lit" and x[1] in ("int", "float"):
                    try:
                        lits.add(float(x[2].replace("_", "").replace("f32", "")) if x[1] == "float" else int(x[2]))
                    except ValueError:
                        pass
        samples = set()
        for L in lits:
            if is_float:
                L = _f32(float(L))
                samples |= {L, _f32_next(L, True), _f32_next(L, False), _f32(L + 0.5), _f32(L - 0.5)}
            else:
                samples |= {x for x in (L, L + 1, L - 1) if 0 <= x < (1 << (8 * width))}
        for x in sorted(samples):
            cases += 1
            r, err = _run(Mini(FB, crate), dec, [x])
            e = None
            if err is None:
                e, err = _run(Mini(FB, crate), enc, [r])
            if err or e != x:
                ctx.violate("leaf.wrappers", f"{key}|{x!r}", f"{crate}: the wire value {x!r} decodes ({dec.split('>::')[-1].split('::')[-1]}) to {r!r} and is written back ({enc.split('::')[-1]}) as {err or repr(e)}: "
                            f"re-encoding does not reproduce the bytes", fd["file"], fd["line"])
                break
    ctx.rule("leaf.wrappers", n, floor=4, note=f"hand-written value wrappers (Population, Gold, Level, Guid): encode(decode(v)) = v over {cases} comparison classes (generic value, every literal, its neighbours)")
    return cases



def _opaque_datetime():
    """DateTime is decided by C15; here its conversion pair is an opaque inverse pair"""
    return {"DateTime as std::convert::TryFrom<u32>>::try_from": lambda a: ("Ok", ("dt", a[0])), "DateTime::as_int": lambda a: a[0][1]}


def _mk(FB, overrides):
    m = Mini(FB, "wow_world_messages")
    m.overrides = overrides
    return m


def _sentinel_body(kind, n, c):
    body, per = [], []
    for i in range(n):
        if kind == "done":
            e = [i + 1, 0, 0, 0] + c.toks(4)
        else:  # achievement, 2 packed guids (mask + non-zero bytes), bool32, DateTime, 2 x u32
            e = [i + 1, 0, 0, 0] + [0x01] + c.toks(1, "nz") + [0x05] + c.toks(2, "nz") + [1, 0, 0, 0] + c.toks(4) + c.toks(4) + c.toks(4)
        body += e
        per.append(len(e))
    return body + [0xFF] * 4, per


def measure_list_writers(FB):
    """bytes written by the hand-written list writers for 0..3 elements -> {fn name: [(n, total bytes, [element bytes])] or error}"""
    out = {}
    F = FB["wow_world_messages"]
    for kind in ("done", "in_progress"):
        name = "write_achievement_" + kind
        rows = []
        for n in range(0, 4):
            c = _Counter()
            body, per = _sentinel_body(kind, n, c)
            v, err = _run(_mk(FB, _opaque_datetime()), W + "read_achievement_" + kind, [Stream(body)])
            if err or not (isinstance(v, tuple) and v[0] == "Ok"):
                rows = f"read_achievement_{kind}: {err or v}"
                break
            sink = Sink()
            w, err = _run(_mk(FB, _opaque_datetime()), W + name, [v[1], sink])
            if err:
                rows = f"{name}: {err}"
                break
            rows.append((n, len(sink.out), per))
            if n == 3 and isinstance(v[1], list) and len(v[1]) == 3 and isinstance(v[1][1], tuple) and v[1][1][0] == "struct" and "achievement" in v[1][1][2]:
                # a value the API allows although no decode produces it: an entry whose id equals the end marker 0xFFFFFFFF. size() counts
                # every entry, so the writer has to write every entry
                import copy
                vals = copy.deepcopy(v[1])
                vals[1][2]["achievement"] = 0xFFFFFFFF
                sink2 = Sink()
                w2, err2 = _run(_mk(FB, _opaque_datetime()), W + name, [vals, sink2])
                if err2:
                    rows = f"{name} (an entry with id 0xFFFFFFFF): {err2}"
                    break
                rows.append((3, len(sink2.out), per))
        out[name] = rows
    # addon array: elements are 8 constant bytes
    rows = []
    for n in range(0, 4):
        elems = [("struct", "crate::world::shared::addon_tbc_wrath::Addon", {"addon_type": Tok(2000 + 8 * i, "any"), "uses_crc": Tok(2001 + 8 * i, "any"), "uses_diffent_public_key": True,
                                                                        "unknown1": Wide([Tok(2002 + 8 * i + k, "any") for k in range(4)]), "unknown2": Tok(2007 + 8 * i, "any")}) for i in range(n)]
        sink = Sink()
        w, err = _run(Mini(FB, "wow_world_messages"), "crate::util::functions::shared::write_addon_array", [elems, sink])
        if err:
            rows = f"write_addon_array: {err}"
            break
        rows.append((n, len(sink.out), [8] * n))
    out["write_addon_array"] = rows
    return out


def check_sentinel_arrays(ctx, FB):
    """AchievementDoneArray / AchievementInProgressArray: elements until the 0xFFFFFFFF sentinel; decode -> encode identity"""
    F = FB["wow_world_messages"]
    cases = n_types = 0
    for kind in ("done", "in_progress"):
        rd, wr = F.fn(W + "read_achievement_" + kind), F.fn(W + "write_achievement_" + kind)
        if rd is None or wr is None:
            ctx.violate("builtin.siblings", f"anchor|achievement_{kind}", f"read_achievement_{kind} / write_achievement_{kind} not found (anchor disappeared)")
            continue
        n_types += 1
        key = f"wow_world_messages::{W}achievement_{kind}"
        for n in range(0, 5):
            cases += 1
            c = _Counter()
            body, _per = _sentinel_body(kind, n, c)
            st = Stream(body + c.toks(EXTRA))
            v, err = _run(_mk(FB, _opaque_datetime()), W + "read_achievement_" + kind, [st])
            if err or not (isinstance(v, tuple) and v[0] == "Ok") or st.pos != len(body) or len(v[1]) != n:
                what = err or (f"consumes {st.pos} bytes and returns {len(v[1])} elements" if isinstance(v, tuple) and v[0] == "Ok" else repr(v))
                ctx.violate("builtin.siblings", key + "|read", f"read_achievement_{kind} on a {len(body)}-byte encoding of {n} elements + sentinel: {what}", rd["file"], rd["line"])
                break
            sink = Sink()
            w, err = _run(_mk(FB, _opaque_datetime()), W + "write_achievement_" + kind, [v[1], sink])
            if err or not same_bytes(sink.out, body):
                ctx.violate("builtin.siblings", key + "|roundtrip", f"write_achievement_{kind} of the {n} elements decoded from a {len(body)}-byte encoding gives {err or str(len(sink.out)) + ' bytes that differ from the input (elements, order or sentinel)'}", wr["file"], wr["line"])
                break
    return n_types, cases


def run(ctx):
    FB = {c: facts(c) for c in ("wow_world_messages", "wow_world_base", "wow_login_messages")}
    fns = 0
    cases = 0
    found = {"cstring": 0, "sized": 0, "fixed": 0, "guid": 0, "bool": 0, "guidrd": 0}
    for crate in ("wow_world_messages", "wow_login_messages"):
        F = FB[crate]
        for fn in F.all("fn", lambda p: p.startswith("crate::util::")):
            nm = fn["name"]
            base = nm.replace("tokio_", "").replace("astd_", "")
            if base == "read_c_string_to_vec":
                cases += check_cstring(ctx, FB, crate, fn)
                found["cstring"] += 1
                fns += 1
            elif base == "read_sized_c_string_to_vec":
                cases += check_sized_cstring(ctx, FB, crate, fn)
                found["sized"] += 1
                fns += 1
            elif base == "read_fixed_string_to_vec":
                cases += check_fixed_string(ctx, FB, crate, fn)
                found["fixed"] += 1
                fns += 1
            elif base in ("read_bool_u8", "read_bool_u16", "read_bool_u32"):
                cases += check_bool_reader(ctx, FB, crate, fn, {"8": 1, "16": 2, "32": 4}[base[11:]])
                found["bool"] += 1
                fns += 1
            elif base == "read_guid":
                cases += check_guid_reader(ctx, FB, crate, fn)
                found["guidrd"] += 1
                fns += 1
    F = FB["wow_world_messages"]
    rd = F.fn("crate::util::functions::shared::read_packed_guid")
    wr = F.fn("crate::util::functions::shared::write_packed_guid")
    sz = F.fn("crate::util::functions::shared::packed_guid_size")
    if rd is None or wr is None or sz is None:
        ctx.violate("leaf.codecs", "anchor|packed-guid", "read_packed_guid / write_packed_guid / packed_guid_size not found (anchor disappeared)")
    else:
        cases += check_packed_guid(ctx, FB, "wow_world_messages", rd, wr, sz)
        found["guid"] = 3
        fns += 3
    for k, floor in (("cstring", 4), ("sized", 1), ("fixed", 3), ("bool", 6), ("guidrd", 1)):
        if found[k] < floor:
            ctx.violate("leaf.codecs", f"anchor|{k}", f"only {found[k]} {k} string readers found, expected at least {floor} (anchor disappeared)")
    cases += check_assert_empty(ctx, FB)
    cases += check_builtins(ctx, FB)
    ctx.rule("leaf.codecs", fns, floor=11, note=f"hand-written string / packed-guid codecs interpreted over {cases} input classes (every length 0..=255, every packed-guid mask)")
    ctx.assume("leaf codecs are decided per input class by abstract interpretation (bytes carry identity and a zero/non-zero class; lengths, counters and masks are concrete); "
               "the UTF-8 conversion of the returned bytes is std's String::from_utf8 (trusted)")
    return cases
