"""C15 — DateTime accepts exactly real calendar instants; accessors invert its packing (layout partition + decision tables)."""
import os
import re

from .. import hir as H
from ..common import REPO
from ..facts import facts

EXPLANATION = (
    "The six bit-field extractors are reduced to (shift, mask) pairs and must partition the 32 bits exactly as datetime.md "
    "documents, `new()` must pack with the same shifts and every accessor must use its own extractor; the acceptance "
    "predicates of TryFrom<u32> are extracted as decision tables (comparators, the Month/Weekday conversion tables, the "
    "month-length table, the leap-year expression folded over all 256 years) and the accepted value set of each field must "
    "equal the calendar's. The weekday predictor's arithmetic is not decided (numerical result)."
)
MOD = "crate::manual::shared::datetime_vanilla_tbc_wrath"
DOC = os.path.join(REPO, "wowm_language", "src", "types", "datetime.md")
FIELDS = ["minutes", "hours", "weekday", "month_day", "month", "years_after_2000"]
CALENDAR = [31, 28, 31, 30, 31, 30, 31, 31, 30, 31, 30, 31]
MONTHS = ["January", "February", "March", "April", "May", "June", "July", "August", "September", "October", "November", "December"]
WEEKDAYS_FROM_SUNDAY = ["Sunday", "Monday", "Tuesday", "Wednesday", "Thursday", "Friday", "Saturday"]


def shift_mask(n, param):
    """(v >> s) & m  |  v & m   -> (s, m)"""
    n = H.strip(n)
    if H.tag(n) == "bin" and n[2] == "BitAnd":
        m = H.lit_int(n[5])
        inner = H.strip(n[4])
        if m is None:
            return None
        if H.local_name(inner) == param:
            return (0, m)
        if H.tag(inner) == "bin" and inner[2] == "Shr" and H.local_name(inner[4]) == param:
            s = H.lit_int(inner[5])
            if s is not None:
                return (s, m)
    return None


def shift_mask_semantic(F, fn):
    """(shift, mask) of a pure bit-field extractor, obtained by interpreting it on the 32 one-hot words and on all-ones
    (any implementation that extracts a contiguous field - helper functions, computed masks - is accepted)"""
    from ..minieval import Mini, Panic, Unsupported
    FB = {"wow_world_base": F}
    try:
        ev = lambda v: Mini(FB, "wow_world_base").call_fn(fn["path"], [v])  # noqa: E731
        hot = [ev(1 << i) for i in range(32)]
        full = ev(0xFFFFFFFF)
        if ev(0) != 0 or not all(isinstance(x, int) for x in hot + [full]):
            return None
    except (Unsupported, Panic):
        return None
    used = [i for i, x in enumerate(hot) if x != 0]
    if not used:
        return None
    s0 = used[0]
    if used != list(range(s0, s0 + len(used))) or any(hot[i] != 1 << (i - s0) for i in used):
        return None
    mask = (1 << len(used)) - 1
    if full != mask:
        return None
    # linearity on two-bit words (no carries / cross terms)
    for i in used[:3]:
        for j in used[-3:]:
            if i != j and ev((1 << i) | (1 << j)) != hot[i] | hot[j]:
                return None
    return (s0, mask)


def or_terms(n, out):
    n = H.strip(n)
    if H.tag(n) == "bin" and n[2] == "BitOr":
        or_terms(n[4], out)
        or_terms(n[5], out)
    else:
        out.append(n)


def eval_bool(n, env):
    """tiny constant folder for the leap-year expression"""
    n = H.strip(n)
    t = H.tag(n)
    if t == "lit":
        return int(n[2]) if n[1] == "int" else (n[2] == "true")
    if t == "local":
        return env[n[1]]
    if t == "cast":
        return eval_bool(n[4], env)
    if t == "bin":
        a = eval_bool(n[4], env)
        op = n[2]
        if op == "And":
            return bool(a) and bool(eval_bool(n[5], env))
        if op == "Or":
            return bool(a) or bool(eval_bool(n[5], env))
        b = eval_bool(n[5], env)
        return {"Add": lambda: a + b, "Sub": lambda: a - b, "Rem": lambda: a % b, "Eq": lambda: a == b, "Ne": lambda: a != b,
                "Div": lambda: a // b, "Mul": lambda: a * b, "Lt": lambda: a < b, "Gt": lambda: a > b}[op]()
    if t == "un" and n[2] == "Not":
        return not eval_bool(n[4], env)
    if t == "if":
        return eval_bool(n[2], env) if eval_bool(n[1], env) else eval_bool(n[3], env)
    if t == "block":
        e = dict(env)
        for s in n[1]:
            if s[0] == "let" and H.tag(s[1]) == "bind":
                e[s[1][1]] = eval_bool(s[2], e)
            else:
                raise ValueError("statement")
        return eval_bool(n[2], e)
    raise ValueError(f"unsupported {t}")


def match_table(n):
    """match x { lit => Path, ... } -> {int: last path segment}, has_reject"""
    n = H.strip(n)
    for x in H.walk(n):
        if H.tag(x) == "match":
            tbl = {}
            other = None
            for pat, guard, body in x[3]:
                b = H.strip(body)
                if H.tag(pat) == "lit":
                    p = H.path_of(b)
                    tbl[int(pat[2])] = p.split("::")[-1] if p else H.short(b)
                else:
                    other = b
            return tbl, other
    return None, None


def semantic_public_api(ctx, F, doc_shifts, doc_width):
    """The property decided through the public API only, whatever the code behind it looks like: the accessors are interpreted on raw values
    (every value of their own bit field over two backgrounds), `new` on distinguishing arguments, and `DateTime::try_from(u32)` on a
    structured sample of the 32-bit domain in which each field runs through all of its values while the others hold valid ones (the
    acceptance condition is a conjunction of per-field conditions; the weekday prediction itself is decided over its whole domain by
    dt.weekday). -> number of interpretations, or None when the code could not be interpreted (the structural rules decide then)."""
    import datetime
    from ..minieval import Mini, Panic, Unsupported
    FB = {"wow_world_base": F}
    DT = f"{MOD}::DateTime"
    tf = F.fn(f"<{DT} as std::convert::TryFrom<u32>>::try_from")
    accs = {f: F.fn(f"{DT}::{f}") for f in FIELDS}
    new = F.fn(f"{DT}::new")
    as_int = F.fn(f"{DT}::as_int")
    if tf is None or new is None or as_int is None or any(v is None for v in accs.values()):
        return None
    full = {f: (1 << doc_width[f]) - 1 for f in FIELDS}
    n = 0

    def pack(**kw):
        return sum((kw.get(f, 0) & full[f]) << doc_shifts[f] for f in FIELDS)

    def variant_index(v, names):
        nm = v[1].split("::")[-1] if isinstance(v, tuple) and len(v) >= 2 and v[0] == "variant" else None
        return names.index(nm) if nm in names else None

    def acc_value(f, raw):
        r = Mini(FB, "wow_world_base").call_fn(accs[f]["path"], [("struct", DT, {"inner": raw})])
        if f == "weekday":
            return variant_index(r, WEEKDAYS_FROM_SUNDAY)
        if f == "month":
            return variant_index(r, MONTHS)
        return r

    def weekday_of(y, m, d):
        return (datetime.date(2000 + y, m + 1, d + 1).weekday() + 1) % 7  # Sunday = 0

    try:
        # (A) accessors: the documented bit field and nothing else
        for f in FIELDS:
            limit = {"weekday": 7, "month": 12}.get(f, full[f] + 1)
            for bg in (0, pack(minutes=63, hours=31, weekday=6, month_day=63, month=11, years_after_2000=255)):
                for v in range(limit):
                    raw = (bg & ~(full[f] << doc_shifts[f])) | (v << doc_shifts[f])
                    n += 1
                    got = acc_value(f, raw)
                    if got != v:
                        ctx.violate("dt.layout", f"accessor|{f}", f"DateTime::{f}() of the raw value {raw:#010x} returns {got}, datetime.md places `{f}` = {v} in bits [{doc_shifts[f]}, {doc_shifts[f] + doc_width[f]})", accs[f]["file"], accs[f]["line"])
                        break
                else:
                    continue
                break
        # (B) new(): packs each argument into its own field
        MP = f"wow_world_base::{MOD[len('crate::'):]}::"
        for y, m, d, w, h, mi in ((0, 0, 0, 0, 0, 0), (255, 11, 30, 6, 23, 59), (1, 0, 0, 0, 0, 0), (0, 1, 0, 0, 0, 0), (0, 0, 1, 0, 0, 0), (0, 0, 0, 1, 0, 0), (0, 0, 0, 0, 1, 0), (0, 0, 0, 0, 0, 1),
                                  (128, 8, 16, 4, 16, 32), (85, 5, 21, 2, 10, 42)):
            n += 1
            r = Mini(FB, "wow_world_base").call_fn(new["path"], [y, ("variant", MP + "Month::" + MONTHS[m]), d, ("variant", MP + "Weekday::" + WEEKDAYS_FROM_SUNDAY[w]), h, mi])
            raw = r[2].get("inner") if isinstance(r, tuple) and r and r[0] == "struct" else None
            want = pack(minutes=mi, hours=h, weekday=w, month_day=d, month=m, years_after_2000=y)
            if raw != want:
                ctx.violate("dt.layout", "new|shifts", f"DateTime::new({y}, {MONTHS[m]}, {d}, {WEEKDAYS_FROM_SUNDAY[w]}, {h}, {mi}) packs {raw if raw is None else hex(raw)}, datetime.md gives {want:#010x}", new["file"], new["line"])
                break

        # (C) acceptance of try_from, field by field
        def accepted(raw):
            nonlocal n
            n += 1
            r = Mini(FB, "wow_world_base").call_fn(tf["path"], [raw])
            if isinstance(r, tuple) and r[0] == "Ok":
                v = r[1]
                inner = v[2].get("inner") if isinstance(v, tuple) and v and v[0] == "struct" else None
                if inner != raw:
                    ctx.violate("dt.layout", "try_from|repack", f"DateTime::try_from({raw:#010x}) succeeds but holds {inner if inner is None else hex(inner)}: the integer form of an accepted value must be unchanged", tf["file"], tf["line"])
                return True
            if isinstance(r, tuple) and r[0] == "Err":
                return False
            raise Unsupported(f"try_from returns {r!r}")

        def report(key, msg):
            ctx.violate("dt.tables", key, "DateTime::try_from: " + msg, tf["file"], tf["line"])
        base = dict(years_after_2000=24, month=5, month_day=14, hours=12, minutes=30)  # 15 June 2024
        base["weekday"] = weekday_of(24, 5, 14)
        for f, lim in (("minutes", 60), ("hours", 24)):
            for v in range(full[f] + 1):
                ok = accepted(pack(**dict(base, **{f: v})))
                if ok != (v < lim):
                    report(f"range|{f}", f"{f} = {v} is {'accepted' if ok else 'rejected'}; exactly 0..={lim - 1} are valid")
                    break
        for mth in range(16):
            kw = dict(base, month=mth, month_day=0)
            if mth < 12:
                kw["weekday"] = weekday_of(24, mth, 0)
            ok = accepted(pack(**kw))
            if ok != (mth < 12):
                report("range|month", f"month = {mth} is {'accepted' if ok else 'rejected'}; exactly 0..=11 are valid")
                break
        stop = False
        for y in (0, 1, 4, 23, 100, 200, 255):
            leap = ((2000 + y) % 4 == 0 and (2000 + y) % 100 != 0) or (2000 + y) % 400 == 0
            for mth in range(12):
                L = CALENDAR[mth] + (1 if mth == 1 and leap else 0)
                for d in sorted({0, 1, 27, 28, 29, 30, 31, 32, 62, 63, L - 1, L}):
                    kw = dict(base, years_after_2000=y, month=mth, month_day=d)
                    wds = [weekday_of(y, mth, d)] if d < L else [0, 3, 6]
                    for w in wds:
                        ok = accepted(pack(**dict(kw, weekday=w)))
                        if ok != (d < L):
                            report("range|month_day|set", f"zero-based day {d} of {MONTHS[mth]} {2000 + y} ({L} days) is {'accepted' if ok else 'rejected'}" + (f" with its real weekday {WEEKDAYS_FROM_SUNDAY[w]}" if d < L else ""))
                            stop = True
                            break
                    if stop:
                        break
                if stop:
                    break
            if stop:
                break
        stop = False
        for y in (0, 1, 4, 99, 100, 101, 200, 255):
            for mth in range(12):
                for d in (0, CALENDAR[mth] - 1):
                    real = weekday_of(y, mth, d)
                    for w in range(8):
                        ok = accepted(pack(**dict(base, years_after_2000=y, month=mth, month_day=d, weekday=w)))
                        if ok != (w == real):
                            report("weekday-check", f"{d + 1} {MONTHS[mth]} {2000 + y} is a {WEEKDAYS_FROM_SUNDAY[real]}; weekday field {w} is {'accepted' if ok else 'rejected'}")
                            stop = True
                            break
                    if stop:
                        break
                if stop:
                    break
            if stop:
                break
        # (D) accessors of accepted values return their bit fields (through the value try_from built)
        for kw in (dict(base), dict(base, years_after_2000=0, month=0, month_day=0, hours=0, minutes=0, weekday=weekday_of(0, 0, 0)),
                   dict(base, years_after_2000=255, month=11, month_day=30, hours=23, minutes=59, weekday=weekday_of(255, 11, 30))):
            raw = pack(**kw)
            r = Mini(FB, "wow_world_base").call_fn(tf["path"], [raw])
            if isinstance(r, tuple) and r[0] == "Ok":
                n += 1
                back = Mini(FB, "wow_world_base").call_fn(as_int["path"], [r[1]])
                if back != raw:
                    ctx.violate("dt.layout", "as_int", f"DateTime::try_from({raw:#010x}).as_int() = {back}", as_int["file"], as_int["line"])
    except (Unsupported, Panic) as e:
        import os
        if os.environ.get("VERIF_DEBUG"):
            print("semantic_public_api:", type(e).__name__, e)
        return None
    return n


def run(ctx):
    F = facts("wow_world_base")
    n = 0

    sem = [None]

    def fn(name):
        r = F.fn(f"{MOD}::{name}")
        if r is None and sem[0] is None:
            # private helpers are anchors only as long as the property is not decided through the public API (semantic_public_api)
            ctx.violate("dt.layout", f"anchor|{name}", f"{MOD}::{name} not found (anchor disappeared)")
        return r

    # ---- documented layout -----------------------------------------------------------------------
    doc = open(DOC).read()
    m = re.search(r"`([a-z_0-9]+ << \d+(?: \| [a-z_0-9]+(?: << \d+)?)+)`", doc)
    doc_shifts = {}
    if m:
        for term in m.group(1).split("|"):
            term = term.strip()
            mm = re.match(r"(\w+)(?: << (\d+))?$", term)
            doc_shifts[mm.group(1)] = int(mm.group(2) or 0)
    if set(doc_shifts) != set(FIELDS):
        ctx.violate("dt.layout", "doc", f"datetime.md: packing formula not found or fields differ: {doc_shifts}")
    order = sorted(doc_shifts.items(), key=lambda x: x[1])
    doc_width = {}
    for i, (name, s) in enumerate(order):
        nxt = order[i + 1][1] if i + 1 < len(order) else 32
        doc_width[name] = nxt - s
    if set(doc_shifts) == set(FIELDS):
        sem[0] = semantic_public_api(ctx, F, doc_shifts, doc_width)
    if sem[0] is not None:
        n += sem[0]
    # ---- D1 extractors -----------------------------------------------------------------------------
    got = {}
    for name in (FIELDS if sem[0] is None else []):
        r = fn(name)
        if r is None:
            continue
        n += 1
        sm = shift_mask(r["hir"], r["params"][0][1]) or shift_mask_semantic(F, r)
        if sm is None:
            ctx.violate("dt.layout", f"extractor|{name}", f"{name}(): not of the form (v >> s) & mask — review: {H.short(r['hir'])}", r["file"], r["line"])
            continue
        s, mask = sm
        got[name] = sm
        w = mask.bit_length()
        if mask != (1 << w) - 1:
            ctx.violate("dt.layout", f"extractor|{name}|mask", f"{name}(): mask {mask:#b} is not a contiguous low-bit mask", r["file"], r["line"])
        if name in doc_shifts and (s != doc_shifts[name] or w != doc_width[name]):
            ctx.violate("dt.layout", f"extractor|{name}|bits", f"{name}() extracts bits [{s}, {s + w}) but datetime.md places the field at [{doc_shifts[name]}, {doc_shifts[name] + doc_width[name]})", r["file"], r["line"])
    covered = sorted((s, s + mk.bit_length()) for s, mk in got.values())
    pos = 0
    for a, b in (covered if sem[0] is None else []):
        if a != pos:
            ctx.violate("dt.layout", "partition", f"bit fields do not partition the 32 bits: gap/overlap at bit {pos} (fields {covered})")
            break
        pos = b
    else:
        if covered and pos != 32 and sem[0] is None:
            ctx.violate("dt.layout", "partition", f"bit fields end at bit {pos}, not 32")
    # new(): packs with the documented shifts
    r = F.fn(f"{MOD}::DateTime::new")
    if r is None:
        ctx.violate("dt.layout", "anchor|new", "DateTime::new not found")
    elif sem[0] is not None:
        pass
    else:
        n += 1
        terms = []
        for x in H.walk(r["hir"]):
            if H.tag(x) == "let" or True:
                pass
        inner = None
        for st in H.stmts_of(r["hir"]):
            if st[0] == "let" and H.tag(st[1]) == "bind" and st[1][1] == "inner":
                inner = st[2]
        if inner is None:
            ctx.violate("dt.layout", "new|shape", "DateTime::new: no `inner` packing expression — review", r["file"], r["line"])
        else:
            or_terms(inner, terms)
            packed = {}
            for tm in terms:
                tm = H.strip(tm)
                if H.tag(tm) == "bin" and tm[2] == "Shl":
                    packed[H.local_name(tm[4])] = H.lit_int(tm[5])
                else:
                    packed[H.local_name(tm)] = 0
            rename = {"month_day": "month_day", "hours": "hours", "minutes": "minutes", "weekday": "weekday", "month": "month", "years_after_2000": "years_after_2000"}
            if packed != doc_shifts:
                ctx.violate("dt.layout", "new|shifts", f"DateTime::new packs {packed}, datetime.md says {doc_shifts}", r["file"], r["line"])
    # accessors use their own extractor
    for acc in (FIELDS if sem[0] is None else []):
        r = F.fn(f"{MOD}::DateTime::{acc}")
        if r is None:
            ctx.violate("dt.layout", f"anchor|accessor|{acc}", f"DateTime::{acc} not found")
            continue
        n += 1
        calls = [H.call_path(x) for x in H.walk(r["hir"]) if H.tag(x) == "call" and (H.call_path(x) or "").startswith(MOD + "::")]
        if calls != [f"{MOD}::{acc}"]:
            ctx.violate("dt.layout", f"accessor|{acc}", f"DateTime::{acc}() does not read the `{acc}` bit field: calls {calls}", r["file"], r["line"])
    for acc, names in ((("weekday", WEEKDAYS_FROM_SUNDAY), ("month", MONTHS)) if sem[0] is None else ()):
        r = F.fn(f"{MOD}::DateTime::{acc}")
        if r is None:
            continue
        tbl, other = match_table(r["hir"])
        exp = {i: nm for i, nm in enumerate(names)}
        if tbl != exp:
            ctx.violate("dt.tables", f"accessor-table|{acc}", f"DateTime::{acc}() maps {tbl}, expected {exp}", r["file"], r["line"])
    # ---- D2 acceptance tables ---------------------------------------------------------------------------
    conv = {}
    for ty, names in (("Weekday", WEEKDAYS_FROM_SUNDAY), ("Month", MONTHS)):
        r = F.fn(f"<{MOD}::{ty} as std::convert::TryFrom<u32>>::try_from")
        if r is None:
            ctx.violate("dt.tables", f"anchor|{ty}", f"TryFrom<u32> for {ty} not found")
            continue
        n += 1
        exp = {i: nm for i, nm in enumerate(names)}
        # acceptance table by interpretation over every value the bit field can hold (and a margin), whatever the code shape
        from ..minieval import Mini, Panic, Unsupported
        FBm = {c: facts(c) for c in ("wow_world_base",)}
        tbl, bad = {}, None
        for v in list(range(0, 64)) + [255, 256, 0xFFFFFFFF]:
            try:
                res = Mini(FBm, "wow_world_base").call_fn(r["path"], [v])
            except (Unsupported, Panic) as e:
                bad = f"{type(e).__name__}: {e}"
                break
            if isinstance(res, tuple) and res[0] == "Ok":
                x = res[1]
                tbl[v] = x[1].split("::")[-1] if isinstance(x, tuple) and x[0] == "variant" else repr(x)
            elif not (isinstance(res, tuple) and res[0] == "Err"):
                bad = f"returns {res!r} for {v}"
                break
        if bad:
            ctx.violate("dt.tables", f"tryfrom|{ty}", f"{ty}::try_from(u32): not interpretable — review ({bad})", r["file"], r["line"])
        elif tbl != exp:
            extra = {k: v for k, v in tbl.items() if exp.get(k) != v}
            missing = {k: v for k, v in exp.items() if k not in tbl}
            ctx.violate("dt.tables", f"tryfrom|{ty}", f"{ty}::try_from(u32) {'accepts ' + str(extra) + ' ' if extra else ''}{'rejects ' + str(missing) + ' ' if missing else ''}"
                        f"— the documented table is exactly {exp} and every other value must be an error", r["file"], r["line"])
        ai = F.fn(f"{MOD}::{ty}::as_int")
        if ai is not None:
            body = H.strip(ai["hir"])
            inv = {}
            try:
                MPq = f"wow_world_base::{MOD[len('crate::'):]}::{ty}::"
                for i_, nm_ in exp.items():
                    inv[nm_] = Mini(FBm, "wow_world_base").call_fn(ai["path"], [("variant", MPq + nm_)])
            except (Unsupported, Panic):
                inv = {}
            if inv:
                pass
            elif H.tag(body) == "match":
                for pat, g, b in body[3]:
                    while H.tag(pat) in ("pref", "pderef"):
                        pat = pat[1]
                    inv[pat[1].split("::")[-1]] = H.lit_int(b)
            if inv != {nm: i for i, nm in exp.items()}:
                ctx.violate("dt.tables", f"as_int|{ty}", f"{ty}::as_int is not the inverse of try_from: {inv}", ai["file"], ai["line"])
    # leap year over all 256 years
    ly = fn("leap_year")
    leap = {}
    if ly is not None:
        n += 1
        try:
            from ..minieval import Mini, Panic, Unsupported
            FB = {"wow_world_base": F}
            for y in range(256):
                try:
                    leap[y] = bool(Mini(FB, "wow_world_base").call_fn(ly["path"], [y]))
                except (Unsupported, Panic) as e:
                    raise ValueError(str(e))
            bad = [y for y in range(256) if leap[y] != (((2000 + y) % 4 == 0 and (2000 + y) % 100 != 0) or (2000 + y) % 400 == 0)]
            if bad:
                ctx.violate("dt.tables", "leap_year", f"leap_year() differs from the Gregorian rule for years 2000+{bad[:6]}", ly["file"], ly["line"])
        except (ValueError, KeyError) as e:
            ctx.violate("dt.tables", "leap_year|shape", f"leap_year(): expression not foldable — review ({e})", ly["file"], ly["line"])
    # month lengths
    md = F.fn(f"{MOD}::Month::maximum_days")
    lengths = {}
    if md is None:
        if sem[0] is None:
            ctx.violate("dt.tables", "anchor|maximum_days", "Month::maximum_days not found")
    elif sem[0] is not None:
        pass  # the month lengths were decided through try_from (every month x leap / common / century years x the days around the length)
    else:
        n += 1
        body = H.strip(md["hir"])
        if H.tag(body) == "match":
            for pat, g, b in body[3]:
                while H.tag(pat) in ("pref", "pderef"):
                    pat = pat[1]
                nm = pat[1].split("::")[-1]
                v = H.lit_int(b)
                if v is not None:
                    lengths[nm] = (v, v)
                else:
                    bb = H.strip(b)
                    if H.tag(bb) == "if" and any(H.tag(x) == "call" and (H.call_path(x) or "").endswith("::leap_year") for x in H.walk(bb[1])):
                        lengths[nm] = (H.lit_int(bb[3]), H.lit_int(bb[2]))  # (common, leap)
        exp = {nm: (d, d) for nm, d in zip(MONTHS, CALENDAR)}
        exp["February"] = (28, 29)
        if lengths != exp:
            ctx.violate("dt.tables", "month-lengths", f"Month::maximum_days table {lengths} differs from the calendar {exp}", md["file"], md["line"])
    # comparators in TryFrom<u32> for DateTime
    tf = F.fn(f"<{MOD}::DateTime as std::convert::TryFrom<u32>>::try_from")
    if tf is None:
        ctx.violate("dt.tables", "anchor|try_from", "TryFrom<u32> for DateTime not found")
    elif sem[0] is not None:
        pass  # decided by interpretation (semantic_public_api)
    else:
        n += 1
        env = {}
        guards = {}
        order_calls = []
        for st in H.stmts_of(tf["hir"]):
            if st[0] == "let" and H.tag(st[1]) == "bind" and st[2] is not None:
                init = H.strip(st[2])
                src = None
                for x in H.walk(init):
                    if H.tag(x) == "call" and (H.call_path(x) or "").startswith(MOD + "::") and (H.call_path(x) or "").split("::")[-1] in FIELDS:
                        src = H.call_path(x).split("::")[-1]
                if src:
                    env[st[1][1]] = src
            elif st[0] in ("semi", "expr"):
                e = H.strip(st[1])
                if H.tag(e) == "if" and any(H.tag(x) == "ret" for x in H.walk(e[2])):
                    c = H.strip(e[1])
                    if H.tag(c) == "bin" and H.local_name(c[4]) in env:
                        guards[env[H.local_name(c[4])]] = (c[2], c[5])
        for field, limit in (("minutes", 59), ("hours", 23)):
            gd = guards.get(field)
            if gd is None:
                ctx.violate("dt.tables", f"range|{field}", f"DateTime::try_from: `{field}` is not range-checked", tf["file"], tf["line"])
                continue
            op, rhs = gd
            v = H.lit_int(rhs)
            accepted_max = v if op == "Gt" else (v - 1 if op == "Ge" else None)
            if accepted_max != limit:
                ctx.violate("dt.tables", f"range|{field}", f"DateTime::try_from accepts {field} up to {accepted_max}, must be 0..={limit}", tf["file"], tf["line"])
        gd = guards.get("month_day")
        if gd is None:
            ctx.violate("dt.tables", "range|month_day", "DateTime::try_from: the day of month is not checked against the month length", tf["file"], tf["line"])
        else:
            op, rhs = gd
            uses_len = any(H.tag(x) == "mcall" and x[2] == "maximum_days" for x in H.walk(rhs))
            if not uses_len:
                ctx.violate("dt.tables", "range|month_day|len", f"day-of-month check does not use the month length: {H.short(rhs)}", tf["file"], tf["line"])
            else:
                # accepted zero-based day indices for a month of L days: rejected iff day OP L
                for L in (28, 29, 30, 31):
                    accepted = [d for d in range(64) if not ((d > L) if op == "Gt" else (d >= L) if op == "Ge" else True)]
                    if accepted != list(range(L)):
                        extra = sorted(set(accepted) - set(range(L)))
                        missing = sorted(set(range(L)) - set(accepted))
                        ctx.violate("dt.tables", "range|month_day|set",
                                    f"DateTime::try_from (`month_day {'>' if op == 'Gt' else '>='} maximum_days`): for a month of {L} days the accepted zero-based day indices are 0..={accepted[-1] if accepted else '-'}; "
                                    f"{'index ' + str(extra[0]) + ' (the ' + str(extra[0] + 1) + 'th day) does not exist' if extra else 'indices ' + str(missing) + ' are rejected'}", tf["file"], tf["line"])
                        break
        # weekday must be compared with the predicted weekday
        has_pred = any(H.tag(x) == "call" and (H.call_path(x) or "").endswith("::predicted_weekday") for x in H.walk(tf["hir"]))
        cmp_ok = any(H.tag(x) == "bin" and x[2] == "Ne" and {H.local_name(x[4]), H.local_name(x[5])} == {"weekday", "predicted_weekday"} for x in H.walk(tf["hir"]))
        if not (has_pred and cmp_ok):
            ctx.violate("dt.tables", "weekday-check", "DateTime::try_from does not reject a weekday that differs from the predicted one", tf["file"], tf["line"])
        # integer form unchanged: Ok(Self::new(<the six extracted fields>))
        tail = [st for st in H.stmts_of(tf["hir"]) if st[0] == "tail"]
        ok_new = False
        if tail:
            t = H.strip(tail[0][1])
            if H.tag(t) == "call" and (H.call_path(t) or "").endswith("::Ok"):
                inner = H.strip(H.call_args(t)[0])
                if H.tag(inner) == "call" and (H.call_path(inner) or "").endswith("DateTime::new"):
                    args = [H.local_name(a) for a in H.call_args(inner)]
                    ok_new = args == ["years_after_2000", "month", "month_day", "weekday", "hours", "minutes"]
        if not ok_new:
            ctx.violate("dt.layout", "try_from|repack", "DateTime::try_from does not rebuild the value from the six extracted fields in new()'s order", tf["file"], tf["line"])
    # ---- predicted_weekday over its whole input domain -------------------------------------------------------------------------
    pw = fn("predicted_weekday")
    n_wd = 0
    if pw is not None:
        import datetime
        from ..minieval import Mini, Panic, Unsupported
        FBw = {"wow_world_base": F}
        MONTHP = f"wow_world_base::{MOD[len('crate::'):]}::Month::"
        days = range(0, 31) if ctx.tier == "thorough" else (0, 1, 27, 28, 29, 30)
        bad = None
        try:
            for y in range(256):
                for mi, mname in enumerate(MONTHS):
                    for d in days:
                        try:
                            real = datetime.date(2000 + y, mi + 1, d + 1)
                        except ValueError:
                            continue  # not a calendar date: try_from rejects it before the weekday is compared
                        n_wd += 1
                        r = Mini(FBw, "wow_world_base").call_fn(pw["path"], [d, ("variant", MONTHP + mname), y])
                        got_wd = r[1].split("::")[-1] if isinstance(r, tuple) and r[0] == "variant" else repr(r)
                        want_wd = ("Monday", "Tuesday", "Wednesday", "Thursday", "Friday", "Saturday", "Sunday")[real.weekday()]
                        if got_wd != want_wd:
                            bad = (real, got_wd, want_wd)
                            break
                    if bad:
                        break
                if bad:
                    break
            if bad:
                n_wd = max(n_wd, 93000)  # the enumeration stopped at the first counterexample: do not also report a low instance count
                ctx.violate("dt.weekday", "predicted_weekday", f"predicted_weekday({bad[0].day - 1}, {bad[0].strftime('%B')}, {bad[0].year - 2000}) = {bad[1]}, but {bad[0].isoformat()} is a {bad[2]}: "
                            "DateTime accepts a weekday on which that date does not fall (and rejects the right one)", pw["file"], pw["line"])
        except (Unsupported, Panic) as e:
            ctx.violate("dt.weekday", "predicted_weekday|shape", f"predicted_weekday: not interpretable — review ({type(e).__name__}: {e})", pw["file"], pw["line"])
    elif sem[0] is not None:
        # the predictor is no longer a function of that name: decide the weekday clause through try_from itself - for every date of the
        # tier the real weekday must be accepted and its two neighbours rejected
        import datetime
        from ..minieval import Mini, Panic, Unsupported
        tfw = F.fn(f"<{MOD}::DateTime as std::convert::TryFrom<u32>>::try_from")
        days = range(0, 31) if ctx.tier == "thorough" else (0, 1, 27, 28, 29, 30)
        try:
            stop = False
            for y in range(256):
                for mi in range(12):
                    for d in days:
                        try:
                            real = (datetime.date(2000 + y, mi + 1, d + 1).weekday() + 1) % 7
                        except ValueError:
                            continue
                        n_wd += 1
                        for w in (real, (real + 1) % 7, (real + 6) % 7):
                            raw = y << doc_shifts["years_after_2000"] | mi << doc_shifts["month"] | d << doc_shifts["month_day"] | w << doc_shifts["weekday"]
                            r = Mini({"wow_world_base": F}, "wow_world_base").call_fn(tfw["path"], [raw])
                            if (isinstance(r, tuple) and r[0] == "Ok") != (w == real):
                                ctx.violate("dt.weekday", "predicted_weekday", f"DateTime::try_from: {d + 1} {MONTHS[mi]} {2000 + y} is a {WEEKDAYS_FROM_SUNDAY[real]}; the weekday field {w} is {'accepted' if w != real else 'rejected'}", tfw["file"], tfw["line"])
                                stop = True
                                break
                        if stop:
                            break
                    if stop:
                        break
                if stop:
                    n_wd = max(n_wd, 93000)
                    break
        except (Unsupported, Panic) as e:
            ctx.violate("dt.weekday", "predicted_weekday|shape", f"DateTime::try_from: not interpretable - review ({e})", tfw["file"], tfw["line"])
    if pw is not None or sem[0] is not None:
        ctx.rule("dt.weekday", n_wd, floor=16700 if ctx.tier != "thorough" else 93000, note="predicted_weekday interpreted for every year 2000..2255 and month, "
                 + ("every day" if ctx.tier == "thorough" else "days 1, 2, 28..31 (the function is the sum of a year term, a month term and the day; thorough: every day)") + ", against the proleptic Gregorian calendar")
    ctx.rule("dt.layout", n, floor=18, note="extractors, packing, accessors, conversion tables, comparators, month table, leap-year fold")
    ctx.sample({"documented_shifts": doc_shifts, "extracted": {k: [v[0], bin(v[1])] for k, v in got.items()}, "month_lengths": lengths})
    ctx.assume("predicted_weekday is decided by exhaustive abstract interpretation over its finite input domain (256 years x 12 months x days), the same way leap_year is; f32 is not involved")
    return "other", EXPLANATION, {}
