"""C08 — generated artefacts are a deterministic, reproducible function of the wowm (structural clauses on the generator)."""
import re

from .. import hir as H
from ..facts import facts

EXPLANATION = (
    "Structural necessary conditions on the generator (wow_message_parser), decided on its resolved program: D1 every iteration "
    "over a hash-ordered collection (MIR, resolved callees) must be discharged by an order-insensitive use (collected and sorted "
    "before any other use; results inserted only into B-tree collections; one write per key to that key's own file) or lie in "
    "the item/spell data printer, which produces none of the artefacts of this property; directory walks must feed a B-tree "
    "map or a sort; no clock / random / process-id source is called; threads are spawned only in the data printer. D2 every "
    "file creation or truncation goes through file_utils (who-may-call) and the write-if-different helpers tolerate a missing "
    "target instead of unwrapping its read, so a tree with deleted artefacts is regenerated, not aborted. D3 every write site "
    "whose path is computed per object lies under a directory that the stale-file sweep covers. Byte-for-byte reproduction of "
    "the committed artefacts and convergence from damaged trees need a run of the generator and are not decided."
)
HASH_ITER = re.compile(r"::(iter|iter_mut|keys|values|values_mut|into_iter|drain|into_keys|into_values|retain)$")
NONDET = re.compile(r"(std::time::SystemTime|std::time::Instant::now|rand::|std::process::id|thread_rng|getrandom)")
WRITE_PRIMS = re.compile(r"^std::fs::(write|File::create|File::create_new|OpenOptions::open|remove_file|remove_dir|remove_dir_all|rename|copy|create_dir|create_dir_all)$")
OUT_OF_SCOPE = "crate::base_printer::"


def owner_fn(path):
    return re.sub(r"::\{closure#\d+\}", "", path)


def calls_of(F):
    for m in F.all("mir"):
        for c in m["calls"]:
            yield m["path"], (c[2] or c[1] or ""), (c[1] or ""), (c[3] or ""), c[0]


def is_hash_recv(callee, ga):
    s = callee + " " + ga
    return ("hashbrown::" in s or "std::collections::hash::" in s) and HASH_ITER.search(callee.split("<")[0].split(" as ")[0]) is not None


# ---- discharge predicates for hash iteration (semantic shapes on typed HIR) -------------------------------------------
def collected_then_sorted(fn):
    """let mut v = map.into_iter().collect::<Vec<_>>();  v.sort*(..)  before any other use"""
    stmts = H.stmts_of(fn["hir"])
    for i, st in enumerate(stmts):
        if st[0] == "let" and H.tag(st[1]) == "bind" and st[2] is not None:
            e = H.strip(st[2])
            if H.tag(e) == "mcall" and e[2] == "collect" and any(H.tag(x) == "mcall" and x[2] in ("into_iter", "iter", "drain") and "hash" in (x[5] or "").lower() for x in H.walk(e)):
                name = st[1][1]
                nxt = stmts[i + 1] if i + 1 < len(stmts) else None
                if nxt is not None and nxt[0] in ("semi", "expr"):
                    c = H.strip(nxt[1])
                    if H.tag(c) == "mcall" and c[2].startswith("sort") and H.local_name(H.strip_refs(H.mcall(c)["recv"])) == name:
                        return True
    return False


def loop_over_hash(fn):
    out = []
    for x in H.walk(fn["hir"]):
        if H.tag(x) == "for" and x[2] is not None:
            it = H.strip_refs(x[2])
            ty = None
            if H.tag(it) == "local":
                ty = next((p[4] for p in fn["params"] if H.tag(p) == "bind" and p[1] == it[1]), None)
                if ty is None:
                    for y in H.walk(fn["hir"]):
                        if H.tag(y) == "let" and H.tag(y[1]) == "bind" and y[1][1] == it[1]:
                            ty = y[1][4]
            if ty and "hash" in ty.lower():
                out.append(x)
    return out


def btree_sink_only(fn):
    """for (..) in &hash_map { ...; <BTreeSet param>.insert(..) } — every escaping effect of the body is a B-tree insert"""
    loops = loop_over_hash(fn)
    if not loops:
        return False
    btree_params = {p[1] for p in fn["params"] if H.tag(p) == "bind" and "btree" in (p[4] or "").lower()}
    for lp in loops:
        body = lp[3]
        declared = {y[1][1] for y in H.walk(body) if H.tag(y) == "let" and H.tag(y[1]) == "bind"}
        for y in H.walk(body):
            if H.tag(y) == "mcall":
                mc = H.mcall(y)
                recv = H.local_name(H.strip_refs(mc["recv"]))
                if "&mut" in (mc["recv_ty"] or "") and recv is not None and recv not in declared:
                    if not (recv in btree_params and mc["name"] in ("insert", "extend")):
                        return False
            if H.tag(y) in ("asg", "asgop"):
                tgt = H.field_chain(y[1] if H.tag(y) == "asg" else y[4])
                if tgt is None or tgt[0] not in declared:
                    return False
    return True


def one_write_per_key(fn):
    """for (path, s) in &files { write_if_different(s, path) } — one file per key, nothing else"""
    for lp in loop_over_hash(fn):
        names = [p[1] for p in H.walk(lp[1]) if H.tag(p) == "bind"]
        stmts = [s for s in H.stmts_of(lp[3])]
        if len(stmts) == 1:
            c = H.strip(stmts[0][1])
            if H.tag(c) == "call" and (H.call_path(c) or "").startswith("crate::file_utils::") and sorted(H.local_name(H.strip_refs(a)) or "" for a in H.call_args(c)) == sorted(names):
                return True
    return False


DISCHARGE = [("collected and sorted before use", collected_then_sorted), ("one write per key to the key's own path", one_write_per_key),
             ("results only inserted into B-tree collections", btree_sink_only)]


def check_hash_iteration(ctx, F):
    sites = {}
    for owner, callee, generic, ga, span in calls_of(F):
        if is_hash_recv(callee, ga) or is_hash_recv(generic, ga):
            sites.setdefault(owner_fn(owner), set()).add(callee.split("::")[-1])
    n = 0
    table = []
    for owner in sorted(sites):
        n += 1
        if owner.startswith(OUT_OF_SCOPE):
            table.append((owner, "out of scope: item/spell data printer (wow_items / wow_spells are not artefacts of this property)"))
            continue
        fn = F.fn(owner)
        why = None
        if fn is not None and fn.get("hir") is not None:
            for name, pred in DISCHARGE:
                if pred(fn):
                    why = name
                    break
        if why is None:
            ctx.violate("det.hash-iter", f"{owner}", f"{owner} iterates a hash-ordered collection ({sorted(sites[owner])}) and the order can reach the generated output: "
                        "none of the order-insensitive uses applies (sorted after collection / B-tree sink / one write per key)", fn["file"] if fn else None, fn["line"] if fn else None)
        else:
            table.append((owner, why))
    ctx.rule("det.hash-iter", n, floor=4, note="; ".join(f"{o.split('::')[-1]}: {w}" for o, w in table))


def check_walks(ctx, F):
    n = 0
    owners = set()
    for owner, callee, generic, ga, span in calls_of(F):
        if "walkdir::WalkDir" in callee and callee.endswith("into_iter") or callee.endswith("std::fs::read_dir"):
            owners.add(owner_fn(owner))
    for owner in sorted(owners):
        n += 1
        fn = F.fn(owner)
        ok = False
        why = ""
        if fn is not None:
            # the walk only feeds a B-tree map/set insert, or its consumer sorts the objects
            inserts = [H.mcall(y) for y in H.walk(fn["hir"]) if H.tag(y) == "mcall" and y[2] == "insert"]
            if inserts and all("btree" in (m["recv_ty"] or "").lower() for m in inserts):
                ok, why = True, "entries are inserted into a BTreeMap"
            elif owner == "crate::load_files":
                # parsed objects are sorted by Objects::sort_members before anything is printed
                sorters = [p for p in F.paths("fn") if p.endswith("::sort_members")]
                called = any(callee.endswith("::sort_members") for _o, callee, *_r in calls_of(F))
                ok, why = bool(sorters) and called, "objects are sorted by sort_members before printing"
        if not ok:
            ctx.violate("det.walk", owner, f"{owner} walks a directory and the (file-system dependent) order is neither sorted nor fed into a B-tree collection", fn["file"] if fn else None, fn["line"] if fn else None)
    ctx.rule("det.walk", n, floor=2, note="directory walks and how their order is neutralised")


def check_sources(ctx, F):
    n = 0
    envs = set()
    for owner, callee, generic, ga, span in calls_of(F):
        n += 1
        if NONDET.search(callee):
            ctx.violate("det.clock", f"{owner_fn(owner)}|{callee.split('::')[-1]}", f"{owner} calls {callee}: a clock / random / process-id value can reach the generated output")
        if callee == "std::env::var":
            envs.add(owner_fn(owner))
        if re.search(r"std::thread::(spawn|scoped::scope|Builder)", callee) and not owner.startswith(OUT_OF_SCOPE):
            ctx.violate("det.threads", owner_fn(owner), f"{owner} starts threads outside the item/spell data printer: output files of the artefacts of this property must be written sequentially")
    # positive example: the matcher must recognise a clock call
    if not NONDET.search("std::time::SystemTime::now") or not NONDET.search("rand::rngs::thread::thread_rng"):
        ctx.violate("det.clock", "fixture", "the clock/random matcher does not recognise its positive example")
    ctx.rule("det.clock", n, floor=30000, note=f"resolved call sites scanned for clock/random/pid sources and thread spawns (expected 0; positive example matched); env::var read in {sorted(e.split('::')[-1] for e in envs)}")


def check_write_funnel(ctx, F):
    n = 0
    for owner, callee, generic, ga, span in calls_of(F):
        if WRITE_PRIMS.match(callee):
            n += 1
            o = owner_fn(owner)
            if not o.startswith("crate::file_utils::"):
                ctx.violate("fs.write-funnel", f"{o}|{callee}", f"{owner} calls {callee} directly; files may only be created, truncated or removed inside file_utils (write-if-different and stale-file sweep)")
            if callee == "std::fs::remove_file" and not o.endswith("::remove_unwritten_files"):
                ctx.violate("fs.write-funnel", f"{o}|remove", f"{owner} removes files outside the stale-file sweep")
    ctx.rule("fs.write-funnel", n, floor=4, note="calls of file creation / truncation / removal primitives and the functions they are confined to")
    # the write-if-different helpers must tolerate a missing target
    m = 0
    for fn in F.all("fn", lambda p: p.startswith("crate::file_utils::") and p.count("::") == 2):
        if fn.get("hir") is None:
            continue
        calls_write = any(H.tag(x) == "call" and (H.call_path(x) or "").endswith("::write_string_to_file") for x in H.walk(fn["hir"]))
        if not calls_write or fn["name"] == "write_string_to_file":
            continue
        m += 1
        path_param = fn["params"][-1][1] if fn["params"] and H.tag(fn["params"][-1]) == "bind" else None
        for x in H.walk(fn["hir"]):
            if H.tag(x) == "mcall" and x[2] in ("unwrap", "expect"):
                recv = H.strip(H.mcall(x)["recv"])
                reads = [y for y in H.walk(recv) if H.tag(y) in ("call", "mcall") and ((H.call_path(y) or "") .endswith("read_to_string") or (H.tag(y) == "mcall" and y[2] == "open"))]
                touches = any(H.tag(y) == "local" and y[1] == path_param for y in H.walk(recv))
                if reads and touches and H.tag(recv) in ("call", "mcall") and (H.call_path(recv) or "").endswith("fs::read_to_string"):
                    ctx.violate("fs.missing-target", fn["path"], f"{fn['path']} unwraps the read of its own target file: when a generated file has been deleted the generator aborts instead of regenerating it", fn["file"], fn["line"])
    # files opened for writing must be truncated (or created fresh): otherwise a shorter new text keeps the old tail
    k = 0
    for fn in F.all("fn", lambda p: p.startswith("crate::")):
        if fn.get("hir") is None or fn["path"].startswith(OUT_OF_SCOPE):
            continue
        for x in H.walk(fn["hir"]):
            if H.tag(x) == "mcall" and x[3] == "std::fs::OpenOptions::open":
                k += 1
                chain = set()
                y = H.strip(H.mcall(x)["recv"])
                while H.tag(y) == "mcall":
                    mc = H.mcall(y)
                    arg = H.strip(mc["args"][0]) if mc["args"] else None
                    if arg is not None and H.tag(arg) == "lit" and arg[2] == "true":
                        chain.add(mc["name"])
                    y = H.strip(H.strip_refs(mc["recv"]))
                if ("write" in chain) and not ({"truncate", "append", "create_new"} & chain):
                    ctx.violate("fs.truncate", fn["path"], f"{fn['path']} opens a file for writing without truncating it (options: {sorted(chain)}): when the new text is shorter than the old file the old tail survives, "
                                "so a stale or longer file never converges to the generated content", fn["file"], fn["line"])
    ctx.rule("fs.truncate", k, floor=2, note="OpenOptions chains: write(true) requires truncate(true) / append / create_new")
    ctx.rule("fs.missing-target", m, floor=2, note="write-if-different helpers: the read of the existing target must not be unwrapped")


def check_clean_cover(ctx, F):
    """write sites whose path is computed per object must be swept: ModFiles::write_file registers what it writes"""
    n = 0
    helpers = ("crate::file_utils::create_and_overwrite_if_not_same_contents", "crate::file_utils::overwrite_if_not_same_contents", "crate::file_utils::write_string_to_file")
    for fn in F.all("fn"):
        if fn.get("hir") is None or fn["path"].startswith("crate::file_utils::") or fn["path"].startswith(OUT_OF_SCOPE):
            continue
        loops = [x for x in H.walk(fn["hir"]) if H.tag(x) == "for"]
        for x in H.walk(fn["hir"]):
            if H.tag(x) == "call" and H.call_path(x) in helpers:
                n += 1
                parg = H.strip_refs(H.call_args(x)[1])
                in_loop = [lp for lp in loops if any(y is x for y in H.walk(lp[3]))]
                loop_vars = {p[1] for lp in in_loop for p in H.walk(lp[1]) if H.tag(p) == "bind"}
                if H.tag(parg) == "local" and parg[1] in loop_vars:
                    ctx.violate("fs.clean-cover", fn["path"], f"{fn['path']} writes one file per loop iteration (path `{parg[1]}`) without registering it with the stale-file sweep (ModFiles): "
                                "pages of objects that no longer exist are never removed", fn["file"], fn["line"])
    ctx.rule("fs.clean-cover", n, floor=18, note="write-helper call sites outside file_utils; per-object paths must go through ModFiles::write_file")


def run(ctx):
    F = facts("wow_message_parser")
    check_hash_iteration(ctx, F)
    check_walks(ctx, F)
    check_sources(ctx, F)
    check_write_funnel(ctx, F)
    check_clean_cover(ctx, F)
    ctx.assume("byte-for-byte reproduction of the ~3,900 committed artefacts and convergence from damaged trees require running the generator (which, in this snapshot, aborts in its documentation printer on the unmodified tree) and are not decided")
    ctx.assume("the item/spell data printer (base_printer) is outside the artefact list of the property; its tie-breaking by hash order in Optimizations::new is noted in DESIGN.md, not reported")
    return "other", EXPLANATION, {}
