"""C08 — generated artefacts are a deterministic, reproducible function of the wowm (structural clauses on the generator)."""
import re

from .. import hir as H
from ..facts import facts

EXPLANATION = (
    "Structural necessary conditions on the generator (wow_message_parser), decided on its resolved program: D1 every iteration "
    "over a hash-ordered collection (MIR, resolved callees) must be discharged by an order-insensitive use (collected and sorted "
    "before any other use; results inserted only into B-tree collections; one write per key to that key's own file) or lie in "
    "the item/spell data printer, which produces none of the artefacts of this property; directory walks must feed a B-tree "
    "map or a sort; no clock / random / process-id source is called; threads are spawned only in the data printer. D2 every "
    "file creation or truncation goes through file_utils (who-may-call) and the write-if-different helpers tolerate a missing "
    "target instead of unwrapping its read, so a tree with deleted artefacts is regenerated, not aborted. D3 every write site "
    "whose path is computed per object lies under a directory that the stale-file sweep covers. Byte-for-byte reproduction of "
    "the committed artefacts and convergence from damaged trees need a run of the generator and are not decided."
)
HASH_ITER = re.compile(r"::(iter|iter_mut|keys|values|values_mut|into_iter|drain|into_keys|into_values|retain)$")
NONDET = re.compile(r"(std::time::SystemTime|std::time::Instant::now|rand::|std::process::id|thread_rng|getrandom)")
WRITE_PRIMS = re.compile(r"^std::fs::(write|File::create|File::create_new|OpenOptions::open|remove_file|remove_dir|remove_dir_all|rename|copy|create_dir|create_dir_all)$")
OUT_OF_SCOPE = "crate::base_printer::"


def owner_fn(path):
    return re.sub(r"::\{closure#\d+\}", "", path)


def calls_of(F):
    for m in F.all("mir"):
        for c in m["calls"]:
            yield m["path"], (c[2] or c[1] or ""), (c[1] or ""), (c[3] or ""), c[0]


def is_hash_recv(callee, ga):
    s = callee + " " + ga
    hashy = "hashbrown::" in s or "std::collections::hash::" in s or "std::collections::HashMap" in s or "std::collections::HashSet" in s
    # the method is the last path segment (`HashMap::<K, V, S>::iter`, `<&HashMap<..> as IntoIterator>::into_iter`)
    return hashy and HASH_ITER.search("::" + callee.rsplit("::", 1)[-1]) is not None


# ---- discharge predicates for hash iteration (semantic shapes on typed HIR) -------------------------------------------
def collected_then_sorted(fn):
    """let mut v = map.into_iter().collect::<Vec<_>>();  v.sort*(..)  before any other use"""
    stmts = H.stmts_of(fn["hir"])
    for i, st in enumerate(stmts):
        if st[0] == "let" and H.tag(st[1]) == "bind" and st[2] is not None:
            e = H.strip(st[2])
            if H.tag(e) == "mcall" and e[2] == "collect" and any(H.tag(x) == "mcall" and x[2] in ("into_iter", "iter", "drain") and "hash" in (x[5] or "").lower() for x in H.walk(e)):
                name = st[1][1]
                nxt = stmts[i + 1] if i + 1 < len(stmts) else None
                if nxt is not None and nxt[0] in ("semi", "expr"):
                    c = H.strip(nxt[1])
                    if H.tag(c) == "mcall" and c[2].startswith("sort") and H.local_name(H.strip_refs(H.mcall(c)["recv"])) == name:
                        return True
    return False


def loop_over_hash(fn):
    out = []
    for x in H.walk(fn["hir"]):
        if H.tag(x) == "for" and x[2] is not None:
            it = H.strip_refs(x[2])
            ty = None
            if H.tag(it) == "local":
                ty = next((p[4] for p in fn["params"] if H.tag(p) == "bind" and p[1] == it[1]), None)
                if ty is None:
                    for y in H.walk(fn["hir"]):
                        if H.tag(y) == "let" and H.tag(y[1]) == "bind" and y[1][1] == it[1]:
                            ty = y[1][4]
            if ty and "hash" in ty.lower():
                out.append(x)
    return out


def btree_sink_only(fn):
    """for (..) in &hash_map { ...; <BTreeSet param>.insert(..) } — every escaping effect of the body is a B-tree insert"""
    loops = loop_over_hash(fn)
    if not loops:
        return False
    btree_params = {p[1] for p in fn["params"] if H.tag(p) == "bind" and "btree" in (p[4] or "").lower()}
    for lp in loops:
        body = lp[3]
        declared = {y[1][1] for y in H.walk(body) if H.tag(y) == "let" and H.tag(y[1]) == "bind"}
        for y in H.walk(body):
            if H.tag(y) == "mcall":
                mc = H.mcall(y)
                recv = H.local_name(H.strip_refs(mc["recv"]))
                if "&mut" in (mc["recv_ty"] or "") and recv is not None and recv not in declared:
                    if not (recv in btree_params and mc["name"] in ("insert", "extend")):
                        return False
            if H.tag(y) in ("asg", "asgop"):
                tgt = H.field_chain(y[1] if H.tag(y) == "asg" else y[4])
                if tgt is None or tgt[0] not in declared:
                    return False
    return True


def one_write_per_key(fn):
    """for (path, s) in &files { write_if_different(s, path) } — one file per key, nothing else"""
    for lp in loop_over_hash(fn):
        names = [p[1] for p in H.walk(lp[1]) if H.tag(p) == "bind"]
        stmts = [s for s in H.stmts_of(lp[3])]
        if len(stmts) == 1:
            c = H.strip(stmts[0][1])
            if H.tag(c) == "call" and (H.call_path(c) or "").startswith("crate::file_utils::") and sorted(H.local_name(H.strip_refs(a)) or "" for a in H.call_args(c)) == sorted(names):
                return True
    return False


DISCHARGE = [("collected and sorted before use", collected_then_sorted), ("one write per key to the key's own path", one_write_per_key),
             ("results only inserted into B-tree collections", btree_sink_only)]


def check_hash_iteration(ctx, F):
    sites = {}
    for owner, callee, generic, ga, span in calls_of(F):
        if is_hash_recv(callee, ga) or is_hash_recv(generic, ga):
            sites.setdefault(owner_fn(owner), set()).add(callee.split("::")[-1])
    n = 0
    table = []
    for owner in sorted(sites):
        n += 1
        if owner.startswith(OUT_OF_SCOPE):
            table.append((owner, "out of scope: item/spell data printer (wow_items / wow_spells are not artefacts of this property)"))
            continue
        fn = F.fn(owner)
        why = None
        if fn is not None and fn.get("hir") is not None:
            for name, pred in DISCHARGE:
                if pred(fn):
                    why = name
                    break
        if why is None:
            ctx.violate("det.hash-iter", f"{owner}", f"{owner} iterates a hash-ordered collection ({sorted(sites[owner])}) and the order can reach the generated output: "
                        "none of the order-insensitive uses applies (sorted after collection / B-tree sink / one write per key)", fn["file"] if fn else None, fn["line"] if fn else None)
        else:
            table.append((owner, why))
    # the expected number of such sites is "as few as possible": no floor, but the matcher must recognise its positive example on every run
    if not is_hash_recv("std::iter::traits::collect::IntoIterator::into_iter", "&hashbrown::map::HashMap<std::path::PathBuf, std::string::String>") \
            or not is_hash_recv("std::collections::hash::map::HashMap::<K, V, S>::iter", "") or is_hash_recv("std::collections::btree::map::BTreeMap::<K, V, A>::iter", ""):
        ctx.violate("det.hash-iter", "fixture", "the hash-iteration matcher does not recognise its positive example")
    ctx.rule("det.hash-iter", n, floor=0, note="; ".join(f"{o.split('::')[-1]}: {w}" for o, w in table))


def check_walks(ctx, F):
    n = 0
    owners = set()
    for owner, callee, generic, ga, span in calls_of(F):
        if "walkdir::WalkDir" in callee and callee.endswith("into_iter") or callee.endswith("std::fs::read_dir"):
            owners.add(owner_fn(owner))
    for owner in sorted(owners):
        n += 1
        fn = F.fn(owner)
        ok = False
        why = ""
        if fn is not None:
            # the walk only feeds a B-tree map/set insert, or its consumer sorts the objects
            inserts = [H.mcall(y) for y in H.walk(fn["hir"]) if H.tag(y) == "mcall" and y[2] == "insert"]

            def is_walk(y):
                if H.tag(y) == "mcall":
                    return y[2] == "into_iter" and any("WalkDir" in (t_ or "") for t_ in (y[3], y[5], y[9] if len(y) > 9 else None))
                return H.tag(y) == "call" and ((H.call_path(y) or "").endswith("std::fs::read_dir") or "walkdir::WalkDir" in (H.call_path(y) or ""))
            # the iterator chain that contains the walk ends in a collect into a B-tree collection (whatever adaptors sit in between,
            # and also when the walk itself sits in a closure handed to flat_map), or into a vector that is sorted in this function
            chains = [H.mcall(y) for y in H.walk(fn["hir"]) if H.tag(y) == "mcall" and y[2] == "collect" and any(is_walk(z) for z in H.walk(y))]
            sorted_locals = {H.strip_refs(H.mcall(y)["recv"])[1] for y in H.walk(fn["hir"]) if H.tag(y) == "mcall" and y[2] in ("sort", "sort_unstable", "sort_by", "sort_by_key", "sort_unstable_by", "sort_unstable_by_key", "sort_by_cached_key")
                             and H.tag(H.strip_refs(H.mcall(y)["recv"])) == "local"}
            lets = {}
            for y in H.walk(fn["hir"]):
                if H.tag(y) == "let" and len(y) > 3 and H.tag(y[1]) == "bind" and isinstance(y[3], list):
                    for z in H.walk(y[3]):
                        if H.tag(z) == "mcall" and z[2] == "collect" and any(is_walk(w) for w in H.walk(z)):
                            lets[id(z)] = y[1][1]
            if inserts and all("btree" in (m["recv_ty"] or "").lower() for m in inserts):
                ok, why = True, "entries are inserted into a BTreeMap"
            elif chains and all("btree" in (m["ty"] or "").lower() for m in chains):
                ok, why = True, "the walk is collected into a B-tree collection"
            elif chains and all("btree" in (m["ty"] or "").lower() or any(lets.get(id(y)) in sorted_locals for y in H.walk(fn["hir"]) if H.tag(y) == "mcall" and y[2] == "collect" and H.mcall(y) == m) for m in chains):
                ok, why = True, "the walk is collected and sorted"
            elif owner == "crate::load_files":
                # parsed objects are sorted by Objects::sort_members before anything is printed
                sorters = [p for p in F.paths("fn") if p.endswith("::sort_members")]
                called = any(callee.endswith("::sort_members") for _o, callee, *_r in calls_of(F))
                ok, why = bool(sorters) and called, "objects are sorted by sort_members before printing"
        if not ok:
            ctx.violate("det.walk", owner, f"{owner} walks a directory and the (file-system dependent) order is neither sorted nor fed into a B-tree collection", fn["file"] if fn else None, fn["line"] if fn else None)
    ctx.rule("det.walk", n, floor=2, note="directory walks and how their order is neutralised")


def check_sources(ctx, F):
    n = 0
    envs = set()
    for owner, callee, generic, ga, span in calls_of(F):
        n += 1
        if NONDET.search(callee):
            ctx.violate("det.clock", f"{owner_fn(owner)}|{callee.split('::')[-1]}", f"{owner} calls {callee}: a clock / random / process-id value can reach the generated output")
        if callee == "std::env::var":
            envs.add(owner_fn(owner))
        if re.search(r"std::thread::(spawn|scoped::scope|Builder)", callee) and not owner.startswith(OUT_OF_SCOPE):
            ctx.violate("det.threads", owner_fn(owner), f"{owner} starts threads outside the item/spell data printer: output files of the artefacts of this property must be written sequentially")
    # positive example: the matcher must recognise a clock call
    if not NONDET.search("std::time::SystemTime::now") or not NONDET.search("rand::rngs::thread::thread_rng"):
        ctx.violate("det.clock", "fixture", "the clock/random matcher does not recognise its positive example")
    ctx.rule("det.clock", n, floor=30000, note=f"resolved call sites scanned for clock/random/pid sources and thread spawns (expected 0; positive example matched); env::var read in {sorted(e.split('::')[-1] for e in envs)}")


ENV_OK = {
    # (function, variable): why reading it cannot change an artefact of this property
    ("crate::parser::stats::print_message_stats", "WOWM_ONLY_PRINT_NAME_OF_SINGLE_MESSAGE"): "selects what the statistics print on the console",
    ("crate::error_printer::wowm_exit", "WOWM_PRINT_TEST_ERRORS"): "prints the diagnostic of an expected failure while the tests run",
    ("crate::wireshark_printer::print_wireshark", "WOWM_WIRESHARK"): "names an additional directory the Wireshark fragments are copied to",
    ("crate::base_printer::print_base", "WOWM_SQLITE_DB_PATH"): "locates the item / spell database (data crates outside the artefact list of this property)",
}


def check_env(ctx, F):
    """det.env: the process environment is not an input of the artefacts: every read of an environment variable in the generator stands in
    one of the tabled functions whose use of it cannot reach a generated file (a variable baked into generated text makes the same wowm give
    different artefacts in two shells)"""
    n = 0
    for fn in F.all("fn"):
        if fn.get("hir") is None or fn["path"].startswith(OUT_OF_SCOPE) and False:
            continue
        for x in H.walk(fn["hir"]):
            p = H.call_path(x) if H.tag(x) == "call" else None
            if p not in ("std::env::var", "std::env::var_os", "std::env::vars", "std::env::vars_os", "std::env::args", "std::env::args_os", "std::env::current_dir", "std::env::temp_dir", "std::env::home_dir"):
                continue
            n += 1
            a = H.call_args(x)
            var = None
            if a:
                a0 = H.strip_refs(a[0]) if hasattr(H, "strip_refs") else H.strip(a[0])
                if H.tag(a0) == "lit" and a0[1] == "str":
                    var = a0[2]
            owner = fn["path"].split("::{closure")[0]
            if (owner, var) in ENV_OK:
                continue
            ctx.violate("det.env", f"{owner}|{p.split('::')[-1]}|{var}", f"{owner} reads {p}({var!r}): the generator's environment becomes an input of what it prints "
                        f"(the same wowm gives different artefacts in two shells); only {sorted(v for _o, v in ENV_OK)} may be read, each in its tabled function", fn["file"], fn["line"])
    ctx.rule("det.env", n, floor=4, note="reads of the process environment in the generator, each confined to a tabled function whose use of it cannot reach a generated file")


def check_write_funnel(ctx, F):
    n = 0
    for owner, callee, generic, ga, span in calls_of(F):
        if WRITE_PRIMS.match(callee):
            n += 1
            o = owner_fn(owner)
            if not o.startswith("crate::file_utils::"):
                ctx.violate("fs.write-funnel", f"{o}|{callee}", f"{owner} calls {callee} directly; files may only be created, truncated or removed inside file_utils (write-if-different and stale-file sweep)")
            if callee == "std::fs::remove_file" and not o.endswith("::remove_unwritten_files"):
                ctx.violate("fs.write-funnel", f"{o}|remove", f"{owner} removes files outside the stale-file sweep")
    ctx.rule("fs.write-funnel", n, floor=4, note="calls of file creation / truncation / removal primitives and the functions they are confined to")
    # the write-if-different helpers must tolerate a missing target
    m = 0
    for fn in F.all("fn", lambda p: p.startswith("crate::file_utils::") and p.count("::") == 2):
        if fn.get("hir") is None:
            continue
        calls_write = any(H.tag(x) == "call" and (H.call_path(x) or "").endswith("::write_string_to_file") for x in H.walk(fn["hir"]))
        if not calls_write or fn["name"] == "write_string_to_file":
            continue
        m += 1
        path_param = fn["params"][-1][1] if fn["params"] and H.tag(fn["params"][-1]) == "bind" else None
        for x in H.walk(fn["hir"]):
            if H.tag(x) == "mcall" and x[2] in ("unwrap", "expect"):
                recv = H.strip(H.mcall(x)["recv"])
                reads = [y for y in H.walk(recv) if H.tag(y) in ("call", "mcall") and ((H.call_path(y) or "") .endswith("read_to_string") or (H.tag(y) == "mcall" and y[2] == "open"))]
                touches = any(H.tag(y) == "local" and y[1] == path_param for y in H.walk(recv))
                if reads and touches and H.tag(recv) in ("call", "mcall") and (H.call_path(recv) or "").endswith("fs::read_to_string"):
                    ctx.violate("fs.missing-target", fn["path"], f"{fn['path']} unwraps the read of its own target file: when a generated file has been deleted the generator aborts instead of regenerating it", fn["file"], fn["line"])
    # files opened for writing must be truncated (or created fresh): otherwise a shorter new text keeps the old tail
    k = 0
    for fn in F.all("fn", lambda p: p.startswith("crate::")):
        if fn.get("hir") is None or fn["path"].startswith(OUT_OF_SCOPE):
            continue
        for x in H.walk(fn["hir"]):
            if H.tag(x) == "mcall" and x[3] == "std::fs::OpenOptions::open":
                k += 1
                chain = set()
                y = H.strip(H.mcall(x)["recv"])
                while H.tag(y) == "mcall":
                    mc = H.mcall(y)
                    arg = H.strip(mc["args"][0]) if mc["args"] else None
                    if arg is not None and H.tag(arg) == "lit" and arg[2] == "true":
                        chain.add(mc["name"])
                    y = H.strip(H.strip_refs(mc["recv"]))
                if ("write" in chain) and not ({"truncate", "append", "create_new"} & chain):
                    ctx.violate("fs.truncate", fn["path"], f"{fn['path']} opens a file for writing without truncating it (options: {sorted(chain)}): when the new text is shorter than the old file the old tail survives, "
                                "so a stale or longer file never converges to the generated content", fn["file"], fn["line"])
    ctx.rule("fs.truncate", k, floor=2, note="OpenOptions chains: write(true) requires truncate(true) / append / create_new")
    ctx.rule("fs.missing-target", m, floor=2, note="write-if-different helpers: the read of the existing target must not be unwrapped")


def check_clean_cover(ctx, F):
    """write sites whose path is computed per object must be swept: ModFiles::write_file registers what it writes"""
    n = 0
    helpers = ("crate::file_utils::create_and_overwrite_if_not_same_contents", "crate::file_utils::overwrite_if_not_same_contents", "crate::file_utils::write_string_to_file")
    for fn in F.all("fn"):
        if fn.get("hir") is None or fn["path"].startswith("crate::file_utils::") or fn["path"].startswith(OUT_OF_SCOPE):
            continue
        loops = [x for x in H.walk(fn["hir"]) if H.tag(x) == "for"]
        for x in H.walk(fn["hir"]):
            if H.tag(x) == "call" and H.call_path(x) in helpers:
                n += 1
                parg = H.strip_refs(H.call_args(x)[1])
                in_loop = [lp for lp in loops if any(y is x for y in H.walk(lp[3]))]
                loop_vars = {p[1] for lp in in_loop for p in H.walk(lp[1]) if H.tag(p) == "bind"}
                if H.tag(parg) == "local" and parg[1] in loop_vars:
                    ctx.violate("fs.clean-cover", fn["path"], f"{fn['path']} writes one file per loop iteration (path `{parg[1]}`) without registering it with the stale-file sweep (ModFiles): "
                                "pages of objects that no longer exist are never removed", fn["file"], fn["line"])
    ctx.rule("fs.clean-cover", n, floor=12, note="write-helper call sites outside file_utils; per-object paths must go through ModFiles::write_file")


# ---- tie order: a stable sort by a projection keeps ties in input order; in the walk-ordered region that is file-system order ----------
SORTS = ("sort_by", "sort_by_key", "sort_unstable_by", "sort_unstable_by_key", "sort_by_cached_key")
WALK_ORDERED_TYPES = ("::parsed::parsed_container::ParsedContainer", "::parsed::parsed_definer::ParsedDefiner", "::parsed::parsed_test_case::ParsedTestCase", "ParsedObjects")


def _strip_refs(n):
    n = H.strip(n)
    while H.tag(n) in ("ref", "refmut") or (H.tag(n) == "un" and n[2] == "Deref"):
        n = H.strip(n[1] if H.tag(n) in ("ref", "refmut") else n[4])
    return n


def _projection_of(closure, method):
    """None when the comparator orders whole elements; else a description of the projection (and the tuple index when it is one)"""
    params = [p[1] for p in closure[2] if H.tag(p) == "bind"]
    body = H.strip(closure[3])
    if method.endswith("_key"):
        b = _strip_refs(body)
        if H.tag(b) == "local" and params and b[1] == params[0]:
            return None
        if H.tag(b) == "mcall" and H.mcall(b)["name"] in ("clone", "to_owned") and H.tag(_strip_refs(H.mcall(b)["recv"])) == "local":
            return None
        return (H.short(body, maxlen=60), b[2] if H.tag(b) == "field" else None)
    if H.tag(body) == "mcall" and H.mcall(body)["name"] in ("cmp", "partial_cmp"):
        m = H.mcall(body)
        a, b = _strip_refs(m["recv"]), _strip_refs(m["args"][0])
        if H.tag(a) == "local" and H.tag(b) == "local" and {a[1], b[1]} == set(params[:2]):
            return None
        return (H.short(body, maxlen=60), a[2] if H.tag(a) == "field" and H.tag(b) == "field" and a[2] == b[2] else None)
    return (H.short(body, maxlen=60), None)


def _walk_parents(n, anc=()):
    if isinstance(n, list):
        if n and isinstance(n[0], str):
            yield n, anc
            anc = anc + (n,)
        for x in n:
            if isinstance(x, list):
                yield from _walk_parents(x, anc)


def _uses_of_local(body, name):
    """-> list of ('field', k) / ('whole',) for every use of the local"""
    out = []
    for x, anc in _walk_parents(body):
        if H.tag(x) == "local" and x[1] == name:
            par = anc[-1] if anc else None
            while par is not None and H.tag(par) in ("ref", "refmut", "paren"):
                par = anc[anc.index(par) - 1] if anc.index(par) > 0 else None
            if par is not None and H.tag(par) == "field" and H.strip(par[1]) is x or (par is not None and H.tag(par) == "field" and _strip_refs(par[1]) == x):
                out.append(("field", par[2]))
            else:
                out.append(("whole",))
    return out


def _effect_free(body):
    """a loop body whose only effects are early returns of literals / continue / break (so visiting order among elements is invisible)"""
    for x in H.walk(body):
        t = H.tag(x)
        if t in ("call", "mcall", "assign", "assignop", "mac", "closure", "while", "loop", "for"):
            return False
        if t == "ret" and x[1] is not None and H.tag(H.strip(x[1])) != "lit":
            return False
    return True


def _btree_sink_loop(body):
    """a loop body whose only effect is inserting values built by pure constructors into B-tree collections: the collection's own order
    makes the visiting order invisible"""
    b = H.strip(body)
    stmts = H.stmts_of(b) if H.tag(b) == "block" else [["tail", b]]
    if not stmts:
        return False
    for st in stmts:
        e = H.strip(st[1]) if st[0] in ("semi", "expr", "tail") else None
        if e is None or H.tag(e) != "mcall" or e[2] != "insert":
            return False
        mc = H.mcall(e)
        if "btree" not in (mc["recv_ty"] or "").lower():
            return False
        for a in mc["args"]:
            for y in H.walk(a):
                # constructors / conversions only: no I/O, no mutation
                if H.tag(y) == "mcall" and y[2] in ("push", "insert", "write", "write_all", "wln", "w", "extend", "remove", "push_str"):
                    return False
                if H.tag(y) in ("asg", "asgop", "while", "loop", "for", "mac"):
                    return False
    return True


def check_first_wins(ctx, F):
    """det.first-wins: in the walk-ordered phase (functions over Parsed* slices, before sort_members) a map keyed by an object's NAME alone
    keeps, for objects that share a name (one per version - the corpus has hundreds), the value of whichever the file-system walk delivered
    first (`entry().or_insert`) or last (`insert`): the result then depends on the directory order. A set of names (no value) is fine."""
    n = 0
    for fn in F.all("fn"):
        if fn.get("hir") is None or fn["path"].startswith(OUT_OF_SCOPE):
            continue
        if not any(any(t in ty for t in WALK_ORDERED_TYPES) for ty in fn["inputs"]):
            continue
        for x in H.walk(fn["hir"]):
            if H.tag(x) != "mcall":
                continue
            mc = H.mcall(x)
            key = val = None
            rty = (mc["recv_ty"] or "")
            if mc["name"] == "insert" and len(mc["args"]) == 2 and ("BTreeMap" in rty or "HashMap" in rty):
                key, val = mc["args"]
            elif mc["name"] in ("or_insert", "or_insert_with") and len(mc["args"]) == 1 and "Entry" in rty:
                ent = H.strip(mc["recv"])
                if H.tag(ent) == "mcall" and ent[2] == "entry" and H.mcall(ent)["args"]:
                    key, val = H.mcall(ent)["args"][0], mc["args"][0]
            if key is None:
                continue
            n += 1
            kcalls = [y[2] for y in H.walk(key) if H.tag(y) == "mcall"] + [y[2] for y in H.walk(key) if H.tag(y) == "field"]
            by_name_only = any(c in ("name", "get_real_name") for c in kcalls) and not any(c in ("tags", "versions", "file_info", "all_versions", "first_version") for c in kcalls)
            v = H.strip(val)
            trivial = H.tag(v) == "lit" or (H.tag(v) == "tup" and not v[1]) or (H.tag(v) == "path" and "Ctor" in str(v[2]))
            if by_name_only and not trivial:
                ctx.violate("det.first-wins", f"{fn['path']}|{mc['name']}", f"{fn['path']}: a map keyed by the object's name alone is filled while walking the parsed objects in file-system order "
                            f"(`{H.short(x, maxlen=90)}`): for same-named objects of different versions the value that is kept depends on the order in which the wowm files were read", fn["file"], fn["line"])
    ctx.rule("det.first-wins", n, floor=0, note="map insertions with a value in functions of the walk-ordered phase; keyed by name alone = order-dependent")


def _projects_to_key(chain, key_idx):
    """one `map(|(k, _)| f(k))` / `map(|e| f(e.<key>))` of the chain uses nothing of the element but its sort key (and only `filter`s and
    value-preserving adaptors come before it)"""
    for c in chain[1:]:
        mc = H.mcall(c)
        if mc["name"] in ("filter", "cloned", "copied", "by_ref", "rev"):
            continue
        if mc["name"] != "map" or not mc["args"]:
            return False
        cl = H.strip(mc["args"][0])
        if H.tag(cl) != "closure" or len(cl[2]) != 1:
            return False
        pat, body = cl[2][0], cl[3]
        while H.tag(pat) in ("pref", "pderef"):
            pat = pat[1]
        if H.tag(pat) == "ptup":
            for ci, cp in enumerate(pat[1]):
                while H.tag(cp) in ("pref", "pderef"):
                    cp = cp[1]
                if H.tag(cp) == "wild":
                    continue
                if H.tag(cp) != "bind":
                    return False
                used = any(H.tag(z) == "local" and z[1] == cp[1] for z in H.walk(body))
                if used and str(ci) != str(key_idx):
                    return False
            return True
        if H.tag(pat) == "bind":
            uses = _uses_of_local(body, pat[1])
            return bool(uses) and all(u == ("field", key_idx) for u in uses)
        return False
    return False


def check_tie_order(ctx, F):
    fns = [fn for fn in F.all("fn") if fn.get("hir") is not None and not fn["path"].startswith(OUT_OF_SCOPE)]
    n_sorts = n_partial = n_cons = 0
    tainted_fns = {}
    for fn in fns:
        region = any(any(t in ty for t in WALK_ORDERED_TYPES) for ty in fn["inputs"])
        for x in H.walk(fn["hir"]):
            if H.tag(x) == "mcall" and H.mcall(x)["name"] in SORTS and H.mcall(x)["path"].startswith("std::slice::"):
                n_sorts += 1
                m = H.mcall(x)
                cl = H.strip(m["args"][0]) if m["args"] else None
                proj = _projection_of(cl, m["name"]) if cl is not None and H.tag(cl) == "closure" else ("comparator is not a closure", None)
                if proj is None:
                    continue
                n_partial += 1
                if not region:
                    continue  # input order is already canonical (objects are totally ordered by sort_members / derived from B-trees)
                recv = _strip_refs(m["recv"])
                tail = _strip_refs(fn["hir"][2]) if H.tag(fn["hir"]) == "block" and fn["hir"][2] is not None else None
                if H.tag(recv) == "local" and tail is not None and H.tag(tail) == "local" and tail[1] == recv[1]:
                    tainted_fns[fn["path"]] = (fn, proj)
                else:
                    ctx.violate("det.tie-order", f"{fn['path']}|flow", f"{fn['path']}: `{H.short(x, maxlen=80)}` sorts by a projection ({proj[0]}) in the walk-ordered phase (before sort_members): elements with equal keys stay in "
                                "file-system order, and where the vector goes could not be traced — review", fn["file"], fn["line"])
    # flow into struct fields
    tainted_fields = {}
    for tp, (tfn, proj) in tainted_fns.items():
        found = False
        for fn in fns:
            for st in H.walk(fn["hir"]):
                if H.tag(st) == "let" and st[2] is not None and H.tag(H.strip(st[2])) == "call" and (H.call_path(H.strip(st[2])) or "") == tp and H.tag(st[1]) == "bind":
                    lname = st[1][1]
                    for c in H.walk(fn["hir"]):
                        if H.tag(c) == "call" and any(H.tag(_strip_refs(a)) == "local" and _strip_refs(a)[1] == lname for a in H.call_args(c)):
                            callee = F.fn(H.call_path(c) or "")
                            if callee is None:
                                continue
                            idx = next(i for i, a in enumerate(H.call_args(c)) if H.tag(_strip_refs(a)) == "local" and _strip_refs(a)[1] == lname)
                            pname = callee["params"][idx][1] if H.tag(callee["params"][idx]) == "bind" else None
                            owner = callee["path"].rsplit("::", 1)[0]
                            adt = next((a for a in F.all("adt") if a["path"] == owner and a["kind"] == "Struct"), None)
                            if adt is not None and pname in [f[0] for f in adt["variants"][0][2]]:
                                tainted_fields[(owner, pname)] = (tfn, proj)
                                found = True
        if not found:
            ctx.violate("det.tie-order", f"{tp}|flow", f"{tp} returns a vector whose ties are in file-system order (sorted by {proj[0]} only) and the struct field it ends up in could not be determined — review", tfn["file"], tfn["line"])
    # consumers of the tainted fields
    for (owner, field), (tfn, proj) in tainted_fields.items():
        key_idx = proj[1]
        accessors = set()
        for fn in fns:
            if fn["path"].startswith(owner + "::") and H.tag(fn["hir"]) == "block" and not fn["hir"][1] and fn["hir"][2] is not None:
                t = _strip_refs(fn["hir"][2])
                if H.tag(t) == "field" and t[2] == field and H.tag(_strip_refs(t[1])) == "local" and _strip_refs(t[1])[1] == "self":
                    accessors.add(fn["path"])
        for fn in fns:
            if fn["path"] in accessors:
                continue
            for x, anc in _walk_parents(fn["hir"]):
                is_acc = H.tag(x) == "mcall" and H.mcall(x)["path"] in accessors
                is_field = H.tag(x) == "field" and x[2] == field and fn["path"].startswith(owner + "::") and H.tag(_strip_refs(x[1])) == "local" and _strip_refs(x[1])[1] == "self"
                if not (is_acc or is_field):
                    continue
                if is_field and fn["name"] in ("new", "eq", "clone", "fmt", "cmp", "partial_cmp", "hash"):
                    continue
                n_cons += 1
                chain = []
                cur = x
                up = list(anc)
                verdict = None
                while up:
                    par = up[-1]
                    tp_ = H.tag(par)
                    if tp_ in ("ref", "refmut", "paren", "block") and (tp_ != "block" or par[2] is cur):
                        cur = par
                        up.pop()
                        continue
                    if tp_ == "mcall" and _strip_refs(H.mcall(par)["recv"]) is _strip_refs(cur) or (tp_ == "mcall" and H.mcall(par)["recv"] is cur):
                        chain.append(par)
                        cur = par
                        up.pop()
                        continue
                    break
                par = up[-1] if up else None
                names = [H.mcall(c)["name"] for c in chain]
                where = f"{fn['path']}: `{H.short(chain[-1] if chain else x, maxlen=90)}`"
                if par is not None and H.tag(par) == "for" and par[2] is cur or (par is not None and H.tag(par) == "for" and _strip_refs(par[2]) is _strip_refs(cur)):
                    pat = par[1]
                    var = None
                    for y in H.walk(pat):
                        if H.tag(y) == "bind":
                            var = y[1]
                    uses = _uses_of_local(par[3], var) if var else [("whole",)]
                    # `for (name, _) in v` / `for (name, usage) in v`: a component bound by the pattern is that field of the element
                    tp = pat
                    while H.tag(tp) in ("pref", "pderef") or (H.tag(tp) in ("ts", "ps") and str(tp[1]).endswith("::Some")):
                        tp = tp[1] if H.tag(tp) in ("pref", "pderef") else (tp[2][0] if H.tag(tp) == "ts" else tp[2][0][1])
                    if H.tag(tp) == "ptup":
                        uses = []
                        for ci, cp in enumerate(tp[1]):
                            while H.tag(cp) in ("pref", "pderef"):
                                cp = cp[1]
                            if H.tag(cp) == "bind":
                                if any(H.tag(z) == "local" and z[1] == cp[1] for z in H.walk(par[3])):
                                    uses.append(("field", str(ci)))
                            elif H.tag(cp) != "wild":
                                uses.append(("whole",))
                        var = var or "element"
                    only_key = key_idx is not None and all(u == ("field", key_idx) for u in uses)
                    if not only_key and not _effect_free(par[3]) and not _btree_sink_loop(par[3]):
                        verdict = (f"iterates the vector in order and its loop body has effects that use more than the sort key (`{var}` used as "
                                   f"{sorted(set('.' + u[1] if u[0] == 'field' else 'whole value' for u in uses))})")
                elif names and names[0] in ("iter", "into_iter") and key_idx is not None and _projects_to_key(chain, key_idx):
                    pass  # a `map` keeps only the sort key of each element: the sequence of keys does not depend on how ties are ordered
                elif names and names[0] in ("iter", "into_iter"):
                    term = names[-1]
                    mids = names[1:-1]
                    if any(mm not in ("map", "filter", "filter_map", "cloned", "copied") for mm in mids):
                        verdict = f"uses the order-sensitive adaptor chain {names}"
                    elif term in ("any", "all", "count"):
                        pass
                    elif term == "collect":
                        rty = chain[-1][8] if len(chain[-1]) > 8 and isinstance(chain[-1][8], str) else ""
                        if not rty.startswith(("std::collections::BTreeSet", "std::collections::BTreeMap", "std::collections::btree")):
                            verdict = f"collects the elements in order into `{rty[:60]}`"
                    elif len(names) == 1:
                        verdict = "hands out an iterator over the vector"
                    else:
                        verdict = f"ends in the order-sensitive `{term}` (first match / position / fold)"
                elif names and names[-1] in ("is_empty", "len", "contains"):
                    pass
                else:
                    verdict = "uses the vector as a whole (escapes to code that was not analysed)"
                if verdict:
                    ctx.violate("det.tie-order", f"{fn['path']}|{field}", f"{where} {verdict}; `{owner.split('::')[-1]}.{field}` is sorted by {proj[0]} only ({tfn['path'].split('::')[-1]}), "
                                "so entries with equal keys are in the order the file system lists the wowm files: the output depends on the directory order", fn["file"], fn["line"])
    ctx.rule("det.tie-order", n_sorts, floor=8, note=f"sort sites ({n_partial} by a projection, {len(tainted_fns)} of them in the walk-ordered phase); {len(tainted_fields)} tie-ordered struct field(s), "
             f"{n_cons} consumer sites all order-insensitive on ties (any/all/len/is_empty, B-tree sinks, loops that only read the sort key or only return constants)")
    if tainted_fns and n_cons < 4:
        ctx.violate("det.tie-order", "floor|consumers", f"only {n_cons} consumers of the tie-ordered field(s) found, 6 were confirmed by reading and a refactor may merge two (anchor disappeared)")


def check_write_witness(ctx, F):
    """fs.write-witness: the write-if-different helpers interpreted on a small abstract file system: whatever the target file held
    before (missing, equal, different, a prefix of the new text, the new text followed by a stale tail, empty), it holds exactly the
    new text afterwards — the per-file step of "a run started from a stale tree converges"."""
    from ..minieval import Mini, Panic, Unsupported
    FB = {"wow_message_parser": F}
    FU = "crate::file_utils::"
    n = 0

    class Handle:
        def __init__(self, fs, path, r, w, pos=0, limit=None):
            self.fs, self.path, self.r, self.w, self.pos, self.limit = fs, path, r, w, pos, limit

    def run_one(fn_name, before, text):
        fs = {}
        if before is not None:
            fs["out/f.rs"] = list(before)
        stats = {"writes": 0}

        def opt_new(a):
            return ("struct", "OpenOptions", {"read": False, "write": False, "truncate": False, "create": False, "append": False, "create_new": False})

        def opt_set(k):
            def f(a):
                a[0][2][k] = a[1]
                return a[0]
            return f

        def opt_open(a):
            o, path = a[0][2], a[1]
            exists = path in fs
            if o["create_new"] and exists:
                return ("Err", "AlreadyExists")
            if not exists:
                if (o["create"] or o["create_new"]) and (o["write"] or o["append"]):
                    fs[path] = []
                else:
                    return ("Err", "NotFound")
            if o["truncate"] and o["write"]:
                fs[path] = []
            return ("Ok", Handle(fs, path, o["read"], o["write"] or o["append"], pos=len(fs[path]) if o["append"] else 0))

        def file_create(a):
            fs[a[0]] = []
            return ("Ok", Handle(fs, a[0], False, True))

        def file_open(a):
            return ("Ok", Handle(fs, a[0], True, False)) if a[0] in fs else ("Err", "NotFound")

        def read_all(a):
            h, buf = a[0], a[1]
            if not isinstance(h, Handle) or not h.r or not isinstance(buf, list):
                return ("Err", "NotReadable")
            data = fs[h.path]
            end = len(data) if h.limit is None else min(len(data), h.limit)
            got = data[h.pos:end]
            buf.extend(got)
            h.pos = end
            return ("Ok", len(got))

        def take(a):
            h = a[0]
            return Handle(h.fs, h.path, h.r, h.w, h.pos, h.pos + a[1])

        def write_all(a):
            h, data = a[0], a[1]
            if not isinstance(h, Handle) or not h.w:
                return ("Err", "NotWritable")
            cur = fs[h.path]
            cur[h.pos:h.pos + len(data)] = list(data)
            h.pos += len(data)
            stats["writes"] += 1
            return ("Ok", ())

        def fs_read_to_string(a):
            return ("Ok", list(fs[a[0]])) if a[0] in fs else ("Err", "NotFound")

        def buf_new(a):
            h = a[-1]
            if isinstance(h, Handle):
                h.cap = a[0] if len(a) == 2 and isinstance(a[0], int) else 8192
            return h

        def fill_buf(a):
            h = a[0]
            if not isinstance(h, Handle) or not h.r:
                return ("Err", "NotReadable")
            data = fs[h.path]
            end = len(data) if h.limit is None else min(len(data), h.limit)
            return ("Ok", list(data[h.pos:min(end, h.pos + getattr(h, "cap", 8192))]))

        def consume(a):
            a[0].pos += a[1]
            return ()

        def read_some(a):
            h, buf = a[0], a[1]
            if not isinstance(h, Handle) or not h.r or not isinstance(buf, list):
                return ("Err", "NotReadable")
            data = fs[h.path]
            end = len(data) if h.limit is None else min(len(data), h.limit)
            got = data[h.pos:min(end, h.pos + len(buf))]
            buf[:len(got)] = got
            h.pos += len(got)
            return ("Ok", len(got))

        def read_exact(a):
            h, buf = a[0], a[1]
            data = fs[h.path]
            end = len(data) if h.limit is None else min(len(data), h.limit)
            if h.pos + len(buf) > end:
                h.pos = end
                return ("Err", "UnexpectedEof")
            buf[:] = data[h.pos:h.pos + len(buf)]
            h.pos += len(buf)
            return ("Ok", ())

        def metadata_len(a):
            h = a[0]
            p_ = h.path if isinstance(h, Handle) else h
            return ("Ok", ("meta", len(fs[p_]))) if p_ in fs else ("Err", "NotFound")

        def fs_write(a):
            fs[a[0]] = list(a[1])
            stats["writes"] += 1
            return ("Ok", ())

        m = Mini(FB, "wow_message_parser")
        m.overrides = {
            "std::fs::OpenOptions::new": opt_new, "std::fs::File::options": opt_new,
            "std::fs::OpenOptions::read": opt_set("read"), "std::fs::OpenOptions::write": opt_set("write"), "std::fs::OpenOptions::truncate": opt_set("truncate"),
            "std::fs::OpenOptions::create": opt_set("create"), "std::fs::OpenOptions::append": opt_set("append"), "std::fs::OpenOptions::create_new": opt_set("create_new"),
            "std::fs::OpenOptions::open": opt_open, "std::fs::File::create": file_create, "std::fs::File::open": file_open,
            "std::fs::create_dir_all": lambda a: ("Ok", ()), "std::path::Path::parent": lambda a: ("Some", "out"),
            "std::fs::read_to_string": fs_read_to_string, "std::fs::write": fs_write,
            "BufReader::<R>::with_capacity": buf_new, "BufReader::<R>::new": buf_new, "::BufRead::fill_buf": fill_buf, "::BufRead::consume": consume,
            "std::io::Read::read": read_some, "std::io::Read::read_exact": read_exact, "std::fs::File::metadata": metadata_len, "std::fs::metadata": metadata_len,
            "std::fs::Metadata::len": lambda a: a[0][1],
            "std::io::Read::read_to_string": read_all, "std::io::Read::read_to_end": read_all, "std::io::Read::take": take,
            "std::io::Write::write_all": write_all, "std::io::Write::flush": lambda a: ("Ok", ()),
            "std::string::String::with_capacity": lambda a: [], "std::string::String::new": lambda a: [], "std::vec::Vec::<T>::with_capacity": lambda a: [],
            "::as_bytes": lambda a: a[0], "std::string::String::as_str": lambda a: a[0], "std::path::Path::display": lambda a: "path", "std::path::Path::to_str": lambda a: ("Some", "path"),
            "std::io::_eprint": lambda a: (), "std::io::_print": lambda a: (), "std::path::Path::exists": lambda a: a[0] in fs, "std::path::Path::is_file": lambda a: a[0] in fs,
        }
        m.call_fn(FU + fn_name, [list(text), "out/f.rs"])
        return fs.get("out/f.rs"), stats["writes"]

    texts = [b"abc\n", b"abcdef\n", b""]
    for fn_name in ("write_string_to_file", "overwrite_if_not_same_contents", "create_and_overwrite_if_not_same_contents"):
        fn = F.fn(FU + fn_name)
        if fn is None:
            ctx.violate("fs.write-witness", f"anchor|{fn_name}", f"file_utils::{fn_name} not found (anchor disappeared)")
            continue
        done = False
        for text in texts:
            befores = [("missing", None), ("equal", text), ("empty", b""), ("different", b"zzzzzzzzzzzzzzzzzz"), ("new text + stale tail", text + b"// stale tail\n"),
                       ("a prefix of the new text", text[:-2] if len(text) > 2 else b""), ("same length, last byte differs", (text[:-1] + b"X") if text else b"")]
            for desc, before in befores:
                n += 1
                try:
                    after, writes = run_one(fn_name, before, text)
                except (Unsupported, Panic) as e:
                    ctx.violate("fs.write-witness", f"{fn_name}|shape", f"file_utils::{fn_name}: not interpretable — review ({type(e).__name__}: {e})", fn["file"], fn["line"])
                    done = True
                    break
                if after is None or bytes(after) != text:
                    ctx.violate("fs.write-witness", f"{fn_name}|{desc}", f"file_utils::{fn_name}: target file held {desc} ({before!r}), the text to generate is {text!r}; afterwards the file holds "
                                f"{bytes(after) if after is not None else None!r}: the stale file is not replaced by the generated text, a rerun does not converge", fn["file"], fn["line"])
            if done:
                break
    ctx.rule("fs.write-witness", n, floor=60, note="write_string_to_file / overwrite_if_not_same_contents / create_and_overwrite_if_not_same_contents interpreted on an abstract file system: 7 prior states x 3 texts each; the target must hold exactly the new text afterwards")


def check_sweep_witness(ctx, F):
    """ModFiles bookkeeping interpreted on small states: the sweep removes exactly the files that existed before the run and were not
    written by it, whatever else happened during the run; write_file marks its path as written; the sweep runs at the end of
    write_modules_and_remove_unwritten_files."""
    import itertools
    from ..minieval import Mini, BTree, Panic, Unsupported
    FB = {"wow_message_parser": F}
    MF = "crate::file_utils::mod_files::ModFiles"
    adt = next((a for a in F.all("adt") if a["path"] == MF), None)
    fns = {nm: F.fn(f"{MF}::{nm}") for nm in ("remove_unwritten_files", "write_modules_and_remove_unwritten_files", "write_file")}
    if adt is None or any(v is None for v in fns.values()):
        ctx.violate("fs.sweep-witness", "anchor", f"ModFiles or one of {sorted(fns)} not found (anchor disappeared)")
        return
    known = {"already_existing_files", "login_modules", "base_modules", "world_modules", "shared_base_modules", "shared_world_modules"}
    extra = [(f[0], f[1]) for f in adt["variants"][0][2] if f[0] not in known]
    cands = []
    for nm, ty in extra:
        if ty in ("usize", "u64", "u32", "i32", "i64", "u16", "u8", "isize"):
            cands.append([(nm, v) for v in (0, 1, 2, 3, 1000)])
        elif ty == "bool":
            cands.append([(nm, v) for v in (False, True)])
        else:
            cands.append([(nm, None)])
    combos = list(itertools.product(*cands)) if cands else [()]
    n = 0

    def state(entries, combo):
        bt = BTree()
        for k, v in entries:
            bt.d[k] = v
        st = ("struct", MF, {"already_existing_files": bt, "login_modules": BTree(), "base_modules": BTree(), "world_modules": BTree(), "shared_base_modules": None, "shared_world_modules": None})
        st[2].update(dict(combo))
        return st

    def sweep(fn_name, entries, combo):
        removed = []
        m = Mini(FB, "wow_message_parser")
        m.overrides = {"std::fs::remove_file": lambda a: (removed.append(a[0]), ("Ok", ()))[1],
                       "::write_login_modules": lambda a: (), "::write_base_modules": lambda a: (), "::write_world_modules": lambda a: ()}
        m.call_fn(f"{MF}::{fn_name}", [state(entries, combo)])
        return sorted(removed)

    maps = [[(1, True), (2, False), (3, True)], [(1, True), (2, True)], [(1, False), (2, False)], [(1, False), (2, True), (3, True), (4, True)], [], [(7, False)],
            [(1, False), (2, False), (3, True), (4, True), (5, True)]]
    for fn_name in ("remove_unwritten_files", "write_modules_and_remove_unwritten_files"):
        fn = fns[fn_name]
        done = False
        for entries in maps:
            for combo in combos:
                n += 1
                want = sorted(k for k, v in entries if not v)
                try:
                    got = sweep(fn_name, entries, combo)
                except (Unsupported, Panic) as e:
                    ctx.violate("fs.sweep-witness", f"{fn_name}|shape", f"ModFiles::{fn_name}: not interpretable — review ({type(e).__name__}: {e})", fn["file"], fn["line"])
                    done = True
                    break
                if got != want:
                    desc = ", ".join(f"file{k}:{'written' if v else 'stale'}" for k, v in entries)
                    ex = f" (with {', '.join(f'{a}={b}' for a, b in combo)})" if combo else ""
                    ctx.violate("fs.sweep-witness", f"{fn_name}|{desc}", f"ModFiles::{fn_name} on the bookkeeping state [{desc}]{ex} removes {['file%d' % k for k in got]}, the stale files are "
                                f"{['file%d' % k for k in want]}: a run from a tree with stale files does not converge to the generated file set", fn["file"], fn["line"])
                    done = True
                    break
            if done:
                break
    # write_file marks its target as written (so a file produced by this run is never swept)
    for entries, path in (([(1, False), (2, False)], 2), ([(1, True)], 5), ([], 9)):
        for combo in combos:
            n += 1
            st = state(entries, combo)
            m = Mini(FB, "wow_message_parser")
            m.overrides = {"::create_and_overwrite_if_not_same_contents": lambda a: (), "std::path::Path::canonicalize": lambda a: ("Ok", a[0]), "canonicalize": lambda a: ("Ok", a[0])}
            try:
                m.call_fn(f"{MF}::write_file", [st, path, "text"])
            except (Unsupported, Panic) as e:
                ctx.violate("fs.sweep-witness", "write_file|shape", f"ModFiles::write_file: not interpretable — review ({type(e).__name__}: {e})", fns["write_file"]["file"], fns["write_file"]["line"])
                break
            if st[2]["already_existing_files"].d.get(path) is not True:
                ctx.violate("fs.sweep-witness", "write_file|mark", f"ModFiles::write_file does not record its target as written (state after the call: {st[2]['already_existing_files']}): the sweep would delete a file this run produced",
                            fns["write_file"]["file"], fns["write_file"]["line"])
                break
    ctx.rule("fs.sweep-witness", n, floor=17, note=f"ModFiles bookkeeping interpreted on small states ({len(extra)} state fields beyond the modelled ones): the sweep removes exactly the pre-existing unwritten files, "
             "write_file marks its target, the sweep ends write_modules_and_remove_unwritten_files")


def run(ctx):
    F = facts("wow_message_parser")
    check_hash_iteration(ctx, F)
    check_walks(ctx, F)
    check_sources(ctx, F)
    check_env(ctx, F)
    check_write_funnel(ctx, F)
    check_clean_cover(ctx, F)
    check_sweep_witness(ctx, F)
    check_write_witness(ctx, F)
    check_tie_order(ctx, F)
    check_first_wins(ctx, F)
    ctx.assume("byte-for-byte reproduction of the ~3,900 committed artefacts and convergence from damaged trees require running the generator (which, in this snapshot, aborts in its documentation printer on the unmodified tree) and are not decided")
    ctx.assume("the item/spell data printer (base_printer) is outside the artefact list of the property; its tie-breaking by hash order in Optimizations::new is noted in DESIGN.md, not reported")
    return "other", EXPLANATION, {}
