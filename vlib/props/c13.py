"""C13 — UpdateMask accessors, dirty tracking and wire form agree with the field table (table agreement + abstract interpretation)."""
import os
import re

from .. import hir as H
from ..common import REPO
from ..facts import facts
from ..minieval import BTree, Mini, Panic, Sink, Stream, Tok, Unsupported, Wide, to_wide

EXPLANATION = (
    "Three-way agreement per expansion between the published update-field table (update-mask.md), the generator's field "
    "table (FIELDS consts, from typed HIR) and what every generated accessor does: each setter is interpreted abstractly "
    "(bounded abstract interpreter over typed HIR: argument bytes are identity tokens, offsets/masks concrete) on a fresh "
    "object with the dirty mask cleared, and the map entries it writes must be exactly the words the table assigns to that "
    "field (offset, width, byte placement), with the header and dirty bits of exactly those words set; the matching getter "
    "must return the arguments; builder setters must have the same effect. Because every setter writes only inside its own "
    "table row and rows of one object kind are disjoint, the value a getter returns after any sequence of setters is the last "
    "one set for its field. Writing, reading back (object-kind dispatch included), the reported size and the dirty-mask "
    "operations are interpreted on representative objects of all 7 kinds x 3 expansions; all mutations of header / "
    "dirty_mask / values are shown to go through the macro-generated methods (who-may-write rule)."
)
MD = os.path.join(REPO, "wowm_language", "src", "types", "update-mask.md")
EXPANSIONS = {"vanilla": "1.12", "tbc": "2.4.3", "wrath": "3.3.5"}
KINDS = ["Item", "Container", "Unit", "Player", "GameObject", "DynamicObject", "Corpse"]
OWNERS = {
    "Item": ["Object", "Item"], "Container": ["Object", "Item", "Container"], "Unit": ["Object", "Unit"],
    "Player": ["Object", "Unit", "Player"], "GameObject": ["Object", "GameObject"], "DynamicObject": ["Object", "DynamicObject"],
    "Corpse": ["Object", "Corpse"],
}
MD_SECTION = {"objects": "Object", "items": "Item", "containers": "Container", "units": "Unit", "players": "Player",
              "gameobjects": "GameObject", "dynamicobjects": "DynamicObject", "corpses": "Corpse"}
TYPE_NAMES = {"Guid": "GUID", "Int": "INT", "Float": "FLOAT", "TwoShort": "TWO_SHORT", "Bytes": "BYTES", "ArrayOfStruct": "CUSTOM", "GuidArrayUsingEnum": "CUSTOM"}
GUID_NEW = "wow_world_base::manual::shared::guid_vanilla_tbc_wrath::Guid::new"
ACC_FLOORS = {"vanilla": 1038, "tbc": 1266, "wrath": 1416}


def parse_md():
    out = {}
    ver = None
    owner = None
    for line in open(MD):
        m = re.match(r"^### Version ([\d.]+)", line)
        if m:
            ver = m.group(1)
            continue
        m = re.match(r"^Fields that all (\w+) have:", line)
        if m:
            owner = MD_SECTION.get(m.group(1))
            continue
        m = re.match(r"^\|`(\w+)`\| (0x[0-9a-fA-F]+) \| (\d+) \| (\w+) \|", line)
        if m and ver and owner:
            out.setdefault(ver, []).append((owner, m.group(1), int(m.group(2), 16), int(m.group(3)), m.group(4)))
    return out


def parse_fields(FP, exp):
    c = FP.const(f"crate::rust_printer::update_mask::{exp}_fields::FIELDS")
    if c is None or c.get("hir") is None:
        return None
    rows = []
    arr = H.strip_refs(c["hir"])
    if H.tag(arr) != "array":
        return None
    for call in arr[1]:
        a = H.call_args(call)
        owner = (H.path_of(a[0]) or "").split("::")[-1]
        name = H.strip(a[1])[2]
        off, size = H.lit_int(a[2]), H.lit_int(a[3])
        d = H.strip(a[4])
        if H.tag(d) == "path":
            kind, extra = d[1].split("::")[-1], {}
        elif H.tag(d) == "call":
            p = H.call_path(d) or ""
            last = p.split("::")[-1]
            kind = {"bytes": "Bytes", "two_short": "TwoShort"}.get(last, last)
            extra = {}
        elif H.tag(d) == "struct":
            kind = d[1].split("::")[-1]
            extra = {k: (H.strip(v)[2] if H.tag(H.strip(v)) == "lit" else None) for k, v in d[2]}
        else:
            kind, extra = "?", {}
        rows.append({"owner": owner, "name": name, "offset": off, "size": size, "kind": kind, "extra": extra})
    return rows


class Env:
    """argument factory with a running token counter"""

    def __init__(self, FB):
        self.FB = FB
        self.n = 0

    def toks(self, k):
        out = [Tok(self.n + i, "any") for i in range(k)]
        self.n += k
        return out

    def value(self, ty, choose=None):
        ty = ty.strip()
        if ty in ("u8", "i8"):
            return self.toks(1)[0]
        if ty in ("u16", "i16"):
            return Wide(self.toks(2))
        if ty in ("u32", "i32", "f32"):
            return Wide(self.toks(4))
        if ty in ("u64", "i64"):
            return Wide(self.toks(8))
        if ty == "bool":
            return True
        if ty.endswith("::Guid"):
            return Mini(self.FB, "wow_world_messages").call_fn(GUID_NEW, [Wide(self.toks(8))])
        m = re.match(r"^\[(.+); (\d+)\]$", ty)
        if m:
            return [self.value(m.group(1)) for _ in range(int(m.group(2)))]
        crate, path = ("wow_world_messages", ty) if ty.startswith("crate::") else (ty.split("::", 1)[0], "crate::" + ty.split("::", 1)[1] if "::" in ty else ty)
        F = self.FB.get(crate)
        adt = F.adt(path) if F else None
        if adt is None:
            raise Unsupported(f"argument type {ty}")
        full = crate + "::" + path[7:]
        if adt["kind"] == "Enum":
            vs = adt["variants"]
            v = vs[choose if choose is not None else 0]
            if v[2]:
                raise Unsupported(f"data-carrying enum argument {ty}")
            return ("variant", full + "::" + v[0])
        if adt["kind"] == "Struct":
            fields = {}
            for fname, fty, _ in adt["variants"][0][2]:
                fty2 = fty if not fty.startswith("crate::") else crate + "::" + fty[7:]
                if crate != "wow_world_messages" and fty.startswith("crate::"):
                    fty2 = crate + "::" + fty[7:]
                elif fty.startswith("crate::"):
                    fty2 = fty
                fields[fname] = self.value(fty2)
            return ("struct", full, fields)
        raise Unsupported(f"argument type {ty}")

    def n_variants(self, ty):
        if "::" not in ty:
            return None
        crate, path = ("wow_world_messages", ty) if ty.startswith("crate::") else (ty.split("::", 1)[0], "crate::" + ty.split("::", 1)[1])
        F = self.FB.get(crate)
        adt = F.adt(path) if F else None
        if adt is not None and adt["kind"] == "Enum" and all(not v[2] for v in adt["variants"]):
            return len(adt["variants"])
        return None


def snapshot(u):
    return dict(u[2]["values"].d), list(u[2]["header"]), list(u[2]["dirty_mask"])


def bit(arr, k):
    return k // 32 < len(arr) and bool(arr[k // 32] & (1 << (k % 32)))


def words_of(v):
    """the u32 words a value of a simple type is expected to occupy (little-endian slots)"""
    if isinstance(v, tuple) and v and v[0] == "struct" and "guid" in v[2]:
        s = to_wide(v[2]["guid"], 8).slots
        return [Wide(s[:4]), Wide(s[4:])]
    return None


def same_word(a, b):
    try:
        return to_wide(a, 4) == to_wide(b, 4)
    except Unsupported:
        return a == b


def check_expansion(ctx, FB, exp, md_rows, rows):
    F = FB["wow_world_messages"]
    P = f"crate::helper::{exp}::update_mask::"
    n_acc = 0
    interpreted = 0
    by_field = {}
    for r in rows:
        by_field[f"{r['owner'].lower()}_{r['name'].lower()}"] = r
    # ---- table agreement -----------------------------------------------------------------------------------
    md_set = {(o, f"{o.upper()}_{nm}" if not nm.startswith(o.upper() + "_") else nm) for o, nm, *_ in []}
    got_md = {}
    for o, nm, off, size, ty in md_rows:
        got_md[nm] = (o, off, size, ty)
    for r in rows:
        full = f"{r['owner'].upper()}_{r['name']}"
        want = (r["owner"], r["offset"], r["size"], TYPE_NAMES.get(r["kind"], "?"))
        if got_md.get(full) != want:
            ctx.violate("um.table3", f"{exp}|{full}|md", f"{exp}: update-mask.md lists {full} as {got_md.get(full)}, the generator's field table has {want}")
    for nm in got_md:
        if not any(f"{r['owner'].upper()}_{r['name']}" == nm for r in rows):
            ctx.violate("um.table3", f"{exp}|{nm}|extra", f"{exp}: update-mask.md lists {nm} which is not in the generator's field table")
    # rows of one kind are disjoint
    for kind in KINDS:
        rs = sorted((r for r in rows if r["owner"] in OWNERS[kind]), key=lambda r: r["offset"])
        for a, b in zip(rs, rs[1:]):
            if a["offset"] + a["size"] > b["offset"]:
                ctx.violate("um.table3", f"{exp}|{kind}|overlap|{a['name']}|{b['name']}", f"{exp} {kind}: rows {a['owner']}_{a['name']} [{a['offset']},{a['offset'] + a['size']}) and {b['owner']}_{b['name']} [{b['offset']},..) overlap")
    # ---- accessors -----------------------------------------------------------------------------------------------
    multiword = set()
    for kind in KINDS:
        ty = f"{P}Update{kind}"
        impl = f"{P}impls::<impl {ty}>::"
        bimpl = f"{P}impls::<impl {ty}Builder>::"
        fns = {p[len(impl):]: F.fn(p) for p in F.paths("fn") if p.startswith(impl)}
        bfns = {p[len(bimpl):]: F.fn(p) for p in F.paths("fn") if p.startswith(bimpl)}
        n_acc += len(fns) + len(bfns)
        expected = {f"{r['owner'].lower()}_{r['name'].lower()}" for r in rows if r["owner"] in OWNERS[kind] and not (r["owner"] == "Object" and r["name"] == "TYPE")}
        have = {k[4:] for k in fns if k.startswith("set_")}
        for missing in sorted(expected - have):
            ctx.violate("um.accessors", f"{exp}|{kind}|{missing}|missing", f"{exp} Update{kind}: the field table has {missing.upper()} but there is no set_{missing}", None, None)
        for extra in sorted(have - expected):
            ctx.violate("um.accessors", f"{exp}|{kind}|{extra}|norow", f"{exp} Update{kind}: set_{extra} has no row in the field table")
        for sname, fn in sorted(fns.items()):
            if not sname.startswith("set_"):
                continue
            field = sname[4:]
            row = by_field.get(field)
            if row is None:
                continue
            key = f"{exp}|{kind}|{field}"
            getter = fns.get(field)
            bsetter = bfns.get(sname)
            if getter is None:
                ctx.violate("um.accessors", key + "|nogetter", f"{exp} Update{kind}: set_{field} has no getter {field}()", fn["file"], fn["line"])
            if bsetter is None:
                ctx.violate("um.accessors", key + "|nobuilder", f"{exp} Update{kind}Builder has no set_{field}", fn["file"], fn["line"])
            ptys = fn["inputs"][1:]
            # index-like trailing/leading enum parameters are enumerated exhaustively
            envs = Env(FB)
            enum_pos = [i for i, t in enumerate(ptys) if envs.n_variants(t) is not None and row["kind"] in ("ArrayOfStruct", "GuidArrayUsingEnum")]
            choices = [None]
            if enum_pos:
                choices = list(range(envs.n_variants(ptys[enum_pos[0]])))
            lo, hi = row["offset"], row["offset"] + row["size"]
            touched_all = set()
            for ch in choices:
                try:
                    ev = Env(FB)
                    args = [ev.value(t, choose=ch if i in enum_pos else None) for i, t in enumerate(ptys)]
                    m = Mini(FB, "wow_world_messages")
                    u = m.call_fn(ty + "::new", [])
                    m.call_fn(ty + "::dirty_reset", [u])
                    v0, h0, d0 = snapshot(u)
                    m.call_fn(fn["path"], [u] + args)
                    v1, h1, d1 = snapshot(u)
                except Panic as e:
                    ctx.violate("um.accessors", key + "|panic", f"{exp} Update{kind}::set_{field}({', '.join(show(a) for a in args)}) panics: {e} (in release builds the value wraps and the accessor addresses the words of a different slot)", fn["file"], fn["line"])
                    break
                except Unsupported as e:
                    ctx.violate("um.accessors", key + "|shape", f"{exp} Update{kind}::set_{field}: shape not recognised — review ({e})", fn["file"], fn["line"])
                    break
                interpreted += 1
                changed = {k: v for k, v in v1.items() if k not in v0 or v0[k] is not v}
                if any(k not in v1 for k in v0):
                    ctx.violate("um.accessors", key + "|removes", f"{exp} Update{kind}::set_{field} removes map entries", fn["file"], fn["line"])
                outside = sorted(k for k in changed if not (lo <= k < hi))
                if outside:
                    ctx.violate("um.accessors", key + "|outside", f"{exp} Update{kind}::set_{field} writes word(s) {outside}, the field table gives {row['owner'].upper()}_{row['name']} the words [{lo}, {hi})", fn["file"], fn["line"])
                    break
                if touched_all & set(changed):
                    ctx.violate("um.accessors", key + "|index-overlap", f"{exp} Update{kind}::set_{field}: two index values address the same words {sorted(touched_all & set(changed))}", fn["file"], fn["line"])
                touched_all |= set(changed)
                for k in changed:
                    if not bit(h1, k) or not bit(d1, k):
                        ctx.violate("um.accessors", key + "|bits", f"{exp} Update{kind}::set_{field}: word {k} is written but its {'header' if not bit(h1, k) else 'dirty'} bit is not set (a value that is never sent)", fn["file"], fn["line"])
                        break
                extra_bits = [k for k in range(len(h1) * 32) if (bit(h1, k) and not bit(h0, k) and k not in changed) or (bit(d1, k) and k not in changed)]
                if extra_bits:
                    ctx.violate("um.accessors", key + "|extrabits", f"{exp} Update{kind}::set_{field} sets header/dirty bits {extra_bits[:6]} without writing those words", fn["file"], fn["line"])
                # exact placement for the simple codecs
                kd = row["kind"]
                if kd in ("Guid", "Int", "Float", "Bytes", "TwoShort"):
                    want_keys = [lo, lo + 1] if kd == "Guid" else [lo]
                    if sorted(changed) != want_keys:
                        ctx.violate("um.accessors", key + "|words", f"{exp} Update{kind}::set_{field} writes words {sorted(changed)}, a {TYPE_NAMES[kd]} field at offset {lo} occupies {want_keys}", fn["file"], fn["line"])
                        break
                    if kd == "Guid":
                        w = words_of(args[0])
                        if w is None or not (same_word(changed[lo], w[0]) and same_word(changed[lo + 1], w[1])):
                            ctx.violate("um.accessors", key + "|placement", f"{exp} Update{kind}::set_{field}: guid halves are not stored as (low word at {lo}, high word at {lo + 1}): {changed}", fn["file"], fn["line"])
                    elif kd in ("Int", "Float"):
                        if not same_word(changed[lo], args[0]):
                            ctx.violate("um.accessors", key + "|placement", f"{exp} Update{kind}::set_{field}: stored word {changed[lo]!r} is not the little-endian image of the argument {args[0]!r}", fn["file"], fn["line"])
                    elif kd == "Bytes" and len(args) == 4 and all(isinstance(a_, (Tok, int)) and not isinstance(a_, bool) for a_ in args):
                        # four u8 in memory order: the first argument is the byte at the lowest address (least significant of the word)
                        got_b = to_wide(changed[lo], 4).slots
                        want_b = [to_wide(a_, 1).slots[0] if not isinstance(a_, Tok) else a_ for a_ in args]
                        if got_b != want_b:
                            ctx.violate("um.accessors", key + "|placement", f"{exp} Update{kind}::set_{field}(a, b, c, d): the stored word holds the bytes {show(got_b)}, the field table's BYTES layout is "
                                        f"a, b, c, d from the lowest byte up: {show(want_b)}", fn["file"], fn["line"])
                    elif kd == "TwoShort" and len(args) == 2 and all(isinstance(a_, (Tok, int, Wide)) and not isinstance(a_, bool) for a_ in args):
                        got_b = to_wide(changed[lo], 4).slots
                        want_b = to_wide(args[0], 2).slots + to_wide(args[1], 2).slots
                        if got_b != want_b:
                            ctx.violate("um.accessors", key + "|placement", f"{exp} Update{kind}::set_{field}(a, b): the stored word holds {show(got_b)}, a TWO_SHORT field keeps a in the low and b in the high half: {show(want_b)}", fn["file"], fn["line"])
                    if kd in ("Int", "Float") and row["size"] > 1:
                        multiword.add(f"{row['owner'].upper()}_{row['name']}")
                # getter inverts the setter
                if getter is not None:
                    gargs = [args[i] for i in enum_pos] if enum_pos and len(getter["inputs"]) - 1 == len(enum_pos) else []
                    if len(getter["inputs"]) - 1 != len(gargs):
                        gargs = args[:len(getter["inputs"]) - 1]
                    try:
                        res = Mini(FB, "wow_world_messages").call_fn(getter["path"], [u] + gargs)
                    except Panic as e:
                        ctx.violate("um.pair", key + "|getter-panic", f"{exp} Update{kind}::{field}({', '.join(show(a) for a in gargs)}) panics: {e}", getter["file"], getter["line"])
                        break
                    except Unsupported as e:
                        ctx.violate("um.pair", key + "|getter-shape", f"{exp} Update{kind}::{field}(): shape not recognised — review ({e})", getter["file"], getter["line"])
                        break
                    vals = [a for i, a in enumerate(args) if not (enum_pos and i in enum_pos and gargs)]
                    want = vals[0] if len(vals) == 1 else tuple(vals)
                    if not (isinstance(res, tuple) and res[0] == "Some" and equalish(res[1], want)):
                        ctx.violate("um.pair", key + "|roundtrip",
                                    f"{exp} Update{kind}: {field}() after set_{field}({', '.join(show(a) for a in vals)}) returns {show(res)} — the getter does not return the value that was set", getter["file"], getter["line"])
                        break
                # holes: with only index `ch` set, the getter of any other index finds nothing of its own and must say so
                if getter is not None and enum_pos and len(getter["inputs"]) - 1 == len(enum_pos) and len(enum_pos) == 1:
                    nv = envs.n_variants(ptys[enum_pos[0]])
                    hole_bad = False
                    for k in sorted({ch - 1, ch + 1, 0, nv - 1} - {ch}):
                        if not (0 <= k < nv):
                            continue
                        try:
                            karg = Env(FB).value(ptys[enum_pos[0]], choose=k)
                            r2 = Mini(FB, "wow_world_messages").call_fn(getter["path"], [u, karg])
                        except Panic as e:
                            ctx.violate("um.pair", key + "|getter-panic", f"{exp} Update{kind}::{field}({show(karg)}) panics: {e} (with overflow checks off the value wraps and the getter reads the words of a different element)", getter["file"], getter["line"])
                            hole_bad = True
                            break
                        except Unsupported as e:
                            ctx.violate("um.pair", key + "|hole-shape", f"{exp} Update{kind}::{field}(): not interpretable with a hole — review ({e})", getter["file"], getter["line"])
                            hole_bad = True
                            break
                        if r2 != "None":
                            ctx.violate("um.pair", key + "|hole", f"{exp} Update{kind}: with only element {show(args[enum_pos[0]])} of {field} set, {field}({show(karg)}) returns {show(r2)} instead of None: "
                                        "the getter reads words that belong to another element (its window is wider than one element)", getter["file"], getter["line"])
                            hole_bad = True
                            break
                    if hole_bad:
                        break
                # builder: same effect
                if bsetter is not None and ch in (None, 0):
                    try:
                        m2 = Mini(FB, "wow_world_messages")
                        b = m2.call_fn(ty + "Builder::new", [])
                        b2 = m2.call_fn(bsetter["path"], [b] + args)
                        fin = m2.call_fn(ty + "Builder::finalize", [b2])
                        vb = fin[2]["values"].d
                        bad = [k for k in changed if k not in vb or not (vb[k] is changed[k] or same_word(vb[k], changed[k]))]
                        extra = [k for k in vb if k not in changed and k != 2]
                        if bad or extra:
                            ctx.violate("um.accessors", key + "|builder", f"{exp} Update{kind}Builder::set_{field} writes {sorted(vb)}; Update{kind}::set_{field} writes {sorted(changed)}", bsetter["file"], bsetter["line"])
                        if fin[2]["header"] != fin[2]["dirty_mask"]:
                            ctx.violate("um.accessors", key + "|builder-dirty", f"{exp} Update{kind}Builder::finalize: a freshly built object is not fully dirty", bsetter["file"], bsetter["line"])
                    except (Unsupported, Panic) as e:
                        ctx.violate("um.accessors", key + "|builder-shape", f"{exp} Update{kind}Builder::set_{field}: shape not recognised — review ({e})", bsetter["file"], bsetter["line"])
    for nm in sorted(multiword):
        ctx.violate("um.width", f"{exp}|{nm}", f"{exp}: the field table gives {nm} {by_field[nm.lower().split('_', 1)[0] + '_' + nm.split('_', 1)[1].lower()]['size']} words but its typed accessors address only the first word (the remaining words cannot be set or read through the typed API)")
    return n_acc, interpreted


def show(v):
    s = repr(v)
    return s if len(s) < 160 else s[:160] + "…"


def equalish(a, b):
    if isinstance(a, tuple) and isinstance(b, tuple) and a and b and a[0] == "struct" and b[0] == "struct":
        return set(a[2]) == set(b[2]) and all(equalish(a[2][k], b[2][k]) for k in a[2])
    if isinstance(a, tuple) and isinstance(b, tuple) and a and b and a[0] == "variant" and b[0] == "variant":
        return a[1] == b[1]
    if isinstance(a, (tuple, list)) and isinstance(b, (tuple, list)) and len(a) == len(b) and not (a and isinstance(a[0], str)):
        return all(equalish(x, y) for x, y in zip(a, b))
    if isinstance(a, (Wide, Tok, int)) and isinstance(b, (Wide, Tok, int)) and not isinstance(a, bool):
        try:
            n = max(len(a.slots) if isinstance(a, Wide) else 1, len(b.slots) if isinstance(b, Wide) else 1)
            return to_wide(a, n) == to_wide(b, n)
        except Unsupported:
            return False
    return a == b


def wire_form(ctx, m, u, exp, kind, P, ty, key, what=""):
    """write_into_vec / size / read-back of object u against the documented wire form; returns (vals, hdr, dirty)"""
    vals, hdr, dirty = snapshot(u)
    keys = sorted(vals)
    hb = [k for k in range(len(hdr) * 32) if bit(hdr, k)]
    if keys != hb:
        ctx.violate("um.wire", key + "|invariant", f"{exp} Update{kind}{what}: header bits {hb[:40]} differ from the stored words {keys[:40]}")
    sink = Sink()
    m.call_fn(ty + "::write_into_vec", [u, sink])
    want = [len(hdr)]
    for h, d in zip(hdr, dirty):
        want += [((h & d) >> (8 * i)) & 0xFF for i in range(4)]
    written = [k for k in keys if bit(hdr, k) and bit(dirty, k)]
    for k in written:
        want += to_wide(vals[k], 4).slots
    if sink.out != want:
        detail = f"emits {show(sink.out)}, expected {show(want)}" if len(want) < 60 else f"emits {len(sink.out)} bytes, expected {len(want)}"
        if len(want) >= 60 and len(sink.out) != len(want):
            # which words are missing / extra
            nb = 1 + 4 * len(hdr)
            got_words = [sink.out[i:i + 4] for i in range(nb, len(sink.out), 4)]
            want_words = {k: to_wide(vals[k], 4).slots for k in written}
            missing = [k for k in written if want_words[k] not in got_words]
            detail += f"; value words of indices {missing[:12]} are not written although their mask bits are set"
        ctx.violate("um.wire", key + "|write", f"{exp} Update{kind}::write_into_vec{what} {detail} (wire form: block count, header&dirty blocks, then the dirty present words in ascending index)")
    variant = ("variant", f"wow_world_messages::helper::{exp}::update_mask::UpdateMask::{kind}", [u])
    size = m.call_fn(f"{P}UpdateMask::size", [variant])
    if size != len(sink.out):
        ctx.violate("um.wire", key + "|size", f"{exp} UpdateMask::size(){what} reports {size} for an Update{kind} that is written as {len(sink.out)} bytes")
    st = Stream(sink.out + [Tok(10_000_000 + i, "any") for i in range(4)])
    back = m.call_fn(f"{P}UpdateMask::read", [st])
    ok = isinstance(back, tuple) and back[0] == "Ok" and isinstance(back[1], tuple) and back[1][0] == "variant"
    if not ok:
        ctx.violate("um.wire", key + "|read", f"{exp} UpdateMask::read of a written Update{kind}{what} returns {show(back)}")
    else:
        got_kind = back[1][1].split("::")[-1]
        if got_kind != kind:
            ctx.violate("um.dispatch", key, f"{exp}: an Update{kind} (type word {vals.get(2)!r}) is decoded as UpdateMask::{got_kind}: the object-kind tests are in the wrong order or use the wrong bits")
        obj = back[1][2][0]
        bv = obj[2]["values"].d
        if sorted(bv) != written or any(not same_word(bv[k], vals[k]) for k in written) or obj[2]["header"] != [h & d for h, d in zip(hdr, dirty)]:
            ctx.violate("um.wire", key + "|roundtrip", f"{exp} Update{kind}{what}: decoding the written form yields words {sorted(bv)[:40]}, written were {written[:40]}")
        if st.pos != len(sink.out):
            ctx.violate("um.wire", key + "|consumed", f"{exp} UpdateMask::read consumes {st.pos} bytes of a {len(sink.out)}-byte mask")
    return vals, hdr, dirty


def check_wire(ctx, FB, exp):
    """new -> (setters) -> write -> read back / size / dirty operations, per kind"""
    F = FB["wow_world_messages"]
    P = f"crate::helper::{exp}::update_mask::"
    n = 0
    for kind in KINDS:
        ty = f"{P}Update{kind}"
        key = f"{exp}|{kind}"
        try:
            m = Mini(FB, "wow_world_messages")
            u = m.call_fn(ty + "::new", [])
            ev = Env(FB)
            g = ev.value("wow_world_base::manual::shared::guid_vanilla_tbc_wrath::Guid")
            m.call_fn(f"{P}impls::<impl {ty}>::set_object_guid", [u, g])
            m.call_fn(f"{P}impls::<impl {ty}>::set_object_scale_x", [u, ev.value("f32")])
            vals, hdr, dirty = wire_form(ctx, m, u, exp, kind, P, ty, key)
            keys = sorted(vals)
            # dirty operations
            m.call_fn(ty + "::dirty_reset", [u])
            if any(u[2]["dirty_mask"]) or m.call_fn(ty + "::has_any_dirty_fields", [u]) is not False:
                ctx.violate("um.dirty", key + "|reset", f"{exp} Update{kind}::dirty_reset leaves dirty bits set")
            s2 = Sink()
            m.call_fn(ty + "::write_into_vec", [u, s2])
            if s2.out != [len(hdr)] + [0] * (4 * len(hdr)):
                ctx.violate("um.dirty", key + "|reset-write", f"{exp} Update{kind}: after dirty_reset the written form still carries values: {show(s2.out)}")
            m.call_fn(f"{P}impls::<impl {ty}>::set_object_entry", [u, ev.value("i32")])
            d2 = u[2]["dirty_mask"]
            if [k for k in range(len(d2) * 32) if bit(d2, k)] != [3]:
                ctx.violate("um.dirty", key + "|set-dirty", f"{exp} Update{kind}: after dirty_reset + set_object_entry the dirty bits are {[k for k in range(len(d2) * 32) if bit(d2, k)]}, expected exactly [3]")
            m.call_fn(ty + "::mark_fully_dirty", [u])
            s3 = Sink()
            m.call_fn(ty + "::write_into_vec", [u, s3])
            allk = sorted(u[2]["values"].d)
            if len(s3.out) != 1 + 4 * len(u[2]["header"]) + 4 * len(allk):
                ctx.violate("um.dirty", key + "|fully", f"{exp} Update{kind}: after mark_fully_dirty not every present word is written")
            # a field that is set for the first time after mark_fully_dirty (its dirty bit may already be 1 in an allocated block):
            # it must become present (header bit) and travel on the wire like any other
            import copy
            impl = f"{P}impls::<impl {ty}>::"
            allocated = 32 * len(u[2]["header"])
            tried = 0
            for sp in sorted(p for p in F.paths("fn") if p.startswith(impl + "set_")):
                sfn = F.fn(sp)
                if sfn is None or len(sfn["inputs"]) != 2 or sfn["inputs"][1] not in ("i32", "f32", "u32"):
                    continue
                uc = copy.deepcopy(u)
                before = set(uc[2]["values"].d)
                mm = Mini(FB, "wow_world_messages")
                mm.call_fn(sp, [uc, Env(FB).value(sfn["inputs"][1])])
                new = sorted(set(uc[2]["values"].d) - before)
                if not new or new[0] >= allocated:
                    continue
                tried += 1
                missing = [k for k in new if not bit(uc[2]["header"], k)]
                if missing:
                    ctx.violate("um.dirty", key + "|set-after-fully-dirty", f"{exp} Update{kind}: mark_fully_dirty followed by {sp.split('::')[-1]} (a field never set before, word {new[0]} in an already allocated block) "
                                f"stores the value but leaves header bit(s) {missing} clear: the field is absent from the written mask and values although its getter returns it", sfn["file"], sfn["line"])
                    break
                wire_form(ctx, mm, uc, exp, kind, P, ty, key + "|after-fully-dirty", what=f" after mark_fully_dirty + {sp.split('::')[-1]}")
                if tried >= 4:
                    break
            n += 1
        except (Unsupported, Panic) as e:
            ctx.violate("um.wire", key + "|shape", f"{exp} Update{kind}: wire-form interpretation failed — review ({e})")
    return n


def check_sequence(ctx, FB, exp, rows):
    """one long history per object kind: every typed setter is applied once (fresh tokens each), then every getter must
    return the arguments of its own setter; afterwards dirty_reset + one more setter leaves exactly that field dirty.
    Complements the per-accessor frame argument with an actual interleaving of all fields of a kind."""
    F = FB["wow_world_messages"]
    P = f"crate::helper::{exp}::update_mask::"
    by_field = {f"{r['owner'].lower()}_{r['name'].lower()}": r for r in rows}
    n = 0
    for kind in KINDS:
        ty = f"{P}Update{kind}"
        impl = f"{P}impls::<impl {ty}>::"
        fns = {p[len(impl):]: F.fn(p) for p in F.paths("fn") if p.startswith(impl)}
        try:
            base = sorted(fns.items())
            orders = [("", base, 1)]
            if ctx.tier == "thorough":
                import random
                sh = list(base)
                random.Random(ctx.seed).shuffle(sh)
                orders += [("|reverse", list(reversed(base)), 1), ("|shuffled-twice", sh, 2)]
            for otag, order, reps in orders:
                m = Mini(FB, "wow_world_messages")
                u = m.call_fn(ty + "::new", [])
                ev = Env(FB)
                applied = {}
                first_dirty = {}
                for _rep in range(reps):
                    for sname, fn in order:
                        if not sname.startswith("set_") or sname[4:] not in fns:
                            continue
                        row = by_field.get(sname[4:])
                        if row is None or row["kind"] in ("ArrayOfStruct", "GuidArrayUsingEnum"):
                            continue
                        args = [ev.value(t) for t in fn["inputs"][1:]]
                        d_before = snapshot(u)[2] if not otag else None
                        m.call_fn(fn["path"], [u] + args)
                        if not otag:
                            d_after = snapshot(u)[2]
                            first_dirty[sname[4:]] = [k for k in range(len(d_after) * 32) if bit(d_after, k) and not bit(d_before, k)]
                        applied[sname[4:]] = (args, row)  # the last value set is the one a getter must return
                items = [(f, a, r) for f, (a, r) in applied.items()]
                for field, args, row in items:
                    n += 1
                    lo, hi = row["offset"], row["offset"] + row["size"]
                    culprits = [f for f, _a, r2 in items if f != field and r2["offset"] < hi and lo < r2["offset"] + r2["size"]]
                    if otag and culprits:
                        continue  # overlapping rows are reported once, through the canonical order and um.table3
                    res = Mini(FB, "wow_world_messages").call_fn(fns[field]["path"], [u])
                    want = args[0] if len(args) == 1 else tuple(args)
                    if not (isinstance(res, tuple) and res[0] == "Some" and equalish(res[1], want)):
                        ctx.violate("um.sequence", f"{exp}|{kind}|{field}{otag}|" + ("overwritten-by:" + ",".join(sorted(culprits)) if culprits else "wrong-value"), f"{exp} Update{kind}: after setting every typed field{' (history' + otag.replace('|', ' ') + ')' if otag else ' once'}, {field}() no longer returns "
                                    f"the value last given to set_{field} ({'overwritten by ' + ', '.join('set_' + c for c in culprits[:3]) if culprits else 'returns ' + show(res)})", fns[field]["file"], fns[field]["line"])
                if not otag:
                    # the fully populated object on the wire (every simple field present and dirty, so every block position is exercised)
                    wire_form(ctx, Mini(FB, "wow_world_messages"), u, exp, kind, P, ty, f"{exp}|{kind}|full", what=" of an object with every simple typed field set")
                    # setting a field that already holds a value: after dirty_reset, (a) the same value again must make the field dirty
                    # again, (b) another value must replace the stored one (a setter may not consult what is stored)
                    m.call_fn(ty + "::dirty_reset", [u])
                    ev2 = Env(FB)
                    ev2.n = 500000
                    for field, args, row in items:
                        culprits = [f for f, _a, r2 in items if f != field and r2["offset"] < row["offset"] + row["size"] and row["offset"] < r2["offset"] + r2["size"]]
                        if culprits:
                            continue
                        sfn = fns["set_" + field]
                        m.call_fn(sfn["path"], [u] + list(args))
                        _v, _h, dirty = snapshot(u)
                        words = first_dirty.get(field, [])  # the words this setter marked when the field was set for the first time
                        if not all(bit(dirty, k) for k in words):
                            ctx.violate("um.sequence", f"{exp}|{kind}|{field}|reset-same", f"{exp} Update{kind}: after dirty_reset, set_{field} with the value the field already holds leaves the field clean "
                                        f"(dirty bits of words {[k for k in words if not bit(dirty, k)]} are not set): the update is never sent", sfn["file"], sfn["line"])
                        new = [ev2.value(t) for t in sfn["inputs"][1:]]
                        m.call_fn(sfn["path"], [u] + new)
                        res = Mini(FB, "wow_world_messages").call_fn(fns[field]["path"], [u])
                        want = new[0] if len(new) == 1 else tuple(new)
                        if not (isinstance(res, tuple) and res[0] == "Some" and equalish(res[1], want)):
                            ctx.violate("um.sequence", f"{exp}|{kind}|{field}|reset-other", f"{exp} Update{kind}: set_{field} on a field that already holds a value does not store the new value: {field}() returns {show(res)}",
                                        sfn["file"], sfn["line"])
        except (Unsupported, Panic) as e:
            ctx.violate("um.sequence", f"{exp}|{kind}|shape", f"{exp} Update{kind}: sequence interpretation failed — review ({e})")
    return n


def check_read_inner(ctx, FB):
    """inners::read_inner over mask-block patterns (every single bit of a block, dense and sparse blocks, two blocks):
    header = the blocks, one value per set bit in ascending index made of exactly its four wire bytes, nothing else consumed"""
    F = FB["wow_world_messages"]
    path = "crate::helper::update_mask_common::inners::read_inner"
    fn = F.fn(path)
    if fn is None:
        ctx.violate("um.wire", "anchor|read_inner", "inners::read_inner not found (anchor disappeared)")
        return 0
    pats = [[1 << i] for i in range(32)] + [[0], [0xFFFFFFFF], [0x80000001], [0x00010100], [0, 1 << 31], [1 << 31, 1], [5, 0, 0x80000000]]
    if ctx.tier == "thorough":
        pats += [[(1 << i) | (1 << j)] for i in range(32) for j in range(i + 1, 32)] + [[1 << i, 1 << j] for i in (0, 15, 31) for j in (0, 16, 31)]
    n = 0
    for blocks in pats:
        n += 1
        stream = [len(blocks)]
        for b in blocks:
            stream += [(b >> (8 * i)) & 0xFF for i in range(4)]
        want = {}
        t = 5000
        for bi, b in enumerate(blocks):
            for bit in range(32):
                if b & (1 << bit):
                    toks = [Tok(t + k, "any") for k in range(4)]
                    t += 4
                    want[bi * 32 + bit] = toks
                    stream += toks
        body = len(stream)
        st = Stream(stream + [Tok(9000 + k, "any") for k in range(4)])
        what = " ".join(f"{b:#010x}" for b in blocks)
        try:
            res = Mini(FB, "wow_world_messages").call_fn(path, [st])
        except Panic as e:
            ctx.violate("um.wire", "read_inner|panic", f"inners::read_inner panics on mask blocks [{what}]: {e}", fn["file"], fn["line"])
            break
        except Unsupported as e:
            ctx.violate("um.wire", "read_inner|shape", f"inners::read_inner: shape not recognised — review ({e})", fn["file"], fn["line"])
            break
        ok = isinstance(res, tuple) and res[0] == "Ok" and isinstance(res[1], tuple) and len(res[1]) == 2
        if not ok:
            ctx.violate("um.wire", "read_inner|result", f"inners::read_inner on a complete mask with blocks [{what}] returns {show(res)} (for example an end-of-input error because it looks for fields that are not present)", fn["file"], fn["line"])
            break
        header, values = res[1]
        got = {k: to_wide(v, 4).slots for k, v in values.d.items()} if isinstance(values, BTree) else None
        if header != blocks or got != want or st.pos != body:
            ctx.violate("um.wire", "read_inner|decode", f"inners::read_inner on mask blocks [{what}]: decodes header {header}, field indices {sorted(got) if got is not None else got}, consumes {st.pos} of {body} bytes; "
                        f"expected the blocks themselves, indices {sorted(want)} each holding its own four bytes", fn["file"], fn["line"])
            break
    return n


def check_write_inner(ctx, FB):
    """inners::write_into_vec and update_mask_size over header x dirty block patterns: block count, header&dirty blocks, then the
    words whose header and dirty bits are both set in ascending index; size = bytes"""
    F = FB["wow_world_messages"]
    wpath, spath = "crate::helper::update_mask_common::inners::write_into_vec", "crate::helper::update_mask_common::inners::update_mask_size"
    wfn, sfn = F.fn(wpath), F.fn(spath)
    if wfn is None or sfn is None:
        ctx.violate("um.wire", "anchor|write_inner", "inners::write_into_vec / update_mask_size not found (anchor disappeared)")
        return 0
    hdrs = [[1 << i] for i in range(32)] + [[0], [0xFFFFFFFF], [0x80000001], [0x00010100], [0, 1 << 31], [1 << 31, 1], [5, 0, 0x80000000], [0xFFFFFFFF, 0xFFFFFFFF]]
    if ctx.tier == "thorough":
        hdrs += [[(1 << i) | (1 << j)] for i in range(32) for j in range(i + 1, 32)] + [[1 << i, 1 << j] for i in (0, 15, 31) for j in (0, 16, 31)]
    n = 0
    for hdr in hdrs:
        for dmode in ("all", "none", "alt", "hi"):
            dirty = [{"all": 0xFFFFFFFF, "none": 0, "alt": 0xAAAAAAAA, "hi": 0x80000000}[dmode]] * len(hdr)
            n += 1
            vals = BTree()
            t = 7000
            for k in range(len(hdr) * 32):
                if bit(hdr, k):
                    vals.d[k] = Wide([Tok(t + j, "any") for j in range(4)])
                    t += 4
            want = [len(hdr)]
            for h, d in zip(hdr, dirty):
                want += [((h & d) >> (8 * i)) & 0xFF for i in range(4)]
            for k in sorted(vals.d):
                if bit(dirty, k):
                    want += vals.d[k].slots
            what = f"header [{' '.join(f'{b:#010x}' for b in hdr)}] dirty [{' '.join(f'{b:#010x}' for b in dirty)}]"
            try:
                sink = Sink()
                Mini(FB, "wow_world_messages").call_fn(wpath, [sink, list(hdr), list(dirty), vals])
                size = Mini(FB, "wow_world_messages").call_fn(spath, [list(dirty), list(hdr)])
            except Panic as e:
                ctx.violate("um.wire", "write_inner|panic", f"inners::write_into_vec / update_mask_size panics on {what}: {e}", wfn["file"], wfn["line"])
                return n
            except Unsupported as e:
                ctx.violate("um.wire", "write_inner|shape", f"inners::write_into_vec: shape not recognised — review ({e})", wfn["file"], wfn["line"])
                return n
            if sink.out != want:
                nb = 1 + 4 * len(hdr)
                got_words = [sink.out[i:i + 4] for i in range(nb, len(sink.out), 4)]
                missing = [k for k in sorted(vals.d) if bit(dirty, k) and vals.d[k].slots not in got_words]
                ctx.violate("um.wire", "write_inner|encode", f"inners::write_into_vec on {what} emits {len(sink.out)} bytes, the wire form has {len(want)}"
                            f"{'; the words of indices ' + str(missing[:8]) + ' are missing although their mask bits are written' if missing else '; blocks or word order differ'}", wfn["file"], wfn["line"])
                return n
            if size != len(want):
                ctx.violate("um.wire", "write_inner|size", f"inners::update_mask_size on {what} = {size}, the wire form has {len(want)} bytes", sfn["file"], sfn["line"])
                return n
    return n


FIELD_NAMES = ("values", "header", "dirty_mask")


def check_funnel(ctx, F):
    """who may touch header / dirty_mask / values of the Update* types"""
    n = 0
    ro_methods = ("range", "get", "iter", "len", "contains_key", "is_empty", "keys")
    for fn in F.all("fn", lambda p: "::update_mask::" in p or "update_mask" in p):
        if fn.get("hir") is None:
            continue
        in_impls = "::update_mask::impls::" in fn["path"]
        in_macro = re.search(r"::update_mask::Update\w+::\w+$", fn["path"]) is not None and not in_impls
        derive = fn["path"].startswith("<")
        for x in H.walk(fn["hir"]):
            if H.tag(x) == "field" and x[2] in FIELD_NAMES:
                base = H.strip_refs(x[1])
                if H.tag(base) not in ("local", "field"):
                    continue
                n += 1
                if in_macro or derive or "update_mask_common::inners" in fn["path"]:
                    continue
                if in_impls:
                    # only read-only uses are allowed in the generated accessors
                    ok = False
                    for y in H.walk(fn["hir"]):
                        if H.tag(y) == "mcall" and H.strip_refs(H.mcall(y)["recv"]) is x or (H.tag(y) == "mcall" and H.strip_refs(H.mcall(y)["recv"]) == x):
                            ok = H.mcall(y)["name"] in ro_methods
                    if ok:
                        continue
                ctx.violate("um.funnel", f"{fn['path']}|{x[2]}", f"{fn['path']} accesses `{x[2]}` of an update mask directly; every mutation must go through header_set (value present <=> header bit, set => dirty)", fn["file"], fn["line"])
    return n


def run(ctx):
    FB = {c: facts(c) for c in ("wow_world_messages", "wow_world_base")}
    FP = facts("wow_message_parser")
    md = parse_md()
    total_acc = total_int = wire = seq = 0
    for exp, ver in EXPANSIONS.items():
        rows = parse_fields(FP, exp)
        if rows is None:
            ctx.violate("um.table3", f"{exp}|anchor", f"{exp}_fields::FIELDS not found or not a literal table (anchor disappeared)")
            continue
        if ver not in md:
            ctx.violate("um.table3", f"{exp}|md-anchor", f"update-mask.md has no table for version {ver}")
            continue
        a, i = check_expansion(ctx, FB, exp, md[ver], rows)
        if a < ACC_FLOORS[exp]:
            ctx.violate("um.accessors", f"floor|{exp}", f"{exp}: only {a} generated accessors found, floor is {ACC_FLOORS[exp]}")
        total_acc += a
        total_int += i
        wire += check_wire(ctx, FB, exp)
        seq += check_sequence(ctx, FB, exp, rows)
        ctx.sample({"expansion": exp, "table_rows": len(rows), "accessors": a, "setter_interpretations": i})
    ctx.rule("um.table3", sum(len(v) for v in md.values()), floor=860, note="rows of update-mask.md vs the generator's FIELDS tables (3 expansions), rows of one object kind disjoint")
    ctx.rule("um.accessors", total_acc, floor=3720, note=f"generated accessors; {total_int} setter/getter/builder interpretations on abstract arguments (every index value of indexed fields)")
    wire += check_read_inner(ctx, FB)
    wire += check_write_inner(ctx, FB)
    ctx.rule("um.wire", wire, floor=21, note="new/set/write/read-back/size/dirty operations interpreted for 7 object kinds x 3 expansions + read_inner over 39 mask-block patterns (every single bit)")
    ctx.rule("um.sequence", seq, floor=1100, note="getter results after a history that sets every simple typed field of a kind once (7 kinds x 3 expansions)")
    fn_n = check_funnel(ctx, FB["wow_world_messages"])
    ctx.rule("um.funnel", fn_n, floor=100, note="accesses to header/dirty_mask/values of the update mask types (who-may-write)")
    ctx.assume("histories: a getter returns the last value set for its field because every setter writes only inside its own table row, rows of one kind are disjoint, "
               "and all writes go through header_set (decided per accessor and per row, not by enumerating sequences)")
    ctx.assume("BTreeMap, Vec and integer primitives are modelled by their std contracts in the abstract interpreter")
    return "other", EXPLANATION, {}
