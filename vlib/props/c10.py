"""C10 — the intermediate representation is schema-valid and faithful (type-level conformance of the serializer with the schema)."""
import json
import os
import re

from .. import hir as H
from ..common import REPO
from ..facts import facts

EXPLANATION = (
    "D1: the JSON shape the generator can emit is read off the derive-expanded Serialize impls of every type reachable from "
    "IrObjects (typed HIR: serialize_struct / serialize_field with the resolved value type / skip_field / unit variants / "
    "adjacently and internally tagged enums and their helper structs) and checked against the published JSON Typedef schema: "
    "every emitted property is declared with a compatible type, every required schema property is always emitted, properties "
    "that may be skipped are optional in the schema, Option values are nullable, enum strings and discriminator mappings cover "
    "every variant. This decides 'validates against the schema' for all inputs, which validating one emitted file cannot. "
    "D2: the enum-to-enum conversions of the IR printer map every variant to the same-named variant. That the IR omits and "
    "invents nothing for the 2,050 objects needs the emitted file (the committed one is an empty placeholder) and is not decided."
)
SCHEMA = os.path.join(REPO, "intermediate_representation_schema.json")
PRIM = {"u8": "uint8", "u16": "uint16", "u32": "uint32", "i8": "int8", "i16": "int16", "i32": "int32", "bool": "boolean",
        "f32": "float32", "f64": "float64", "str": "string", "std::string::String": "string", "&str": "string", "&'static str": "string"}
_GEN = re.compile(r"^([\w:]+)<(.*)>$")


def strip_ref(t):
    t = t.strip()
    while t.startswith("&"):
        t = t[1:].strip()
        t = re.sub(r"^'\w+\s+", "", t)
        if t.startswith("mut "):
            t = t[4:]
    return t


def split_args(s):
    out, depth, cur = [], 0, ""
    for ch in s:
        if ch == "<" or ch == "(" or ch == "[":
            depth += 1
        elif ch == ">" or ch == ")" or ch == "]":
            depth -= 1
        if ch == "," and depth == 0:
            out.append(cur.strip())
            cur = ""
        else:
            cur += ch
    if cur.strip():
        out.append(cur.strip())
    return out


class Shapes:
    def __init__(self, F, ctx):
        self.F, self.ctx = F, ctx
        self.impls = {}
        self.helpers = {}
        for p in F.paths("fn"):
            m = re.search(r"<impl serde_core::ser::Serialize for (crate::[\w:]+)>::serialize$", p)
            if m and not p.startswith("<"):
                self.impls[m.group(1)] = p
            elif "__AdjacentlyTagged" in p and p.endswith("::serialize"):
                m2 = re.search(r"Serialize for (crate::[\w:]+)>::serialize::__AdjacentlyTagged", p)
                if m2:
                    for r in F.fns(p):
                        st = self.struct_emission(H.stmts_of(r["hir"]), r)
                        if st:
                            self.helpers[(m2.group(1), st["name"])] = st
        self.cache = {}

    def field_calls(self, stmts, r):
        """-> (struct name, [ {key, ty, tag, optional, helper} ])"""
        name = None
        fields = []

        def one(call, optional):
            args = H.call_args(call)
            key = H.strip(args[1])[2]
            val = H.strip_refs(args[2])
            ga = H.call_gargs(call)
            ty = ga[1] if len(ga) > 1 else None
            fc0 = H.field_chain(args[2])
            f = {"key": key, "ty": ty, "optional": optional, "tag": None, "helper": None, "field": fc0[1][0] if fc0 and fc0[0] == "self" and fc0[1] else None}
            if H.tag(val) == "lit" and val[1] == "str":
                f["tag"] = val[2]
            elif H.tag(val) == "struct" and val[1].endswith("AdjacentlyTaggedEnumVariant"):
                f["tag"] = next(H.strip(v)[2] for k, v in val[2] if k == "variant_name")
            elif H.tag(val) == "struct" and val[1].endswith("__AdjacentlyTagged"):
                f["helper"] = True
            fields.append(f)

        for st in stmts:
            if st[0] == "item" or len(st) < 2:
                continue
            e = st[2] if st[0] == "let" else st[1]
            if e is None:
                continue
            for x in H.walk(e):
                if H.tag(x) == "call" and H.call_path(x) == "serde_core::ser::Serializer::serialize_struct":
                    name = H.strip(H.call_args(x)[1])[2]
            e2 = H.strip(e)
            while H.tag(e2) == "try":
                e2 = H.strip(e2[1])
            if H.tag(e2) == "call" and H.call_path(e2) == "serde_core::ser::SerializeStruct::serialize_field":
                one(e2, False)
            elif H.tag(e2) == "if":
                calls = [x for x in H.walk(e2) if H.tag(x) == "call" and H.call_path(x) == "serde_core::ser::SerializeStruct::serialize_field"]
                skips = [x for x in H.walk(e2) if H.tag(x) == "call" and H.call_path(x) == "serde_core::ser::SerializeStruct::skip_field"]
                if len(calls) == 1 and len(skips) == 1:
                    one(calls[0], True)
                elif calls or skips:
                    return None
        return name, fields

    def struct_emission(self, stmts, r):
        fc = self.field_calls(stmts, r)
        if fc is None or fc[0] is None:
            return None
        return {"kind": "struct", "name": fc[0], "fields": fc[1]}

    def shape(self, ty):
        if ty in self.cache:
            return self.cache[ty]
        p = self.impls.get(ty)
        if p is None:
            return None
        r = self.F.fn(p)
        body = H.strip(r["hir"])
        out = None
        if H.tag(body) == "match":
            variants = []
            for pat, guard, arm in body[3]:
                vname = pat[1].split("::")[-1]
                a = H.strip(arm)
                if H.tag(a) == "call" and H.call_path(a) == "serde_core::ser::Serializer::serialize_unit_variant":
                    variants.append({"variant": vname, "unit": H.strip(H.call_args(a)[3])[2]})
                    continue
                if H.tag(a) == "call" and (H.call_path(a) or "").endswith("::serialize_tagged_newtype"):
                    args = H.call_args(a)
                    inner_ty = None
                    if H.tag(pat) == "ts" and pat[2] and H.tag(pat[2][0]) == "bind":
                        inner_ty = strip_ref(pat[2][0][4])
                    variants.append({"variant": vname, "newtype": inner_ty, "tagkey": H.strip(args[3])[2], "tagval": H.strip(args[4])[2]})
                    continue
                st = self.struct_emission(H.stmts_of(arm), r)
                if st is None:
                    self.ctx.violate("serde.schema", f"{ty}|{vname}|shape", f"Serialize for {ty}: variant {vname}: emission not recognised — review", r["file"], r["line"])
                    continue
                variants.append({"variant": vname, "struct": st})
            out = {"kind": "enum", "variants": variants, "file": r["file"], "line": r["line"]}
        else:
            st = self.struct_emission(H.stmts_of(r["hir"]), r)
            if st is None:
                self.ctx.violate("serde.schema", f"{ty}|shape", f"Serialize for {ty}: emission not recognised — review", r["file"], r["line"])
            else:
                st["file"], st["line"] = r["file"], r["line"]
                out = st
        self.cache[ty] = out
        return out


def presence(e, lets, depth=0):
    """'always' (Some), 'never' (None) or 'maybe' for an Option-typed initialiser expression"""
    e = H.strip(e)
    t = H.tag(e)
    if t == "path" and e[1] == "std::option::Option::None":
        return "never"
    if t == "call" and H.call_path(e) == "std::option::Option::Some":
        return "always"
    if t == "local" and e[1] in lets and depth < 6:
        return presence(lets[e[1]], lets, depth + 1)
    if t == "if" and e[3] is not None:
        a, b = presence(e[2], lets, depth + 1), presence(e[3], lets, depth + 1)
        return a if a == b else "maybe"
    if t == "block" and e[2] is not None:
        return presence(e[2], lets, depth + 1)
    return "maybe"


class Ctors:
    """which Option fields of a serialised struct a constructor function leaves None / always sets"""

    def __init__(self, F):
        self.F = F
        self.by_fn = {}
        self.sites = {}  # (parent type, field) -> set of constructor fn paths
        for fn in F.all("fn", lambda p: p.startswith("crate::ir_printer::")):
            if fn.get("hir") is None:
                continue
            for x in H.walk(fn["hir"]):
                if H.tag(x) == "struct" and isinstance(x[4], str) and x[4].startswith("crate::ir_printer::"):
                    parent = x[4]
                    for fname, fv in x[2]:
                        v = H.strip(fv)
                        if H.tag(v) == "call" and (H.call_path(v) or "").startswith("crate::ir_printer::"):
                            self.sites.setdefault((parent, fname), set()).add(H.call_path(v))
                        else:
                            self.sites.setdefault((parent, fname), set()).add(None)

    def of_fn(self, path):
        if path in self.by_fn:
            return self.by_fn[path]
        r = self.F.fn(path) if path else None
        out = None
        if r is not None and r.get("hir") is not None:
            lets = {}
            stmts = H.stmts_of(r["hir"])
            for st in stmts:
                if st[0] == "let" and H.tag(st[1]) == "bind" and st[2] is not None:
                    lets[st[1][1]] = st[2]
            tail = [st for st in stmts if st[0] == "tail"]
            if tail and H.tag(H.strip(tail[0][1])) == "struct":
                lit = H.strip(tail[0][1])
                out = {fname: presence(fv, lets) for fname, fv in lit[2]}
                if lit[3] is not None:
                    # struct update syntax `..base`: the fields not listed come from the base value, which must itself be a constructor
                    # of this crate whose result is known (e.g. a `const fn absent()` with every Option None)
                    base = H.strip(lit[3])
                    while H.tag(base) == "local" and base[1] in lets:
                        base = H.strip(lets[base[1]])
                    bp = None
                    if H.tag(base) == "call" and (H.call_path(base) or "").startswith("crate::ir_printer::") and path != H.call_path(base):
                        self.by_fn[path] = None  # guards against recursion
                        bp = self.of_fn(H.call_path(base))
                    if bp is None:
                        out = None
                    else:
                        merged = dict(bp)
                        merged.update(out)
                        out = merged
        self.by_fn[path] = out
        return out

    def presence_at(self, parent, field):
        """-> {child field: 'always'|'never'|'maybe'} or None when unknown"""
        ctors = self.sites.get((parent, field))
        if not ctors or None in ctors:
            return None
        merged = None
        for c in ctors:
            p = self.of_fn(c)
            if p is None:
                return None
            if merged is None:
                merged = dict(p)
            else:
                for k in set(merged) | set(p):
                    if merged.get(k) != p.get(k):
                        merged[k] = "maybe"
        return merged


class Conf:
    def __init__(self, ctx, shapes, schema):
        self.ctors = Ctors(shapes.F)
        self.ctx, self.S, self.schema = ctx, shapes, schema
        self.defs = schema.get("definitions", {})
        self.n = 0
        self.seen = set()

    def deref(self, sch):
        hops = 0
        nullable = bool(sch.get("nullable"))
        while "ref" in sch and hops < 10:
            sch = self.defs[sch["ref"]]
            nullable = nullable or bool(sch.get("nullable"))
            hops += 1
        return sch, nullable

    def bad(self, where, msg, ty=None):
        sh = self.S.cache.get(ty) if ty else None
        self.ctx.violate("serde.schema", where, f"{where}: {msg}", sh.get("file") if sh else "intermediate_representation_schema.json", sh.get("line") if sh else None)

    def ty(self, ty, sch, where, nullable_ok=False):
        """Rust value type vs schema"""
        self.n += 1
        ty = strip_ref(ty)
        sch0 = sch
        sch, nullable = self.deref(sch)
        head, args = (_GEN.match(ty).group(1), split_args(_GEN.match(ty).group(2))) if _GEN.match(ty) else (ty, [])
        if head == "std::option::Option":
            if not nullable and not nullable_ok:
                self.bad(where, f"the serializer emits Option<{args[0]}> (null when absent) but the schema does not mark the value nullable")
            return self.ty(args[0], dict(sch, nullable=False) if "ref" not in sch0 else sch, where, True)
        if head == "std::boxed::Box":
            return self.ty(args[0], sch0, where, nullable_ok)
        if head in ("std::vec::Vec", "std::collections::btree::set::BTreeSet") or ty.startswith("["):
            inner = args[0] if args else ty[1:-1].split(";")[0]
            if "elements" not in sch:
                return self.bad(where, f"the serializer emits a sequence of {inner} but the schema says {short(sch)}")
            return self.ty(inner, sch["elements"], where + "[]")
        if head == "std::collections::btree::map::BTreeMap":
            if "values" not in sch:
                return self.bad(where, f"the serializer emits a map but the schema says {short(sch)}")
            return self.ty(args[1], sch["values"], where + "{}")
        if ty == "i32" and sch.get("type") == "uint16" and where.endswith(("_update_mask[].offset", "_update_mask[].size")) and self.update_mask_values_fit():
            return
        mnz = re.match(r"^std::num::(?:nonzero::)?NonZero<(\w+)>$", ty)
        if mnz:
            ty = mnz.group(1)  # serde writes a NonZero<T> as the plain number (that 0 is unrepresentable is the business of ir.lossless-cast)
        if ty in PRIM:
            if sch.get("type") != PRIM[ty]:
                # wider JTD integer types that contain the Rust type are fine
                ok = {"uint8": ["uint16", "uint32", "int16", "int32"], "uint16": ["uint32", "int32"], "int8": ["int16", "int32"], "int16": ["int32"], "float32": ["float64"]}.get(PRIM[ty], [])
                if sch.get("type") not in ok:
                    return self.bad(where, f"the serializer emits {ty} but the schema says {short(sch)}")
            return
        if ty in ("u64", "i64", "u128", "i128", "usize", "isize"):
            return self.bad(where, f"the serializer emits a {ty} number; JSON Typedef has no type that holds it (schema: {short(sch)})")
        sh = self.S.shape(ty)
        if sh is None:
            return self.bad(where, f"no Serialize impl found for {ty}")
        key = (ty, json.dumps(sch, sort_keys=True))
        if key in self.seen:
            return
        self.seen.add(key)
        if sh["kind"] == "struct":
            return self.struct(sh["fields"], sch, where, ty)
        return self.enum(sh, sch, where, ty)

    def update_mask_values_fit(self):
        """offset/size of the update-mask tables are i32 constants of the generator; they fit uint16 iff every table row does"""
        if not hasattr(self, "_umfit"):
            from .c13 import parse_fields
            ok = True
            for exp in ("vanilla", "tbc", "wrath"):
                rows = parse_fields(self.S.F, exp)
                ok = ok and rows is not None and all(0 <= r["offset"] <= 0xFFFF and 0 <= r["size"] <= 0xFFFF for r in rows)
            self._umfit = ok
        return self._umfit

    def struct(self, fields, sch, where, ty, ignore_keys=()):
        if "properties" not in sch and "optionalProperties" not in sch:
            return self.bad(where, f"the serializer emits an object ({[f['key'] for f in fields]}) but the schema says {short(sch)}", ty)
        req = sch.get("properties", {})
        opt = sch.get("optionalProperties", {})
        emitted = set()
        for f in fields:
            if f["key"] in ignore_keys:
                continue
            emitted.add(f["key"])
            w = f"{where}.{f['key']}"
            if f["key"] in req:
                if f["optional"]:
                    self.bad(w, "the serializer may skip this property (skip_serializing_if) but the schema requires it", ty)
                self.value(f, req[f["key"]], w, ty)
            elif f["key"] in opt:
                self.value(f, opt[f["key"]], w, ty, optional=True)
            elif not sch.get("additionalProperties"):
                self.bad(w, "the serializer emits this property but the schema does not declare it (additional properties are rejected)", ty)
        for k in req:
            if k not in emitted:
                self.bad(f"{where}.{k}", "the schema requires this property but the serializer never emits it", ty)

    def value(self, f, sch, where, ty, optional=False):
        if f["helper"] or f["tag"] is not None:
            return
        vt = f["ty"]
        child = self.S.shape(strip_ref(vt)) if vt else None
        if child is not None and child["kind"] == "struct" and f.get("field"):
            pres = self.ctors.presence_at(ty, f["field"])
            if pres is not None:
                fields = []
                for cf in child["fields"]:
                    pr = pres.get(cf.get("field"))
                    if pr == "never" and cf["optional"]:
                        continue
                    fields.append(dict(cf, optional=False, nonnull=True) if pr == "always" else cf)
                self.n += 1
                s2, _ = self.deref(sch)
                return self.struct(fields, s2, where, strip_ref(vt))
        if (f["optional"] or f.get("nonnull")) and strip_ref(vt).startswith("std::option::Option<"):
            # skipped when None: the emitted value is never null
            inner = split_args(_GEN.match(strip_ref(vt)).group(2))[0]
            return self.ty(inner, sch, where, True)
        return self.ty(vt, sch, where)

    def enum(self, sh, sch, where, ty):
        vs = sh["variants"]
        if all("unit" in v for v in vs):
            if "enum" not in sch:
                return self.bad(where, f"the serializer emits one of the strings {[v['unit'] for v in vs]} but the schema says {short(sch)}", ty)
            missing = [v["unit"] for v in vs if v["unit"] not in sch["enum"]]
            if missing:
                self.bad(where, f"the serializer can emit {missing} which the schema's enum {sch['enum']} does not allow", ty)
            extra = [e for e in sch["enum"] if e not in [v["unit"] for v in vs]]
            if extra:
                self.bad(where, f"the schema allows {extra} which no variant of {ty} produces (schema and serializer out of step)", ty)
            return
        if "discriminator" not in sch:
            return self.bad(where, f"the serializer emits a tagged object for {ty} but the schema says {short(sch)}", ty)
        tagkey = sch["discriminator"]
        mapping = sch["mapping"]
        seen = set()
        for v in vs:
            if "unit" in v:
                self.bad(where, f"variant {v['variant']} of {ty} is emitted as a bare string inside a tagged enum", ty)
                continue
            if "newtype" in v:
                inner = self.S.shape(v["newtype"]) if v["newtype"] else None
                if inner is None or inner["kind"] != "struct":
                    self.bad(f"{where}<{v['variant']}>", f"internally tagged newtype variant over {v['newtype']}: inner shape not found — review", ty)
                    continue
                fields = [{"key": v["tagkey"], "ty": None, "optional": False, "tag": v["tagval"], "helper": None, "field": None}] + inner["fields"]
            else:
                fields = v["struct"]["fields"]
            tags = [f for f in fields if f["tag"] is not None]
            if len(tags) != 1 or tags[0]["key"] != tagkey:
                self.bad(f"{where}<{v['variant']}>", f"the tag property is {[t['key'] for t in tags]}, the schema discriminates on `{tagkey}`", ty)
                continue
            tv = tags[0]["tag"]
            seen.add(tv)
            if tv not in mapping:
                self.bad(f"{where}<{tv}>", f"the serializer emits {tagkey} = \"{tv}\" which the schema's mapping does not contain", ty)
                continue
            msch = mapping[tv]
            rest = [f for f in fields if f["tag"] is None]
            # helper structs (struct variants of adjacently tagged enums)
            resolved = []
            for f in rest:
                if f["helper"]:
                    hs = self.S.helpers.get((ty, v["variant"]))
                    if hs is None:
                        self.bad(f"{where}<{tv}>.{f['key']}", "helper struct of the variant's content not found — review", ty)
                        continue
                    csch = msch.get("properties", {}).get(f["key"]) or msch.get("optionalProperties", {}).get(f["key"])
                    if csch is None:
                        self.bad(f"{where}<{tv}>.{f['key']}", "the serializer emits this content property but the schema's mapping does not declare it", ty)
                    else:
                        csch, _ = self.deref(csch)
                        self.struct(hs["fields"], csch, f"{where}<{tv}>.{f['key']}", ty)
                    resolved.append(dict(f, helper=True))
                else:
                    resolved.append(f)
            self.struct(resolved, msch, f"{where}<{tv}>", ty)
        for k in mapping:
            if k not in seen:
                self.bad(f"{where}<{k}>", f"the schema's mapping has `{k}` which no variant of {ty} produces (schema and serializer out of step)", ty)


def short(s):
    t = json.dumps(s)
    return t if len(t) < 120 else t[:120] + "…"


def check_conversions(ctx, F):
    """D2: enum -> enum conversion matches in the IR printer keep variant names"""
    n = 0
    for fn in F.all("fn", lambda p: p.startswith("crate::ir_printer::")):
        if fn.get("hir") is None:
            continue
        for x in H.walk(fn["hir"]):
            if H.tag(x) != "match":
                continue
            pairs = []
            for pat, guard, body in x[3]:
                pp = pat
                while H.tag(pp) in ("pref", "pderef"):
                    pp = pp[1]
                b = H.strip(body)
                if H.tag(pp) == "ppath" and H.tag(b) in ("path", "selfctor") and "Ctor(Variant, Const)" in (b[2] if H.tag(b) == "path" else ""):
                    pairs.append((pp[1], b[1]))
                else:
                    pairs = None
                    break
            if not pairs or len(pairs) < 2:
                continue
            src_ty = pairs[0][0].rsplit("::", 1)[0]
            dst_ty = pairs[0][1].rsplit("::", 1)[0]
            if not all(a.rsplit("::", 1)[0] == src_ty and b.rsplit("::", 1)[0] == dst_ty for a, b in pairs) or src_ty == dst_ty:
                continue
            n += 1
            adt = F.adt(dst_ty)
            dst_names = {v[0] for v in adt["variants"]} if adt else set()
            targets = {}
            for a, b in pairs:
                an, bn = a.split("::")[-1], b.split("::")[-1]
                if bn in targets:
                    ctx.violate("conv.name-preserving", f"{fn['path']}|{an}|dup", f"{fn['path']}: {targets[bn]} and {an} are both converted to {bn}: two different source values become indistinguishable in the IR", fn["file"], fn["line"])
                targets[bn] = an
                if an != bn and an in dst_names:
                    ctx.violate("conv.name-preserving", f"{fn['path']}|{an}", f"{fn['path']}: {a.split('::')[-2]}::{an} is converted to {b.split('::')[-2]}::{bn} although the target has a variant {an} (crossed arms)", fn["file"], fn["line"])
    ctx.rule("conv.name-preserving", n, floor=3, note="enum-to-enum conversion matches in ir_printer: same-named variants")


# lossy integer casts that exist in the IR printer today, each confirmed by reading (one line of reason per exception)
LOSSY_OK = {
    ("crate::ir_printer::container::i128_to_u32", "i128", "u32"): "dominated by the explicit saturation guards (v < 0, v >= u32::MAX) in the same function",
    ("crate::ir_printer::container::IrStructMemberDefinition::from_definition", "i128", "u8"): "size_of_fields_before_size of a manual size field: a byte offset inside a header-sized prefix",
    ("crate::ir_printer::container::IrTestCase::from_test_case", "usize", "u32"): "line numbers of wowm source files",
    ("crate::ir_printer::definer::definer_to_ir", "usize", "u32"): "line numbers of wowm source files",
    ("crate::ir_printer::IrFileInfo::from_file_info", "usize", "u32"): "line numbers of wowm source files",
    ("crate::ir_printer::IrObjects::from_regular_objects", "u32", "u8"): "opcodes of login messages, which are one byte on the wire",
}


def _cast_ok_by_operand(x, b):
    """a narrowing cast whose operand cannot leave the target range, whichever function it stands in:
    -> reason or None.  x = cast node, b = (lo, hi) of the target type"""
    op = H.strip(x[4])
    while H.tag(op) in ("ref", "paren") or (H.tag(op) == "un" and op[2] == "Deref"):
        op = H.strip(op[1] if H.tag(op) != "un" else op[4])
    t = H.tag(op)
    if t == "lit" and op[1] == "int" and b[0] <= int(op[2]) <= b[1]:
        return "literal in range"
    if t == "path" and re.search(r"<impl [ui]\d+>::BITS$|::BITS$", op[1]) and b[1] >= 128:
        return "bit width of an integer type"
    if t == "mcall":
        mc = H.mcall(op)
        if mc["name"] == "opcode" and x[2] == "u32" and x[3] == "u8" and "ir_printer" not in (mc["path"] or "") and "LoginVersion" not in (mc["recv_ty"] or "") \
                and ("login" in (mc["recv_ty"] or "").lower() or True):
            return "opcode of a login message (one byte on the wire)" if "Container" in (mc["recv_ty"] or "") else None
        if mc["name"] in ("start_line", "end_line", "start_position", "end_position", "line") and x[3] == "u32":
            return "line number of a wowm source file"
        if mc["name"] == "clamp" and len(mc["args"]) == 2:
            lo, hi = H.strip(mc["args"][0]), H.strip(mc["args"][1])
            lov = H.lit_int(lo)
            hiv = H.lit_int(hi)
            if hiv is None and H.tag(hi) == "cast":
                inner = H.strip(hi[4])
                if H.tag(inner) == "path" and inner[1].endswith("::MAX"):
                    mt = re.search(r"<impl ([ui]\d+)>::MAX$", inner[1])
                    if mt:
                        from ..intconv import int_range
                        hiv = int_range(mt.group(1))[1]
            if hiv is None and H.tag(hi) == "call" and len(H.call_args(hi)) == 1:
                inner = H.strip(H.call_args(hi)[0])
                mt = re.search(r"<impl ([ui]\d+)>::MAX$", inner[1]) if H.tag(inner) == "path" else None
                if mt:
                    from ..intconv import int_range
                    hiv = int_range(mt.group(1))[1]
            if lov is not None and hiv is not None and b[0] <= lov and hiv <= b[1]:
                return "operand clamped into the target range"
    return None


def check_lossless(ctx, F):
    """values of the wowm model may reach the IR only through value-preserving integer conversions"""
    from ..intconv import INT_TYPES, int_range
    n = 0
    for fn in F.all("fn", lambda p: p.startswith("crate::ir_printer::")):
        if fn.get("hir") is None:
            continue
        owner = re.sub(r"::\{closure#\d+\}", "", fn["path"])
        for x in H.walk(fn["hir"]):
            if H.tag(x) == "cast" and x[2] in INT_TYPES and x[3] in INT_TYPES:
                n += 1
                a, b = int_range(x[2]), int_range(x[3])
                if b[0] <= a[0] and a[1] <= b[1]:
                    continue
                if (owner, x[2], x[3]) in LOSSY_OK or _cast_ok_by_operand(x, b):
                    continue
                ctx.violate("ir.lossless-cast", f"{owner}|{x[2]}->{x[3]}|{H.short(x[4], maxlen=40)}",
                            f"{owner}: `{H.short(x[4], maxlen=60)} as {x[3]}` narrows / reinterprets a {x[2]} on its way into the IR: values outside {x[3]} (e.g. negative enumerator values) are written as a different number than the wowm text states", fn["file"], fn["line"])
            # value-dropping constructors: NonZero::new(v) is None for v == 0, so a component that is literally 0 disappears from the IR
            if H.tag(x) == "call" and re.search(r"NonZero<\w+>::new$|NonZero(U|I)\d+::new$|nonzero::NonZero::<\w+>::new$", H.call_path(x) or ""):
                n += 1
                ctx.violate("ir.lossless-cast", f"{owner}|nonzero|{H.short(x, maxlen=40)}",
                            f"{owner}: `{H.short(x, maxlen=70)}` maps the value 0 to None on its way into the IR: a version component / number that is literally 0 is emitted as null, i.e. as if it had not been written", fn["file"], fn["line"])
    ctx.rule("ir.lossless-cast", n, floor=0, note=f"integer casts in ir_printer; {len(LOSSY_OK)} tabled lossy casts with reasons")


def check_ir_witnesses(ctx, F):
    """the small conversion functions that carry model values into the IR, interpreted on instances that distinguish every field
    and variant (versions with zero components, min != max, distinct line numbers, every boolean tag on its own)"""
    from ..minieval import Mini, Panic, Unsupported
    from .c16 import _fill
    FB = {"wow_message_parser": F}
    IR = "crate::ir_printer::"
    WV = "wow_message_parser::parser::types::version::WorldVersion::"
    LV = "wow_message_parser::parser::types::version::LoginVersion::"
    n = 0

    def run_(path, args, overrides=None):
        m = Mini(FB, "wow_message_parser")
        m.overrides = dict(overrides or {})
        m.overrides.setdefault("ToString::to_string", lambda a: a[0])
        m.overrides.setdefault("ToOwned::to_owned", lambda a: a[0])
        import copy
        return m.call_fn(path, [_fill(a) for a in copy.deepcopy(args)])

    def fields(v):
        return v[2] if isinstance(v, tuple) and v and v[0] == "struct" else None

    def opt(x):
        return x[1] if isinstance(x, tuple) and len(x) == 2 and x[0] == "Some" else (None if x == "None" else x)

    def check(name, got, want, fn):
        nonlocal n
        n += 1
        if got != want:
            ctx.violate("ir.witness", f"{fn['path']}|{name}", f"{fn['path'].split('ir_printer::')[-1]} on {name}: the IR value is {got}, the model value is {want}: the IR misreports what the wowm text says", fn["file"], fn["line"])

    def section(body):
        try:
            body()
        except (Unsupported, Panic, KeyError, TypeError) as e:
            ctx.violate("ir.witness", f"shape|{body.__name__}", f"IR conversion functions ({body.__name__}): not interpretable — review ({type(e).__name__}: {e})")

    def versions():
        # --- world versions -------------------------------------------------------------------------------------------------
        fn = F.fn(IR + "IrWorldVersion::from_world_version")
        if fn is None:
            ctx.violate("ir.witness", "anchor|from_world_version", "IrWorldVersion::from_world_version not found (anchor disappeared)")
        else:
            for nm, v, want in (("3", ("variant", WV + "Major", [3]), (3, None, None, None)), ("3.0", ("variant", WV + "Minor", [3, 0]), (3, 0, None, None)),
                                ("2.0.3", ("variant", WV + "Patch", [2, 0, 3]), (2, 0, 3, None)), ("1.12.0", ("variant", WV + "Patch", [1, 12, 0]), (1, 12, 0, None)),
                                ("1.12.1.5875", ("variant", WV + "Exact", [1, 12, 1, 5875]), (1, 12, 1, 5875)), ("3.3.5.0", ("variant", WV + "Exact", [3, 3, 5, 0]), (3, 3, 5, 0))):
                f = fields(run_(fn["path"], [v]))
                got = (f["major"], opt(f["minor"]), opt(f["patch"]), opt(f["build"])) if f else None
                check(f"version {nm}", got, want, fn)
        fn = F.fn(IR + "IrLoginVersion::from_login_versions")
        if fn is not None:
            r = run_(fn["path"], [[("variant", LV + "Specific", [2]), ("variant", LV + "Specific", [8])]])
            check("login versions {2, 8}", r[2][0] if isinstance(r, tuple) and r[0] == "variant" and len(r) > 2 else r, [2, 8], fn)
            r = run_(fn["path"], [[("variant", LV + "All")]])
            check("login versions {*}", r[1].split("::")[-1] if isinstance(r, tuple) and r[0] == "variant" else r, "All", fn)
    def sizes():
        # --- sizes -----------------------------------------------------------------------------------------------------------
        fn = F.fn(IR + "container::IrSizes::from_sizes")
        if fn is None:
            ctx.violate("ir.witness", "anchor|from_sizes", "IrSizes::from_sizes not found (anchor disappeared)")
        else:
            for lo, hi in ((3, 3), (4, 260), (0, 0), (5, 1 << 40)):
                f = fields(run_(fn["path"], [("struct", "crate::parser::types::sizes::Sizes", {"minimum": lo, "maximum": hi})]))
                got = (f["constant_sized"], f["minimum_size"], f["maximum_size"]) if f else None
                check(f"sizes [{lo}, {hi}]", got, (lo == hi, min(lo, 0xFFFFFFFF), min(hi, 0xFFFFFFFF)), fn)
    def file_info():
        # --- file info ---------------------------------------------------------------------------------------------------------
        fn = F.fn(IR + "IrFileInfo::from_file_info")
        if fn is not None:
            f = fields(run_(fn["path"], [("struct", "crate::file_info::FileInfo", {"file_name": "a.wowm", "path": None, "start_position": 11, "end_position": 29})]))
            check("file a.wowm lines 11..29", (f["file_name"], f["start_position"], f["end_position"]) if f else None, ("a.wowm", 11, 29), fn)
    def container_type():
        # --- container type ----------------------------------------------------------------------------------------------------
        fn = F.fn(IR + "container::IrContainerType::from_container_type")
        CT = "wow_message_parser::parser::types::container::ContainerType::"
        if fn is not None:
            for var, op in (("CMsg", 0x1DC), ("SMsg", 0x1DD), ("Msg", 0x2CE), ("CLogin", 0x10), ("SLogin", 0x00)):
                r = run_(fn["path"], [("variant", CT + var, [op])])
                check(f"{var}({op:#x})", (r[1].split("::")[-1], r[2]) if isinstance(r, tuple) and r[0] == "variant" and len(r) > 2 else r, (var, [op]), fn)
            r = run_(fn["path"], [("variant", CT + "Struct")])
            check("Struct", r[1].split("::")[-1] if isinstance(r, tuple) and r[0] == "variant" else r, "Struct", fn)
    def enumerator():
        # --- enumerator -----------------------------------------------------------------------------------------------------------
        fn = F.fn(IR + "definer::IrDefinerField::from_definer_field")
        D = "crate::parser::types::definer::"
        # (a helper with another signature is covered through definer_to_ir below)
        if fn is not None and len(fn["params"]) == 1:
            for nm, val, orig in (("A", 10, "0x0A"), ("NEG", -1, "-1"), ("BIG", 0x40000000200, "0x40000000200")):
                fld = ("struct", D + "DefinerField", {"name": nm, "value": ("struct", D + "DefinerValue", {"int": val, "original": orig}), "tags": None})
                f = fields(run_(fn["path"], [fld], {"::IrTags::from_member_tags": lambda a: ("tags",), "std::string::ToString::to_string": lambda a: str(a[0]) if isinstance(a[0], int) else a[0],
                                                    "ToString::to_string": lambda a: str(a[0]) if isinstance(a[0], int) else a[0]}))
                v = fields(f["value"]) if f else None
                check(f"enumerator {nm} = {orig}", (f["name"], v["value"], v["original_string"]) if f and v else None, (nm, str(val), orig), fn)
    def if_statement():
        # --- conditional structure: values of the if / else-if / else arms --------------------------------------------------
        fn = F.fn(IR + "container::IrIfStatement::from_statement")
        if fn is None:
            ctx.violate("ir.witness", "anchor|from_statement", "IrIfStatement::from_statement not found (anchor disappeared)")
            return
        D = "crate::parser::types::definer::"
        IFS = "crate::parser::types::if_statement::"

        def definer(names):
            return ("struct", D + "Definer", {"name": "E", "definer_ty": ("variant", "wow_message_parser::rust_printer::DefinerType::Enum"),
                                              "fields": [("struct", D + "DefinerField", {"name": nm, "value": ("struct", D + "DefinerValue", {"int": i, "original": str(i)}), "tags": None}) for i, nm in enumerate(names)],
                                              "basic_type": None, "tags": None, "objects_used_in": [], "file_info": None})

        def stmt(eq, vals, members, else_ifs=(), els=(), names=("A", "B", "C", "D", "E")):
            equation = ("struct", IFS + "Equation::" + eq, {"values": list(vals)} if eq != "NotEquals" else {"value": vals[0]})
            return ("struct", IFS + "IfStatement", {"variable_name": "x", "equation": equation, "members": list(members), "else_ifs": list(else_ifs), "else_statement_members": list(els),
                                                    "original_ty": ("ty", definer(names)), "separate_if_statement": False})
        ov = {"::IrStructMember::from_struct_member": lambda a: ("Some", ("member", a[0])), "::IrType::from_type": lambda a: ("irtype",), "::Type::definer": lambda a: a[0][1],
              "::is_elseif_flag": lambda a: False}

        def arms(ir):
            f = fields(ir)
            return [(f["values"], len(f["members"]))] + [(fields(e)["values"], len(fields(e)["members"])) for e in f["else_if_statements"]]
        cases = [
            ("if (x == A) {..} else {..}", stmt("Equals", ["A"], ["m1"], els=["m2"]), [(["A"], 1), (["B", "C", "D", "E"], 1)]),
            ("if (x == A || x == B) {..}", stmt("Equals", ["A", "B"], ["m1"]), [(["A", "B"], 1)]),
            ("if (x == A) {..} else if (x == B) {..} else {..}", stmt("Equals", ["A"], ["m1"], else_ifs=[stmt("Equals", ["B"], ["m2"])], els=["m3"]), [(["A"], 1), (["B"], 1), (["C", "D", "E"], 1)]),
            ("if (x == A || x == C) {..} else if (x == B) {..} else if (x == E) {..} else {..}",
             stmt("Equals", ["A", "C"], ["m1"], else_ifs=[stmt("Equals", ["B"], ["m2"]), stmt("Equals", ["E"], ["m3", "m4"])], els=["m5"]), [(["A", "C"], 1), (["B"], 1), (["E"], 2), (["D"], 1)]),
            ("if (x != A) {..}", stmt("NotEquals", ["A"], ["m1"]), [(["B", "C", "D", "E"], 1)]),
        ]
        # enumerator names that contain one another (SAY / MONSTER_SAY, as in the chat types): the else arm holds every enumerator that is not
        # *named* by an earlier arm - a name that is only part of such a name stays
        NM = ("SAY", "MONSTER_SAY", "WHISPER", "MONSTER_WHISPER", "YELL")
        cases += [
            ("if (x == MONSTER_SAY) {..} else if (x == MONSTER_WHISPER) {..} else {..} over SAY, MONSTER_SAY, WHISPER, MONSTER_WHISPER, YELL",
             stmt("Equals", ["MONSTER_SAY"], ["m1"], else_ifs=[stmt("Equals", ["MONSTER_WHISPER"], ["m2"], names=NM)], els=["m3"], names=NM),
             [(["MONSTER_SAY"], 1), (["MONSTER_WHISPER"], 1), (["SAY", "WHISPER", "YELL"], 1)]),
            ("if (x != MONSTER_SAY) {..} over the same names", stmt("NotEquals", ["MONSTER_SAY"], ["m1"], names=NM), [(["SAY", "WHISPER", "MONSTER_WHISPER", "YELL"], 1)]),
        ]
        for desc, st_, want in cases:
            got = arms(run_(fn["path"], [st_], ov))
            check(f"`{desc}` (arm values, member counts; enumerators A..E unless named)", got, want, fn)


    def definition():
        # --- member definitions: every attribute on its own field --------------------------------------------------------------
        fn = F.fn(IR + "container::IrStructMemberDefinition::from_definition")
        if fn is None:
            ctx.violate("ir.witness", "anchor|from_definition", "IrStructMemberDefinition::from_definition not found (anchor disappeared)")
            return
        SM = "crate::parser::types::struct_member::"
        TY = "crate::parser::types::ty::Type::"
        ov = {"::IrType::from_type": lambda a: ("irtype", a[0]), "::IrTags::from_member_tags": lambda a: ("tags",),
              "ToString::to_string": lambda a: str(a[0]) if isinstance(a[0], int) else a[0]}
        ty1 = ("variant", TY + "Guid")
        ty2 = ("variant", TY + "CString")
        for nm, d, want in (
            ("`u16 count = 0x07;` used as the size of `items`, 3 bytes before it, used in an if",
             {"name": "count", "struct_type": ty1, "value": ("Some", ("struct", "crate::parser::types::ContainerValue", {"value": 7, "original_string": "0x07"})),
              "used_as_size_in": ("Some", "items"), "is_manual_size_field": ("Some", 3), "used_in_if": True, "tags": None},
             ("count", ty1, ("7", "0x07"), "items", 3, True)),
            ("`CString name;` plain member",
             {"name": "name", "struct_type": ty2, "value": "None", "used_as_size_in": "None", "is_manual_size_field": "None", "used_in_if": False, "tags": None},
             ("name", ty2, None, None, None, False)),
            ("`Guid g;` used in an if only",
             {"name": "g", "struct_type": ty1, "value": "None", "used_as_size_in": "None", "is_manual_size_field": ("Some", 0), "used_in_if": False, "tags": None},
             ("g", ty1, None, None, 0, False)),
        ):
            f = fields(run_(fn["path"], [("struct", SM + "StructMemberDefinition", d)], ov))
            got = None
            if f:
                cv = opt(f["constant_value"])
                cvf = fields(cv) if cv is not None else None
                dt = f["data_type"]
                got = (f["name"], dt[1] if isinstance(dt, tuple) and dt[0] == "irtype" else dt, (cvf["value"], cvf["original_string"]) if cvf else None,
                       opt(f["used_as_size_in"]), opt(f["size_of_fields_before_size"]), f["used_in_if"])
                got = got[:1] + (_strip(got[1]),) + got[2:]
                want = want[:1] + (_strip(_fill(want[1])),) + want[2:]
            check(nm, got, want, fn)

    def _strip(v):
        return v[1].split("::")[-1] if isinstance(v, tuple) and len(v) > 1 and isinstance(v[1], str) else v

    def types():
        # --- member types: enum / flag with and without upcast, bool and integer widths -----------------------------------------
        fn = F.fn(IR + "container::IrType::from_type")
        if fn is None:
            ctx.violate("ir.witness", "anchor|from_type", "IrType::from_type not found (anchor disappeared)")
            return
        D = "crate::parser::types::definer::"
        TY = "crate::parser::types::ty::Type::"
        IT = "crate::parser::types::IntegerType::"

        def definer(name, base, kind):
            return ("struct", D + "Definer", {"name": name, "definer_ty": ("variant", "wow_message_parser::rust_printer::DefinerType::" + kind), "fields": [],
                                              "basic_type": ("variant", IT + base), "tags": None, "objects_used_in": [], "file_info": None})
        ov = {"ToString::to_string": lambda a: a[0]}
        for nm, ty, want in (
            ("`Map map;` (enum Map : u8)", ("struct", TY + "Enum", {"e": definer("Map", "U8", "Enum"), "upcast": "None"}), ("Enum", "Map", "U8", False)),
            ("`(u32)Map map;` (enum Map : u8)", ("struct", TY + "Enum", {"e": definer("Map", "U8", "Enum"), "upcast": ("Some", ("variant", IT + "U32"))}), ("Enum", "Map", "U32", True)),
            ("`Fl f;` (flag Fl : u16)", ("struct", TY + "Flag", {"e": definer("Fl", "U16", "Flag"), "upcast": "None"}), ("Flag", "Fl", "U16", False)),
            ("`(u64)Fl f;` (flag Fl : u16)", ("struct", TY + "Flag", {"e": definer("Fl", "U16", "Flag"), "upcast": ("Some", ("variant", IT + "U64"))}), ("Flag", "Fl", "U64", True)),
            ("`Bool32 b;`", ("variant", TY + "Bool", [("variant", IT + "U32")]), ("Bool", None, "U32", None)),
            ("`Bool b;`", ("variant", TY + "Bool", [("variant", IT + "U8")]), ("Bool", None, "U8", None)),
            ("`i16 x;`", ("variant", TY + "Integer", [("variant", IT + "I16")]), ("Integer", None, "I16", None)),
            ("`u48 x;`", ("variant", TY + "Integer", [("variant", IT + "U48")]), ("Integer", None, "U48", None)),
        ):
            r = run_(fn["path"], [ty], ov)
            got = r
            if isinstance(r, tuple) and r[0] in ("variant", "struct") and len(r) > 2 and isinstance(r[2], dict):
                fs = r[2]
                got = (r[1].split("::")[-1], fs.get("type_name"), _strip(fs.get("integer_type")), fs.get("upcast"))
            check(nm, got, want, fn)

    def arrays():
        # --- arrays: element kind, size kind with its count / size-field name, compression ---------------------------------------
        fn = F.fn(IR + "container::IrArray::from_array")
        if fn is None:
            ctx.violate("ir.witness", "anchor|from_array", "IrArray::from_array not found (anchor disappeared)")
            return
        A = "crate::parser::types::array::"
        IT = "crate::parser::types::IntegerType::"
        SM = "crate::parser::types::struct_member::"
        ov = {"ToString::to_string": lambda a: str(a[0]) if isinstance(a[0], int) else a[0], "::Into::into": lambda a: a[0], "Into::into": lambda a: a[0], "From::from": lambda a: a[0]}
        sizedef = ("struct", SM + "StructMemberDefinition", {"name": "amount_of_items", "struct_type": None, "value": "None", "used_as_size_in": "None", "is_manual_size_field": "None",
                                                              "used_in_if": False, "tags": None})
        for nm, inner, size, comp, want in (
            ("`u16[7] x;`", ("variant", A + "ArrayType::Integer", [("variant", IT + "U16")]), ("variant", A + "ArraySize::Fixed", [7]), False, ("Integer", "U16", "Fixed", "7", False)),
            ("`CString[amount_of_items] x;`", ("variant", A + "ArrayType::CString"), ("variant", A + "ArraySize::Variable", [sizedef]), False, ("CString", None, "Variable", "amount_of_items", False)),
            ("`PackedGuid[-] x;` compressed", ("variant", A + "ArrayType::PackedGuid"), ("variant", A + "ArraySize::Endless"), True, ("PackedGuid", None, "Endless", None, True)),
            ("`Guid[2] x;`", ("variant", A + "ArrayType::Guid"), ("variant", A + "ArraySize::Fixed", [2]), False, ("Guid", None, "Fixed", "2", False)),
            ("`Spell[-] x;`", ("variant", A + "ArrayType::Spell"), ("variant", A + "ArraySize::Endless"), False, ("Spell", None, "Endless", None, False)),
            ("`u8[-] x;` compressed", ("variant", A + "ArrayType::Integer", [("variant", IT + "U8")]), ("variant", A + "ArraySize::Endless"), True, ("Integer", "U8", "Endless", None, True)),
        ):
            f = fields(run_(fn["path"], [("struct", A + "Array", {"inner": inner, "size": size, "compressed": comp})], ov))
            got = None
            if f:
                it, sz = f["inner_type"], f["size"]
                itf = it[2] if isinstance(it, tuple) and len(it) > 2 and isinstance(it[2], dict) else {}
                szv = sz[2][0] if isinstance(sz, tuple) and len(sz) > 2 and sz[2] else None
                got = (_strip(it), _strip(itf.get("integer_type")) if itf.get("integer_type") is not None else None, _strip(sz), szv, f["compressed"])
            check(nm, got, want, fn)

    def test_values():
        # --- test vectors: value kinds and their payloads -----------------------------------------------------------------------
        fn = F.fn(IR + "container::IrTestValue::from_test_value")
        if fn is None:
            ctx.violate("ir.witness", "anchor|from_test_value", "IrTestValue::from_test_value not found (anchor disappeared)")
            return
        TV = "crate::parser::types::test_case::TestValue::"
        ov = {"ToString::to_string": lambda a: str(a[0]) if isinstance(a[0], int) else a[0]}

        def cv(i):
            return ("struct", "crate::parser::types::ContainerValue", {"value": i, "original_string": hex(i)})
        kinds = (("Number", "Integer"), ("DateTime", "DateTime"), ("Guid", "Guid"), ("IpAddress", "IpAddress"), ("Enum", "Enum"), ("Seconds", "Seconds"), ("Milliseconds", "Milliseconds"),
                 ("Gold", "Gold"), ("Level", "Level"))
        for i, (src, dst) in enumerate(kinds):
            r = run_(fn["path"], [("variant", TV + src, [cv(100 + i)])], ov)
            got = r
            if isinstance(r, tuple) and r[0] == "variant" and len(r) > 2 and r[2]:
                pf = fields(r[2][0])
                got = (r[1].split("::")[-1], pf["value"], pf["original_string"]) if pf else r
            check(f"test value {src}({100 + i})", got, (dst, str(100 + i), hex(100 + i)), fn)
        r = run_(fn["path"], [("variant", TV + "Bool", [True])], ov)
        check("test value Bool(true)", (_strip(r), r[2][0]) if isinstance(r, tuple) and len(r) > 2 and r[2] else r, ("Bool", True), fn)
        r = run_(fn["path"], [("variant", TV + "String", ["abc"])], ov)
        check("test value String(abc)", (_strip(r), r[2][0]) if isinstance(r, tuple) and len(r) > 2 and r[2] else r, ("String", "abc"), fn)
        r = run_(fn["path"], [("variant", TV + "Flag", [["A", "C"]])], {**ov, "to_vec": lambda a: a[0]})
        check("test value Flag([A, C])", (_strip(r), r[2][0]) if isinstance(r, tuple) and len(r) > 2 and r[2] else r, ("Flag", ["A", "C"]), fn)

    def test_case():
        fn = F.fn(IR + "container::IrTestCase::from_test_case")
        if fn is None:
            ctx.violate("ir.witness", "anchor|from_test_case", "IrTestCase::from_test_case not found (anchor disappeared)")
            return
        TC = "crate::parser::types::test_case::"
        ov = {"ToString::to_string": lambda a: a[0], "::IrTags::from_tags": lambda a: ("tags",), "::IrTags::from_member_tags": lambda a: ("tags",),
              "::IrTestValue::from_test_value": lambda a: ("val", a[0]), "to_vec": lambda a: a[0]}
        mem = [("struct", TC + "TestCaseMember", {"variable_name": n, "value": ("v", n), "tags": None}) for n in ("first", "second", "third")]
        tc = ("struct", TC + "TestCase", {"subject": "CMSG_X", "members": mem, "raw_bytes": [1, 2, 3, 250], "tags": None,
                                          "file_info": ("struct", "crate::file_info::FileInfo", {"file_name": "t.wowm", "path": None, "start_position": 5, "end_position": 9})})
        f = fields(run_(fn["path"], [tc], ov))
        got = None
        if f:
            fi = fields(f["file_info"])
            got = (f["subject"], [(fields(m)["variable_name"], fields(m)["value"]) for m in f["members"]], f["raw_bytes"], (fi["file_name"], fi["start_position"], fi["end_position"]) if fi else None)
        check("test CMSG_X {first, second, third} bytes [1, 2, 3, 250] at t.wowm 5..9", got,
              ("CMSG_X", [(n, ("val", ("v", n))) for n in ("first", "second", "third")], [1, 2, 3, 250], ("t.wowm", 5, 9)), fn)

    def members():
        # --- member order and kinds ----------------------------------------------------------------------------------------------
        fn = F.fn(IR + "container::IrOptionalStatement::from_optional")
        SM = "crate::parser::types::struct_member::StructMember::"
        if fn is None:
            ctx.violate("ir.witness", "anchor|from_optional", "IrOptionalStatement::from_optional not found (anchor disappeared)")
            return
        ov = {"::IrStructMemberDefinition::from_definition": lambda a: ("def", a[0]), "::IrIfStatement::from_statement": lambda a: ("if", a[0]),
              "rust_object_to_prepared_objects": lambda a: [], "ToString::to_string": lambda a: a[0], "::members": None}
        ov.pop("::members")
        mems = [("variant", SM + "Definition", ["a"]), ("variant", SM + "IfStatement", ["i1"]), ("variant", SM + "Definition", ["b"]), ("variant", SM + "IfStatement", ["i2"]), ("variant", SM + "Definition", ["c"])]
        o = ("struct", "crate::parser::types::optional::OptionalStatement", {"name": "tail", "members": mems})
        ro = ("struct", "crate::rust_printer::rust_view::rust_optional::RustOptional", {})
        f = fields(run_(fn["path"], [o, ro], ov))
        got = None
        if f:
            got = (f["name"], [(_strip(m), m[2][0] if len(m) > 2 and m[2] else None) for m in f["members"]])
        check("optional tail { a; if..; b; if..; c; } (member order and kinds)", got,
              ("tail", [("Definition", ("def", "a")), ("IfStatement", ("if", "i1")), ("Definition", ("def", "b")), ("IfStatement", ("if", "i2")), ("Definition", ("def", "c"))]), fn)

    def whole_definer():
        # --- a whole definer through definer_to_ir: kind, integer type, enumerators in order with value and spelling ------------
        fn = F.fn(IR + "definer::definer_to_ir")
        if fn is None:
            ctx.violate("ir.witness", "anchor|definer_to_ir", "ir_printer::definer::definer_to_ir not found (anchor disappeared)")
            return
        D = "crate::parser::types::definer::"
        IT = "crate::parser::types::IntegerType::"
        ov = {"::IrTags::from_member_tags": lambda a: ("tags",), "::IrTags::from_tags": lambda a: ("tags",),
              "ToString::to_string": lambda a: str(a[0]) if isinstance(a[0], int) else a[0]}
        for kind, base, enumerators in (
            ("Enum", "I8", (("NONE", -1, "-1"), ("SMALL", 0, "0"), ("LARGE", 127, "0x7F"))),
            ("Flag", "U16", (("NONE", 0, "0x00"), ("A", 1, "0x01"), ("HIGH", 0x8000, "0x8000"))),
            ("Enum", "I32", (("MIN", -2147483648, "-2147483648"), ("MINUS_TWO", -2, "-2"), ("BIG", 0x7FFFFFFF, "0x7FFFFFFF"))),
            ("Enum", "U64", (("STR", 0x57696E00, '"\\0niW"'), ("TOP", 0xFFFFFFFFFFFFFFFF, "0xFFFFFFFFFFFFFFFF"))),
        ):
            d = ("struct", D + "Definer", {"name": "Wit", "definer_ty": ("variant", "wow_message_parser::rust_printer::DefinerType::" + kind),
                                           "fields": [("struct", D + "DefinerField", {"name": nm, "value": ("struct", D + "DefinerValue", {"int": v, "original": o}), "tags": None}) for nm, v, o in enumerators],
                                           "basic_type": ("variant", IT + base), "tags": None, "objects_used_in": [],
                                           "file_info": ("struct", "crate::file_info::FileInfo", {"file_name": "w.wowm", "path": None, "start_position": 3, "end_position": 8})})
            f = fields(run_(fn["path"], [d], ov))
            got = None
            if f:
                fi = fields(f["file_info"])
                got = (f["name"], _strip(f["definer_type"]), _strip(f["integer_type"]),
                       [(fields(e)["name"], fields(fields(e)["value"])["value"], fields(fields(e)["value"])["original_string"]) for e in f["enumerators"]],
                       (fi["file_name"], fi["start_position"], fi["end_position"]) if fi else None)
            check(f"{kind.lower()} Wit : {base.lower()} with enumerators {[o for _, _, o in enumerators]}", got,
                  ("Wit", kind, base, [(nm, str(v), o) for nm, v, o in enumerators], ("w.wowm", 3, 8)), fn)

    def update_mask():
        # --- update-mask field tables: every attribute of a field, per data type ------------------------------------------------
        fn = F.fn(IR + "update_mask::IrUpdateMaskMember::new_array")
        if fn is None:
            ctx.violate("ir.witness", "anchor|new_array", "ir_printer::update_mask::IrUpdateMaskMember::new_array not found (anchor disappeared)")
            return
        UM = "crate::rust_printer::update_mask::"
        OT = UM + "UpdateMaskObjectType::"
        DT = UM + "UpdateMaskDataType::"
        sh = lambda nm: ("struct", UM + "ShortType", {"name": nm, "ty": ("short",)})
        by = lambda nm: ("struct", UM + "ByteType", {"name": nm, "ty": ("byte",)})
        table = [
            ("Object", "GUID", 0, 2, ("variant", DT + "Guid"), ("Guid", None)),
            ("Unit", "HEALTH", 22, 1, ("variant", DT + "Int"), ("Int", None)),
            ("Unit", "BOUNDINGRADIUS", 129, 1, ("variant", DT + "Float"), ("Float", None)),
            ("Item", "DURATION", 16, 1, ("variant", DT + "TwoShort", [sh("lo"), sh("hi")]), ("TwoShort", ("lo", "hi"))),
            ("Player", "BYTES", 191, 1, ("variant", DT + "Bytes", [by("b0"), by("b1"), by("b2"), by("b3")]), ("Bytes", ("b0", "b1", "b2", "b3"))),
            # stride 12 although the element struct below has 11 members (as the 2.4.3 visible item does)
            ("Player", "VISIBLE_ITEM", 346, 228, ("struct", DT + "ArrayOfStruct", {"name": "VisibleItem", "variable_name": "visible_item", "import_location": "x", "size": 12}),
             ("ArrayOfStruct", ("visible_item", 12, "um-struct:VisibleItem"))),
            ("Player", "FIELD_INV", 486, 46, ("struct", DT + "GuidArrayUsingEnum", {"name": "ItemSlot", "variable_name": "item_slot", "import_location": "x"}),
             ("GuidArrayUsingEnum", ("item_slot", "definer:ItemSlot"))),
        ]
        fields_in = [("struct", UM + "UpdateMaskMember", {"object_ty": ("variant", OT + ot), "name": nm, "offset": off, "size": sz, "ty": ty}) for ot, nm, off, sz, ty, _ in table]
        elem = ("struct", "crate::ir_printer::container::IrUpdateMaskStruct", {"name": "um-struct:VisibleItem", "sizes": None, "members": [[("m", i)] for i in range(11)], "tags": None, "file_info": None})
        ov = {"::get_world_struct": lambda a: ("container", a[1]), "::get_world_enum": lambda a: ("enum", a[1]),
              "container_to_update_mask_ir": lambda a: elem if a[0] == ("container", "VisibleItem") else ("wrong struct", a[0]),
              "definer_to_ir": lambda a: "definer:" + a[0][1] if isinstance(a[0], tuple) and a[0][0] == "enum" else ("wrong enum", a[0])}
        out = run_(fn["path"], [fields_in, ("objects",), ("variant", "crate::parser::types::version::MajorWorldVersion::BurningCrusade")], ov)
        if not isinstance(out, list) or len(out) != len(table):
            check("update-mask field table of 7 fields (count)", len(out) if isinstance(out, list) else out, len(table), fn)
            return
        for (ot, nm, off, sz, ty, want_dt), o_ in zip(table, out):
            f = fields(o_)
            got = None
            if f:
                dt = f["data_type"]
                tag = _strip(dt)
                content = None
                if isinstance(dt, tuple) and len(dt) > 2 and isinstance(dt[2], dict):
                    c = dt[2]
                    if tag == "TwoShort":
                        content = (fields(c["first"])["name"], fields(c["second"])["name"])
                    elif tag == "Bytes":
                        content = tuple(fields(c[k])["name"] for k in ("first", "second", "third", "fourth"))
                    elif tag == "ArrayOfStruct":
                        ums = fields(c["update_mask_struct"])
                        content = (c["variable_name"], c["size"], ums["name"] if ums else c["update_mask_struct"])
                    elif tag == "GuidArrayUsingEnum":
                        content = (c["variable_name"], c["definer"])
                got = (_strip(f["object_type"]), f["name"], f["offset"], f["size"], (tag, content))
            check(f"update-mask field {ot}.{nm} at {off} size {sz}", got, (ot, nm, off, sz, want_dt), fn)

    def struct_list():
        # --- which structs reach the `structs` array of the IR, and in which order: every struct object once - also the copies that
        # `paste_versions` makes of one definition (same file, same line, different versions) -, none that is only an update-mask
        # helper, and a struct after the structs its members are made of
        fn = F.fn(IR + "TypeObjects::structs_in_order")
        if fn is None:
            ctx.violate("ir.witness", "anchor|structs_in_order", "ir_printer::TypeObjects::structs_in_order not found (anchor disappeared)")
            return
        C = "crate::parser::types::container::Container"
        SM = "wow_message_parser::parser::types::struct_member::StructMember::"
        TY = "wow_message_parser::parser::types::ty::Type::"

        def cont(name, version, line, members=(), um=False, file="a.wowm"):
            # versions for which Rust modules exist carry a set of Rust versions; the others (1.10, 1.11, ..) have none
            rust = ("Some", ("rust-versions", version)) if version in ("1.12", "2.4.3", "3.3.5") else "None"
            tags = ("struct", "crate::parser::types::tags::ObjectTags", {"all_versions": ("versions", version), "rust_versions": rust, "comment": None, "used_in_update_mask": um})
            fi = ("struct", "crate::file_info::FileInfo", {"file_name": file, "path": file, "start_position": line, "end_position": line + 3})
            return ("struct", C, {"name": name, "object_type": None, "sizes": None, "members": list(members), "tags": tags, "file_info": fi, "only_has_io_error": False,
                                  "rust_object_view": None, "objects_used_in": None})

        def member(name, c):
            d = ("struct", "crate::parser::types::struct_member::StructMemberDefinition", {"name": name, "struct_type": ("struct", TY + "Struct", {"e": c}), "value": None,
                                                                                        "used_as_size_in": None, "is_manual_size_field": None, "used_in_if": False, "tags": None})
            return ("variant", SM + "Definition", [d])
        a1, a2, a3 = cont("A", "1.12", 1), cont("A", "2.4.3", 1), cont("A", "3.3.5", 1)  # three copies pasted from one definition
        e1 = cont("E", "1.12", 30)
        d1 = cont("D", "1.12", 20, [member("inner", e1)])  # D is listed before the struct it contains
        b1 = cont("B", "1.12", 10, [member("first", a1)])
        um = cont("Helper", "1.12", 40, um=True)
        f1, f2 = cont("F", "1.10", 50), cont("F", "1.11", 60)  # two definitions of one name for versions without Rust modules
        seen = []

        def to_ir(a):
            seen.append([(c[2]["name"], c[2]["tags"][2]["all_versions"][1]) for c in a[0]])
            return ("ir",)
        run_(fn["path"], [[a1, a2, a3, b1, d1, e1, um, f1, f2], None], {"::container::containers_to_ir": to_ir})
        got = seen[0] if seen else None
        want_set = sorted([("A", "1.12"), ("A", "2.4.3"), ("A", "3.3.5"), ("B", "1.12"), ("D", "1.12"), ("E", "1.12"), ("F", "1.10"), ("F", "1.11")])
        check("the struct list of [A{1.12}, A{2.4.3}, A{3.3.5} pasted from one definition, B containing A, D containing E, E, an update-mask helper, F{1.10} and F{1.11} (no Rust modules)]: which structs are emitted",
              sorted(got) if got is not None else None, want_set, fn)
        if got is not None and sorted(got) == want_set:
            order_ok = got.index(("A", "1.12")) < got.index(("B", "1.12")) and got.index(("E", "1.12")) < got.index(("D", "1.12"))
            check("the same list: a struct comes after the structs its members are made of", order_ok, True, fn)

    for sec in (struct_list, versions, sizes, file_info, container_type, enumerator, whole_definer, update_mask, if_statement, definition, types, arrays, test_values, test_case, members):
        section(sec)
    ctx.rule("ir.witness", n, floor=55, note="IR conversion functions interpreted on distinguishing instances (version components incl. literal zeros, min/max sizes, line numbers, container kinds with opcodes, enumerator value and spelling, values of if / else-if / else arms, every attribute of a member definition, enum / flag upcasts and integer widths, array element / size kinds with count or size-field name and compression, test-vector value kinds, test case subject / member order / bytes / lines, member order of optional tails)")


def run(ctx):
    F = facts("wow_message_parser")
    schema = json.load(open(SCHEMA))
    shapes = Shapes(F, ctx)
    conf = Conf(ctx, shapes, schema)
    root = "crate::ir_printer::IrObjects"
    sh = shapes.shape(root)
    if sh is None or sh["kind"] != "struct":
        ctx.violate("serde.schema", "anchor|IrObjects", "Serialize impl of ir_printer::IrObjects not found (anchor disappeared)")
    else:
        conf.struct(sh["fields"], {"properties": schema.get("properties", {}), "optionalProperties": schema.get("optionalProperties", {})}, "$", root)
    types = [t for t, s in shapes.cache.items() if s]
    ctx.rule("serde.schema", conf.n, floor=150, note=f"value positions checked against the schema over {len(types)} serialised types reachable from IrObjects")
    unreached = sorted(set(shapes.impls) - set(shapes.cache))
    if unreached:
        ctx.sample({"serialize_impls_not_reachable_from_IrObjects": unreached[:10]})
    check_conversions(ctx, F)
    check_lossless(ctx, F)
    check_ir_witnesses(ctx, F)
    ctx.sample({"types": sorted(t.split("::")[-1] for t in types)[:40]})
    ctx.assume("serde_json writes what the Serialize impls hand it (strings, numbers, objects in call order); JSON Typedef semantics as in RFC 8927")
    ctx.assume("faithfulness of the emitted IR to the 2,050 objects needs the emitted file and is not decided (the committed file is an empty placeholder)")
    return "other", EXPLANATION, {}
