"""C19 — every supported feature combination builds and exposes the same codecs (rustc as checker + cfg-position scan)."""
import itertools
import json
import os
import random
import shutil
import subprocess
import time
from concurrent.futures import ThreadPoolExecutor

from ..common import REPO, VERIF, WORK, ToolError, repo_files
from ..common import run as sh

EXPLANATION = (
    "D1: `cargo check --offline --no-default-features --features <set>` must succeed for every feature set of each library "
    "(quick: a pairwise-covering subset generated deterministically; thorough: the full powerset) - rustc's type checker is "
    "the deciding static analysis, the failing set and rustc's first error are the violation. D2: a syn-based scan of the "
    "unexpanded sources of the three libraries requires every cfg/cfg_attr/cfg! to sit at item level (never on a statement, "
    "expression, field, variant, match arm or parameter) and no item name to be defined twice in one module under different "
    "cfgs, so a codec that exists in two configurations is the same token stream in both. D3: the cfg-gated flavour copies "
    "(sync / tokio / async-std) of every reader and writer are equal modulo await and the I/O trait (rule shared with C06)."
)

SRCSCAN = os.path.join(VERIF, "tools", "srcscan", "target", "release", "srcscan")
CRATES = {
    "wow_login_messages": ["sync", "tokio", "async-std"],
    "wow_world_base": ["extended", "vanilla", "tbc", "wrath", "shared", "print-testcase", "serde", "chrono"],
    "wow_world_messages": ["sync", "vanilla", "tbc", "wrath", "encryption", "print-testcase", "tokio", "async-std", "chrono"],
}
QUICK_MAX = {"wow_login_messages": 8, "wow_world_base": 8, "wow_world_messages": 10}
ITEM_LEVEL = {"item", "impl-item", "trait-item"}
FILES_FLOOR = 2200


def pairwise_sets(features, seed):
    """Greedy pairwise-covering array over on/off of each feature; always includes the empty and the full set."""
    k = len(features)
    rnd = random.Random(seed)
    need = set()
    for i, j in itertools.combinations(range(k), 2):
        for a in (0, 1):
            for b in (0, 1):
                need.add((i, a, j, b))
    cands = list(itertools.product((0, 1), repeat=k))
    rnd.shuffle(cands)
    chosen = [tuple([0] * k), tuple([1] * k)]

    def cover(c):
        return {(i, c[i], j, c[j]) for i, j in itertools.combinations(range(k), 2)}

    for c in chosen:
        need -= cover(c)
    while need:
        best = max(cands, key=lambda c: len(cover(c) & need))
        chosen.append(best)
        need -= cover(best)
    return [[f for f, on in zip(features, c) if on] for c in chosen]


def powerset(features):
    return [[f for f, on in zip(features, c) if on] for c in itertools.product((0, 1), repeat=len(features))]


def check_one(slot_dir, crate, feats):
    cmd = ["cargo", "check", "--offline", "-q", "-p", crate, "--no-default-features"]
    if feats:
        cmd += ["--features", ",".join(feats)]
    t0 = time.time()
    p = sh(cmd, cwd=REPO, env={"CARGO_TARGET_DIR": slot_dir, "RUSTFLAGS": "-Awarnings"})
    return crate, feats, p.returncode, p.stdout, time.time() - t0


# flavour siblings whose blocking form is deliberately gated differently: (scope, base name) -> reason
GATE_EXCEPTIONS = {
    ("wow_world_messages", "util", "read_u16_le"): "blocking primitive lives in util::functions::base, compiled only with an expansion; the async twins are header primitives compiled with their runtime",
    ("wow_world_messages", "util", "read_u16_be"): "same as read_u16_le",
    ("wow_world_messages", "util", "read_u32_le"): "same as read_u16_le",
}


def check_sibling_gates(ctx, gates):
    """the sync / tokio / async-std copies of one function must exist (and be exported) under the same conditions once their own
    flavour feature is the only enabled flavour: otherwise a configuration silently lacks a codec that its sibling configuration has"""
    from .. import cfggate as G
    n_groups = n_fns = 0
    for crate in ("wow_login_messages", "wow_world_messages", "wow_world_base"):
        src = os.path.join(REPO, crate, "src")
        recs = {f: r for f, r in gates.items() if f.startswith(src + os.sep)}
        try:
            inh, unresolved = G.module_tree(src, recs)
        except G.GateError as e:
            ctx.violate("cfg.sibling-gates", f"{crate}|shape", f"{crate}: module tree not computable — review ({e})")
            continue
        for f, name in unresolved:
            ctx.violate("cfg.sibling-gates", f"{crate}|unresolved|{os.path.relpath(f, REPO)}|{name}", f"{os.path.relpath(f, REPO)}: `mod {name};` has no file (module tree incomplete)")
        groups, nf = G.sibling_groups(src, recs, inh)
        n_fns += nf
        for (scope, base), g in sorted(groups.items()):
            if len(g) < 2:
                continue
            n_groups += 1
            try:
                allat = set()
                for lst in g.values():
                    for _f, _d, eff in lst:
                        for t in eff:
                            G.atoms(G.parse_pred(t), allat)
                rest = sorted(a for a in allat if a not in G.FLAVOUR.values())
                if len(rest) > 12:
                    raise G.GateError(f"{len(rest)} cfg atoms")
                by_k = {}
                for fl, lst in g.items():
                    for k, (f, d, eff) in enumerate(lst):
                        by_k.setdefault(k, {})[fl] = (G.restricted_table(eff, fl, rest), f, d, eff)
            except G.GateError as e:
                ctx.violate("cfg.sibling-gates", f"{crate}|{scope}|{base}|shape", f"{crate} {scope} {base}: cfg predicate not interpretable — review ({e})")
                continue
            for k, t in by_k.items():
                ref_fl = "tokio" if "tokio" in t else "sync"
                for fl, (vec, f, d, eff) in t.items():
                    if fl == ref_fl or vec == t[ref_fl][0]:
                        continue
                    if "sync" in (fl, ref_fl) and (crate, scope, base) in GATE_EXCEPTIONS:
                        continue
                    w = G.witness(rest, vec, t[ref_fl][0])
                    rel = os.path.relpath(f, REPO)
                    other = t[ref_fl][2]["name"]
                    on, a, b = w
                    ctx.violate("cfg.sibling-gates", f"{crate}|{scope}|{d['name']}",
                                f"{rel}: `{d['name']}` {'exists' if a else 'does not exist (or is not exported)'} when {fl if fl != 'astd' else 'async-std'} is the only enabled flavour"
                                f"{' with ' + ', '.join(on) if on else ''}, but its sibling `{other}` {'exists' if b else 'does not'} when {ref_fl} is: "
                                f"effective cfg {eff} vs {t[ref_fl][3]}", rel, d["line"])
    ctx.rule("cfg.sibling-gates", n_groups, floor=480, note=f"flavour sibling groups ({n_fns} function items with their effective cfg through the module tree and glob re-exports): "
             f"each copy exists under the same conditions as its siblings; {len(GATE_EXCEPTIONS)} tabled exceptions")


def check_ref_implies_def(ctx, gates):
    """every intra-crate call: the effective cfg of the calling function must imply the effective cfg of the called one - otherwise
    the feature set that satisfies the first but not the second compiles a call to a function that does not exist (E0425) """
    import itertools
    import re as _re
    from .. import cfggate as G
    from ..facts import facts
    n_edges = n_checked = 0
    n_type_edges = [0]
    cache = {}
    reported = set()
    ext_items = {}   # crate name -> {path with the crate's own name as first segment: eff}
    n_cross = [0]
    for crate in ("wow_world_base", "wow_login_messages", "wow_world_messages"):
        src = os.path.join(REPO, crate, "src")
        recs = {f: r for f, r in gates.items() if f.startswith(src + os.sep)}
        try:
            inh, _unres = G.module_tree(src, recs)
        except G.GateError:
            continue
        by_file = {}
        for f, rs in recs.items():
            if f not in inh:
                continue
            for d in rs:
                if d["kind"] in ("fn", "impl-fn", "trait-fn"):
                    by_file.setdefault((os.path.relpath(f, REPO), d["name"]), []).append((d["line"], inh[f] + d["enclosing"] + d["own"]))
        # type-like items (struct / enum / const / static / type / trait) by their module path
        item_eff = {}
        for f, rs in recs.items():
            if f not in inh:
                continue
            for d in rs:
                if d["kind"] in ("struct", "enum", "const", "static", "type", "trait"):
                    path = "::".join(["crate"] + G.MODPATH.get(f, []) + [m for m in d["module"].split("::") if m] + [d["name"]])
                    e = inh[f] + d["enclosing"] + d["own"]
                    if path in item_eff and item_eff[path] != e:
                        item_eff[path] = None  # defined twice under different cfgs (reported by cfg.item-level)
                    else:
                        item_eff[path] = e
        ext_items[crate] = {crate + k[len("crate"):]: v for k, v in item_eff.items() if v is not None}
        F = facts(crate)
        eff = {}
        for fn in F.all("fn"):
            c = by_file.get((fn["file"], fn["name"]))
            if not c:
                continue
            line, e = min(c, key=lambda x: abs(x[0] - (fn["line"] or 0)))
            if len(c) > 1 and abs(line - (fn["line"] or 0)) > 12:
                continue
            eff[fn["path"]] = e
        feature_edges = {}
        try:
            import tomllib
            with open(os.path.join(REPO, crate, "Cargo.toml"), "rb") as fh:
                feature_edges = {k_: list(v_) for k_, v_ in tomllib.load(fh).get("features", {}).items()}
        except Exception as e:  # noqa
            ctx.violate("cfg.ref-implies-def", f"{crate}|cargo-toml", f"{crate}/Cargo.toml: feature table not readable ({e})")

        def implies(ec, ed):
            k = (tuple(ec), tuple(ed))
            if k not in cache:
                try:
                    pc, pd = [G.parse_pred(t) for t in ec], [G.parse_pred(t) for t in ed]
                    at = set()
                    for p_ in pc + pd:
                        G.atoms(p_, at)
                    at = sorted(at)
                    bad = None
                    if len(at) <= 14:
                        for combo in itertools.product((False, True), repeat=len(at)):
                            env = dict(zip(at, combo))
                            if all(G.ev(p_, env) for p_ in pc) and not all(G.ev(p_, env) for p_ in pd):
                                bad = [a.replace("feature=", "") for a, c in zip(at, combo) if c]
                                break
                    cache[k] = bad
                except G.GateError:
                    cache[k] = None
            return cache[k]

        def implies_cross(ec, ed):
            """ec over this crate's features, ed over wow_world_base's; the feature edges of Cargo.toml translate one into the other"""
            k = ("x", tuple(ec), tuple(ed))
            if k not in cache:
                try:
                    pc, pd = [G.parse_pred(t) for t in ec], [G.parse_pred(t) for t in ed]
                    at = set()
                    for p_ in pc:
                        G.atoms(p_, at)
                    at = sorted(at | {"feature=" + f for f in feature_edges})
                    bad = None
                    if len(at) <= 14:
                        for combo in itertools.product((False, True), repeat=len(at)):
                            env = dict(zip(at, combo))
                            if not all(G.ev(p_, env) for p_ in pc):
                                continue
                            on = {a[len("feature="):] for a, c in env.items() if c and a.startswith("feature=")}
                            # closure over own-feature edges, then the dependency's features
                            changed = True
                            while changed:
                                changed = False
                                for f in list(on):
                                    for g_ in feature_edges.get(f, ()):
                                        if "/" not in g_ and g_ not in on:
                                            on.add(g_)
                                            changed = True
                            benv = {"feature=" + g_.split("/", 1)[1]: True for f in on for g_ in feature_edges.get(f, ()) if g_.startswith("wow_world_base/")}
                            if not all(G.ev(p_, benv) for p_ in pd):
                                bad = sorted(on)
                                break
                    cache[k] = bad
                except G.GateError:
                    cache[k] = None
            return cache[k]

        # references to type-like items anywhere in a function body or signature
        def strings(x, out):
            if isinstance(x, str):
                if "crate::" in x or "wow_world_base::" in x:
                    out.add(x)
            elif isinstance(x, list):
                for y in x:
                    strings(y, out)
        for fn in F.all("fn"):
            ec = eff.get(fn["path"])
            if ec is None or fn.get("hir") is None:
                continue
            ss = set()
            strings(fn["hir"], ss)
            strings(fn.get("inputs"), ss)
            strings(fn.get("output"), ss)
            seen_items = set()
            for sref in ss:
                for pth in _re.findall(r"crate::[A-Za-z0-9_:]+", sref):
                    segs = pth.split("::")
                    for k in range(len(segs), 1, -1):
                        cand = "::".join(segs[:k])
                        if cand in item_eff:
                            seen_items.add(cand)
                            break
            # references into wow_world_base: its cfgs are over its own features, which this crate's features switch on through Cargo.toml
            if crate == "wow_world_messages" and "wow_world_base" in ext_items:
                base = ext_items["wow_world_base"]
                seen_ext = set()
                for sref in ss:
                    for pth in _re.findall(r"wow_world_base::[A-Za-z0-9_:]+", sref):
                        segs = pth.split("::")
                        for k in range(len(segs), 1, -1):
                            cand = "::".join(segs[:k])
                            if cand in base:
                                seen_ext.add(cand)
                                break
                for it in seen_ext:
                    n_cross[0] += 1
                    bad = implies_cross(ec, base[it])
                    if bad is not None and (fn["path"], it) not in reported:
                        reported.add((fn["path"], it))
                        ctx.violate("cfg.ref-implies-def", f"{crate}|{fn['path']}|{it}", f"{crate}: {fn['path']} (compiled under {ec}) refers to {it}, which wow_world_base compiles only under {base[it]}: with the "
                                    f"wow_world_messages features [{', '.join(bad) or 'none'}] Cargo.toml does not switch the needed wow_world_base feature on, so that configuration does not build", fn["file"], fn["line"])
            for it in seen_items:
                ed = item_eff[it]
                if ed is None:
                    continue
                n_type_edges[0] += 1
                bad = implies(ec, ed)
                if bad is not None and (fn["path"], it) not in reported:
                    reported.add((fn["path"], it))
                    ctx.violate("cfg.ref-implies-def", f"{crate}|{fn['path']}|{it}", f"{crate}: {fn['path']} (compiled under {ec}) refers to {it} (compiled only under {ed}): with features [{', '.join(bad) or 'none'}] "
                                "the function exists but the item does not, so that configuration does not build", fn["file"], fn["line"])
        for m in F.all("mir"):
            caller = _re.sub(r"(::\{closure#\d+\})+$", "", m["path"])
            ec = eff.get(caller)
            if ec is None:
                continue
            for call in m["calls"]:
                callee = call[2] if call[2] not in ("-", None) else call[1]
                if not callee or not callee.startswith("crate::"):
                    continue
                callee = _re.sub(r"(::\{closure#\d+\})+$", "", callee)
                ed = eff.get(callee)
                if ed is None or callee == caller:
                    continue
                n_edges += 1
                k = (tuple(ec), tuple(ed))
                if k not in cache:
                    n_checked += 1
                    try:
                        pc, pd = [G.parse_pred(t) for t in ec], [G.parse_pred(t) for t in ed]
                        at = set()
                        for p_ in pc + pd:
                            G.atoms(p_, at)
                        at = sorted(at)
                        bad = None
                        if len(at) <= 14:
                            for combo in itertools.product((False, True), repeat=len(at)):
                                env = dict(zip(at, combo))
                                if all(G.ev(p_, env) for p_ in pc) and not all(G.ev(p_, env) for p_ in pd):
                                    bad = [a.replace("feature=", "") for a, c in zip(at, combo) if c]
                                    break
                        cache[k] = bad
                    except G.GateError as e:
                        cache[k] = None
                bad = cache[k]
                if bad is not None and (caller, callee) not in reported:
                    reported.add((caller, callee))
                    fnr = F.fn(caller)
                    ctx.violate("cfg.ref-implies-def", f"{crate}|{caller}|{callee}", f"{crate}: {caller} (compiled under {ec}) calls {callee} (compiled only under {ed}): with features [{', '.join(bad) or 'none'}] the caller exists "
                                "but the callee does not, so that configuration does not build", fnr["file"] if fnr else None, fnr["line"] if fnr else None)
    ctx.rule("cfg.ref-implies-def", n_edges, floor=20000, note=f"intra-crate call edges between functions whose effective cfgs are known, plus {n_type_edges[0]} references from function bodies/signatures to gated structs / enums / consts / traits "
             f"and {n_cross[0]} references into wow_world_base translated through the feature edges of Cargo.toml ({len(cache)} distinct cfg pairs): the referrer's condition implies the referent's")


def run(ctx):
    tier = ctx.tier
    # ---- D2: cfg positions ----------------------------------------------------------------------
    if not os.path.exists(SRCSCAN):
        p = subprocess.run(["cargo", "build", "--offline", "--release"], cwd=os.path.dirname(os.path.dirname(os.path.dirname(SRCSCAN))),
                           stdout=subprocess.PIPE, stderr=subprocess.STDOUT, text=True)
        if p.returncode != 0:
            raise ToolError("srcscan failed to build:\n" + p.stdout[-2000:])
    files = repo_files(["wow_login_messages/src", "wow_world_base/src", "wow_world_messages/src"], exts={".rs"})
    fixture = os.path.join(VERIF, "fixtures", "c19_cfg_positions.rs")
    n_files = 0
    n_cfg = 0
    items = {}
    gates = {}
    fixture_hits = 0
    n_neg = 0
    batch = 400
    todo = files + [fixture]
    for i in range(0, len(todo), batch):
        p = subprocess.run([SRCSCAN] + todo[i:i + batch], stdout=subprocess.PIPE, stderr=subprocess.PIPE, text=True)
        if p.returncode != 0:
            raise ToolError("srcscan failed: " + p.stderr[-1000:])
        for line in p.stdout.splitlines():
            d = json.loads(line)
            if d["k"] == "summary":
                n_files += d["files"]
            elif d["k"] == "error":
                ctx.violate("cfg.item-level", f"parse|{os.path.relpath(d['file'], REPO)}", f"{d['file']}: cannot be parsed: {d['text']}")
            elif d["k"] == "cfg":
                if d["file"] == fixture:
                    if d["pos"] not in ITEM_LEVEL:
                        fixture_hits += 1
                    continue
                n_cfg += 1
                # a negated feature predicate would make code that only exists when a feature is OFF: such code is invisible
                # to the union configuration that all other properties analyse, so it must not exist in the libraries
                if "not(" in d["text"].replace(" ", "") and "not(test)" not in d["text"].replace(" ", ""):
                    rel = os.path.relpath(d["file"], REPO)
                    n_neg += 1
                    ctx.violate("cfg.no-negation", f"{rel}|{d['text'][:80]}", f"{rel}:{d['line']}: `{d['text'][:100]}` selects code by the ABSENCE of a feature: that code is not part of the all-features configuration "
                                "the codec analyses run on, and configurations no longer expose the same codecs", rel, d["line"])
                if d["pos"] not in ITEM_LEVEL:
                    rel = os.path.relpath(d["file"], REPO)
                    ctx.violate("cfg.item-level", f"{rel}|{d['pos']}|{d['text'][:80]}",
                                f"{rel}:{d['line']}: `{d['text'][:100]}` on a {d['pos']}: the body of a codec differs between feature configurations", rel, d["line"])
            elif d["k"] == "gate" and d["file"] != fixture:
                gates.setdefault(d["file"], []).append(d)
            elif d["k"] == "item" and d["file"] != fixture and not d["in_fn"]:
                key = (d["file"], d["module"], d["kind"], d["name"])
                items.setdefault(key, []).append((d["line"], tuple(d["cfgs"])))
    if fixture_hits < 5:
        ctx.violate("cfg.item-level", "fixture", f"positive fixture {fixture}: only {fixture_hits} of its sub-item cfg positions were recognised (the scanner lost a position kind)")
    n_dup = 0
    for (file, module, kind, name), defs in items.items():
        if len(defs) > 1 and kind in ("fn", "struct", "enum", "const", "type", "static"):
            n_dup += 1
            rel = os.path.relpath(file, REPO)
            ctx.violate("cfg.item-level", f"{rel}|dup|{module}::{name}", f"{rel}: {kind} `{name}` is defined {len(defs)} times in one module under cfgs {[d[1] for d in defs]}: configurations may see different codecs", rel, defs[0][0])
    ctx.rule("cfg.no-negation", n_cfg, floor=9000, note=f"cfg predicates without a negated feature ({n_neg} negated found): the all-features configuration contains every item of every configuration")
    ctx.rule("cfg.item-level", n_files - 1, floor=FILES_FLOOR, note=f"library files scanned; {n_cfg} cfg attributes, all at item level; fixture positions recognised: {fixture_hits}")
    check_sibling_gates(ctx, gates)
    check_ref_implies_def(ctx, gates)
    # ---- D1: feature matrix ----------------------------------------------------------------------
    jobs = []
    for crate, feats in CRATES.items():
        if tier == "thorough":
            sets = powerset(feats)
        else:
            sets = pairwise_sets(feats, ctx.seed)[: max(QUICK_MAX[crate], 2)]
            # the truncated pairwise array may not cover every pair; record what was covered
        for s in sets:
            jobs.append((crate, s))
    nslots = 8 if tier == "thorough" else 4
    base = os.path.join(WORK, "cfg")
    os.makedirs(base, exist_ok=True)
    # heavy (world) jobs first so slots stay busy
    jobs.sort(key=lambda j: (j[0] != "wow_world_messages", j[0] != "wow_world_base", len(j[1])))
    slots = [os.path.join(base, f"slot{i}") for i in range(nslots)]
    free = list(slots)
    results = []

    def work(job):
        slot = free.pop()
        try:
            return check_one(slot, job[0], job[1])
        finally:
            free.append(slot)

    with ThreadPoolExecutor(max_workers=nslots) as ex:
        for r in ex.map(work, jobs):
            results.append(r)
    n_ok = 0
    for crate, feats, rc, out, dt in results:
        if rc == 0:
            n_ok += 1
        else:
            first = next((l for l in out.splitlines() if l.startswith("error")), out[-300:])
            ctx.violate("cfg.matrix", f"{crate}|{','.join(feats) or '<none>'}", f"{crate} does not build with features [{', '.join(feats) or 'none'}]: {first[:300]}", detail_output=out[-4000:])
    if tier == "thorough":
        for s in slots:
            shutil.rmtree(s, ignore_errors=True)
    ctx.rule("cfg.matrix", len(results), floor=(2 ** 3 + 2 ** 8 + 2 ** 9) if tier == "thorough" else 20,
             note=f"{n_ok}/{len(results)} feature sets build ({'full powerset' if tier == 'thorough' else 'pairwise-covering subset'})")
    for crate, feats, rc, out, dt in results[:3]:
        ctx.sample({"crate": crate, "features": feats, "builds": rc == 0, "seconds": round(dt, 1)})
    ctx.analysed.update({"feature_sets": len(results), "files_scanned": n_files - 1, "cfg_attributes": n_cfg})
    ctx.assume("`cargo check` (type checking) stands for `builds`; linking is not exercised")
    ctx.assume("'behaves identically in both configurations' is decided through D2: no sub-item cfg and no duplicate cfg'd definitions, so the codec bodies are the same tokens in every configuration")
    # D3: code that exists once per configuration as separate cfg-gated copies (sync / tokio / async-std) must be the same codec:
    # the sibling-equality rule of C06 is the structural form of "same codecs in every configuration" for those copies
    from . import c06
    c06.run(ctx)
    return "other", EXPLANATION, {"exhaustive": tier == "thorough"}

