"""C04 — out-of-domain field values are rejected, never silently reinterpreted (structural, per field)."""
from .. import hir as H
from .. import wowm
from ..containers import container_pairs, parse_guard, read_layout, reader_fns, scope_lookup, state
from .. import opcodes
from ..intconv import INT_TYPES

EXPLANATION = (
    "Per-field structural rule over every generated reader: each enum-typed member (incl. nested, conditional, array and "
    "upcast ones) must be produced by the fallible TryFrom conversion applied to the value at its full wire width with no "
    "narrowing step in between (the TryFrom impls themselves are decided by C11); every constant-sized message must start "
    "with the exact-size guard for the size computed from the wowm text; every opcode reader must have a rejecting "
    "catch-all arm that reports the offending opcode."
)
ENUM_FLOOR = 1273
GUARD_FLOOR = 1360


def enum_items(seq):
    for c in seq:
        k = c.get("c")
        if k == "enum":
            yield c
        if k == "array":
            yield from enum_items(c["elem"])
        elif k == "switch":
            for v, sub in c["table"].items():
                yield from enum_items(sub)
        elif k == "flagif":
            for ens, sub in c["arms"]:
                yield from enum_items(sub)
            yield from enum_items(c["else"])
        elif k in ("optional", "zlib"):
            yield from enum_items(c["items"])


def check_opcode_names(ctx, st):
    """opc.names: the name reported together with an unknown / unexpected opcode (helper::<exp>::opcode_to_name) is the wowm
    message that has this opcode in that expansion, and the table is the generator's opcode index"""
    import os
    import re
    from ..common import REPO
    g, P = st["g"], st["P"]
    F = g.f("wow_world_messages")
    n = 0
    for exp in ("vanilla", "tbc", "wrath"):
        fn = F.fn(f"crate::helper::{exp}::opcode_to_name::opcode_to_name")
        if fn is None:
            ctx.violate("opc.names", f"anchor|{exp}", f"helper::{exp}::opcode_to_name not found (anchor disappeared)")
            continue
        m = next((x for x in H.walk(fn["hir"]) if H.tag(x) == "match"), None)
        table = {}
        wild_none = False
        for pat, guard, body in (m[3] if m else []):
            b = H.strip(body)
            if H.tag(pat) == "lit" and pat[1] == "int" and guard is None and H.tag(b) == "lit" and b[1] == "str":
                v = int(pat[2])
                if v in table:
                    ctx.violate("opc.names", f"{exp}|dup|{v:#x}", f"opcode_to_name ({exp}): opcode {v:#x} listed twice", fn["file"], fn["line"])
                table[v] = b[2]
            elif H.tag(pat) == "wild":
                wild_none = "None" in H.short(b, maxlen=200)
            else:
                ctx.violate("opc.names", f"{exp}|shape", f"opcode_to_name ({exp}): unrecognised arm {H.short(pat)} => {H.short(b, maxlen=60)}", fn["file"], fn["line"])
        if not wild_none:
            ctx.violate("opc.names", f"{exp}|wild", f"opcode_to_name ({exp}): unknown opcodes are not mapped to None", fn["file"], fn["line"])
        want = {}
        for p_ in P.pairs:
            a = p_["obj"].ast
            if p_["scope"] == exp and a.kind in ("cmsg", "smsg", "msg"):
                nm = a.name
                for suf in ("_Client", "_Server"):  # a message defined separately per direction under one opcode
                    if nm.endswith(suf):
                        nm = nm[: -len(suf)]
                want.setdefault(a.opcode, set()).add(nm)
        for op, names in sorted(want.items()):
            n += 1
            if table.get(op) not in names:
                ctx.violate("opc.names", f"{exp}|{sorted(names)[0]}", f"opcode_to_name ({exp}): opcode {op:#x} is reported as {table.get(op)!r}, the wowm message with this opcode is {sorted(names)}", fn["file"], fn["line"])
        idx_file = os.path.join(REPO, f"wow_message_parser/src/parser/stats/{exp}_messages.rs")
        try:
            idx = {int(v, 16): nm for nm, v in re.findall(r'Data::\w+\(\s*"(\w+)",\s*0x([0-9A-Fa-f]+),?\s*\)', open(idx_file).read())}
        except OSError:
            idx = None
            ctx.violate("opc.names", f"anchor|{exp}|index", f"{idx_file} not found (anchor disappeared)")
        if idx is not None:
            for op in sorted(set(table) | set(idx)):
                n += 1
                if table.get(op) != idx.get(op):
                    ctx.violate("opc.names", f"{exp}|index|{op:#x}", f"opcode_to_name ({exp}): opcode {op:#x} is {table.get(op)!r}, the generator's opcode index says {idx.get(op)!r}", fn["file"], fn["line"])
    ctx.rule("opc.names", n, floor=4500, note="opcode_to_name arms vs the wowm messages of the expansion and vs the generator's opcode index")


def run(ctx):
    st = state()
    check_opcode_names(ctx, st)
    n_enum = 0
    n_guard = 0
    seen_fn = set()
    for p in container_pairs():
        a = p["obj"].ast
        for fl, crate, fn in reader_fns(p):
            canon, ex, findings, rc = read_layout(p, crate, fn)
            fkey = (crate, fn["path"])
            first = fkey not in seen_fn
            seen_fn.add(fkey)
            key = f"{p['scope']}|{a.name}|{fl}"
            ids = set()
            for e in enum_items(canon):
                if id(e) in ids:
                    continue
                ids.add(id(e))
                n_enum += 1
                src = e.get("src")
                wire_ty = e.get("wire_ty")
                if src is None:
                    ctx.violate("enum.fullwidth", f"{key}|{e.get('bind')}|noconv", f"{a.name} ({p['scope']}) {fn['name']}: enum field `{e.get('bind')}` is not produced by a fallible conversion", fn["file"], fn["line"])
                elif wire_ty and src != wire_ty:
                    ctx.violate("enum.fullwidth", f"{key}|{e.get('bind')}|width",
                                f"{a.name} ({p['scope']}) {fn['name']}: enum field `{e.get('bind')}` is read as {wire_ty} but converted from {src}: "
                                f"an undeclared wire value that aliases a declared one modulo 2^{INT_TYPES[src][0]} is accepted", fn["file"], fn["line"])
            for rule, what, it in findings:
                if rule == "enum.fullwidth" and not any((it.get("bind") == e.get("bind")) for e in []):
                    pass
            # D3 exact-size guard for constant-sized world messages
            if not p["login"] and a.kind != "struct":
                rl = wowm.RefLayouts(st["P"].model, scope_lookup(p))
                lo, hi = wowm.SizeCalc(rl, 0).container(a)
                if lo == hi:
                    # body-less messages too: read_body is reachable without the opcode reader's assert_empty (expect_* helpers)
                    n_guard += 1
                    guards = [parse_guard(c) for c in ex.guards]
                    if not guards or guards[0] != ("ne", lo):
                        ctx.violate("size.exact-guard", f"{p['scope']}|{a.name}|exact", f"{a.name} ({p['scope']}): body is exactly {lo} bytes by definition but read_inner does not start with `body_size != {lo}` (guards: {guards[:2]})", fn["file"], fn["line"])
                    # the guard must come before any read: first statement of the body
                    body = H.unwrap_async(fn["hir"])
                    sts = H.stmts_of(body)
                    if sts:
                        f0 = H.strip(sts[0][1]) if sts[0][0] in ("semi", "expr", "tail") else None
                        if not (f0 is not None and H.tag(f0) == "if"):
                            ctx.violate("size.exact-guard", f"{p['scope']}|{a.name}|first", f"{a.name} ({p['scope']}): the size guard is not the first statement of read_inner", fn["file"], fn["line"])
    n_opc = opcodes.check_all(ctx, rule="opc.table")
    # keep only the unknown-opcode/arm findings of the opcode pass relevant here (table content is C01's)
    ctx.violations = [v for v in ctx.violations if v.rule != "opc.table" or "|unit|" in v.key]
    ctx.rule("enum.fullwidth", n_enum, floor=ENUM_FLOOR, note="enum-typed members in read layouts (all branches, nested structs via their own readers)")
    ctx.rule("size.exact-guard", n_guard, floor=GUARD_FLOOR, note="constant-sized messages: exact-size guard first")
    ctx.rule("opc.unknown-arm", n_opc, note="opcode reader arms incl. rejecting catch-all (shared extractor with C01-D2)")
    ctx.analysed.update({"enum_fields": n_enum})
    ctx.assume("the TryFrom<W> impl reached rejects exactly the undeclared values and reports them (decided by C11)")
    # the opcode that the typed expect_* helpers compare with M::OPCODE must be taken at its full wire width
    from . import c02_frame
    c02_frame.run_header_structs(ctx)
    c02_frame.run_opcode_width(ctx)
    c02_frame.run_expect_gate(ctx)
    # enum domains differ between login protocol versions: the protocol-parameterised readers must decode version K with
    # version K's own codec, or an enumerator that only a later version declares is accepted (rule shared with C14)
    from . import c14
    c14.check_protocol_routing(ctx)
    from . import c11
    c11.check_scope_tables(ctx)
    c11.check_error_carrier(ctx)
    return "other", EXPLANATION, {}
