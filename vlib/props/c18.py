"""C18 — documentation shows each object's definition and examples faithfully (parse-back comparison)."""
import os
import re

from .. import wowm
from ..common import REPO, repo_files
from ..containers import state

n_decoded = 0
n_extra = [0, 0, 0, 0, 0]
N_CELLS, N_OFFSETS, N_CONDS, N_HEADERS, N_DEFINERS = 5903, 5006, 453, 1522, 358
EXPLANATION = (
    "Every wowm block embedded in a generated Rust doc comment and in every documentation page is parsed back with the "
    "independent wowm parser and compared with the source object its link names (file:line): kind, name, opcode, base type, "
    "enumerators and values, member order, types, upcasts, array kinds, constant values, if / else-if / else conditions and "
    "optional blocks. Each page's body tables must list exactly the definition's members in definition order with the size and "
    "endianness of fixed-width built-ins; each documented example's byte groups must concatenate to the bytes of the wowm test "
    "it renders and its top-level field comments must follow definition order. Beyond the member names every row's size and type cell, the "
    "offset cells of the constant prefix, the branch headings, the header section and the enumerator tables of enum / flag pages are "
    "compared with the definition. All pages, comments and examples are covered."
)
DOCS = os.path.join(REPO, "wowm_language", "src", "docs")
RS_DIRS = ["wow_world_messages/src/world", "wow_login_messages/src/logon", "wow_world_base/src/inner"]
LINK = re.compile(r"\[`(wow_message_parser/wowm/[^`:]+):(\d+)`\]")


def sig_members(ms):
    out = []
    for m in ms:
        if isinstance(m, wowm.Decl):
            val = m.value
            if val is not None:
                vk, vv = val
                if vk == "num":
                    try:
                        val = ("num", wowm.parse_int_value(vv))
                    except Exception:  # noqa
                        val = (vk, vv)
                elif vk == "str":
                    val = ("str", vv)
                else:
                    val = (vk, vv)
            out.append(("decl", m.ty, m.name, m.upcast, tuple(m.array) if m.array else None, val))
        elif isinstance(m, wowm.If):
            arms = tuple((tuple(tuple(c) for c in conds), tuple(sig_members(ams))) for conds, ams in m.arms)
            els = tuple(sig_members(m.else_members)) if m.else_members is not None else None
            if els == ():
                els = None
            out.append(("if", arms, els))
        elif isinstance(m, wowm.Optional):
            out.append(("optional", m.name, tuple(sig_members(m.members))))
    return out


def sig(a):
    if isinstance(a, wowm.Definer):
        return ("definer", a.kind, a.name, a.base, tuple((f[0], f[1]) for f in a.fields))
    return ("container", a.kind, a.name, a.opcode, tuple(sig_members(a.members)))


def first_diff(a, b, path=""):
    if type(a) != type(b):
        return f"{path}: {a!r} vs {b!r}"
    if isinstance(a, tuple):
        if len(a) != len(b):
            return f"{path}: {len(a)} vs {len(b)} entries ({short(a)} vs {short(b)})"
        for i, (x, y) in enumerate(zip(a, b)):
            d = first_diff(x, y, f"{path}[{i}]")
            if d:
                return d
        return None
    return None if a == b else f"{path}: documented {a!r}, source has {b!r}"


def short(x):
    s = repr(x)
    return s if len(s) < 140 else s[:140] + "…"


def flat_members(ms, out):
    for m in ms:
        if isinstance(m, wowm.Decl):
            out.append(m)
        elif isinstance(m, wowm.If):
            for _c, ams in m.arms:
                flat_members(ams, out)
            if m.else_members:
                flat_members(m.else_members, out)
        elif isinstance(m, wowm.Optional):
            flat_members(m.members, out)
    return out


FIXED = {"u8": (1, "-"), "i8": (1, "-"), "u16": (2, "Little"), "i16": (2, "Little"), "u32": (4, "Little"), "i32": (4, "Little"), "u64": (8, "Little"), "i64": (8, "Little"),
         "u16_be": (2, "Big"), "u32_be": (4, "Big"), "u64_be": (8, "Big"), "f32": (4, "Little"), "Guid": (8, "Little"), "Level16": (2, "Little"), "Level32": (4, "Little"),
         "Gold": (4, "Little"), "Spell": (4, "Little"), "Item": (4, "Little"), "Seconds": (4, "Little"), "Milliseconds": (4, "Little"), "Spell16": (2, "Little"),
         "IpAddress": (4, "Big"), "DateTime": (4, "Little"), "Bool32": (4, "Little"), "Population": (4, "Little"), "Level": (1, "-"), "Bool": (1, "-")}



# ----------------------------------------------------------------------------------------------
# body table cells beyond the name: size, type, offsets of the constant prefix; header section; condition prose; definer tables
# ----------------------------------------------------------------------------------------------
LINKCELL = re.compile(r"^\[([^\]]+)\]\([^)]*\)(.*)$")


def _scope_lookup(idx, cur):
    objs = idx.objs_of.get(id(cur))
    if not objs:
        return None, None
    model = idx.model
    sec = idx.section
    if sec:
        kind, vs = sec
        for v in vs:
            for o in objs:
                if kind == "world" and o.world_versions and (v == ("*",) or any(wowm.world_overlaps(w, v) for w in o.world_versions)):
                    v2 = next((w for w in o.world_versions if wowm.world_overlaps(w, v)), o.world_versions[0]) if v != ("*",) else o.world_versions[0]
                    return o, (lambda name, v2=v2: model.lookup_world(name, v2))
                if kind == "login" and o.login_versions and (v == "*" or any(wowm.login_covers(w, v) for w in o.login_versions)):
                    v2 = v if v != "*" else o.login_versions[0]
                    return o, (lambda name, v2=v2: model.lookup_login(name, v2))
    obj = objs[0]
    if obj.world_versions:
        v = obj.world_versions[0]
        return obj, (lambda name: model.lookup_world(name, v))
    v = obj.login_versions[0]
    return obj, (lambda name: model.lookup_login(name, v))


def _decl_size(rl, calc, m_, decls):
    """(lo, hi) of one declared member by the independent size calculation"""
    its = rl.members([m_], dict(decls))
    return calc.item(its[0], dict(decls))


def _type_cell_name(cell):
    m = LINKCELL.match(cell)
    if m:
        return m.group(1) + m.group(2)
    return cell


def _want_type(m_):
    if m_.array is None:
        return m_.ty
    c = m_.array
    return f"{m_.ty}[{c[1] if c[0] != 'endless' else '-'}]"


BUILTIN_DOC_NAME = {"MonsterMoveSplines": "MonsterMoveSpline"}


def check_row_cells(ctx, idx, cur, rows, want, rel, fn):
    """size cell of every row (constant size or '-', '?' for arrays of unknown size) and type cell; returns per-member constant size or None"""
    obj, lookup = _scope_lookup(idx, cur)
    if lookup is None:
        return None
    rl = wowm.RefLayouts(idx.model, lookup)
    calc = wowm.SizeCalc(rl, 0xFFFF)
    decls = {}
    try:
        rl.members(cur.members, decls)
    except wowm.WowmError:
        return None
    sizes = {}
    n = 0
    for (cells, ln), m_ in zip(rows, want):
        try:
            lo, hi = _decl_size(rl, calc, m_, decls)
        except (wowm.WowmError, KeyError):
            continue
        const = lo if lo == hi else None
        sizes[m_.name] = const
        got = cells[1].split("/")[0].strip()
        exp = str(const) if const is not None else ("?" if m_.array is not None else "-")
        n += 1
        if got != exp:
            ctx.violate("doc.cells", f"page|{fn}|{cur.name}|{cur.line}|{m_.name}|sizecell",
                        f"{rel}: body table of {cur.name}: `{m_.name}` ({_want_type(m_)}) is documented with size `{got}`, its encoding has {('a constant ' + str(const) + ' bytes') if const is not None else 'no constant size'}", rel, ln)
        tname = _type_cell_name(cells[2])
        wt = _want_type(m_)
        if m_.array is None:
            wt = BUILTIN_DOC_NAME.get(wt, wt)
        if tname.replace(" ", "") != wt.replace(" ", ""):
            ctx.violate("doc.cells", f"page|{fn}|{cur.name}|{cur.line}|{m_.name}|typecell",
                        f"{rel}: body table of {cur.name}: `{m_.name}` is documented with type `{tname}`, the definition has `{_want_type(m_)}`", rel, ln)
    return sizes


def _is_wrath(obj, idx=None):
    return bool(obj) and any(wowm.world_overlaps(w, wowm.EXPANSIONS["wrath"]) for w in (obj.world_versions or []))


def _container_const(idx, cur):
    obj, lookup = _scope_lookup(idx, cur)
    if lookup is None:
        return None
    try:
        lo, hi = wowm.SizeCalc(wowm.RefLayouts(idx.model, lookup), 0xFFFF).container(cur)
    except (wowm.WowmError, KeyError):
        return None
    return lo == hi


def body_start_offset(idx, cur, sizes_const):
    k = cur.kind
    if k == "struct":
        return 0
    if k == "msg":
        return 0
    if k == "cmsg":
        return 6
    if k == "smsg":
        obj = _scope_lookup(idx, cur)[0]
        wrath = _is_wrath(obj)
        if wrath and not sizes_const:
            return None
        return 4
    return 1  # login


def check_offsets(ctx, idx, cur, rows, want, sizes, rel, fn):
    """offsets of the constant prefix: the top-level members in front of the first conditional / optional block and, when all of them have a
    constant size, the members of the first arm of a directly following if statement.  Further rows depend on the branch taken and are not
    compared."""
    if sizes is None:
        return 0
    seq = []
    first_if = None
    for m_ in cur.members:
        if isinstance(m_, wowm.Decl):
            seq.append(m_)
        else:
            first_if = m_
            break
    if isinstance(first_if, wowm.If) and first_if.arms:
        for a_ in first_if.arms[0][1]:
            if isinstance(a_, wowm.Decl):
                seq.append(a_)
            else:
                break
    cc = _container_const(idx, cur)
    if cc is None:
        return 0
    off = body_start_offset(idx, cur, cc)
    by_name = {c[0][3]: (c[0], c[1]) for c in rows}
    n = 0
    for m_ in seq:
        if m_.name not in by_name or m_.name not in sizes:
            break
        cells, ln = by_name[m_.name]
        exp = f"0x{off:02X}" if off is not None else "-"
        n += 1
        if cells[0] != exp:
            ctx.violate("doc.offsets", f"page|{fn}|{cur.name}|{cur.line}|{m_.name}|offset",
                        f"{rel}: body table of {cur.name}: `{m_.name}` is documented at offset `{cells[0]}`, the members in front of it put it at `{exp}`", rel, ln)
            break
        if off is not None:
            off = off + sizes[m_.name] if sizes[m_.name] is not None else None
    return n


HEADER_ROWS = {
    "cmsg": [("0x00", "2/Big", "uint16", "size"), ("0x02", "4/Little", "uint32", "opcode")],
    "smsg": [("0x00", "2/Big", "uint16", "size"), ("0x02", "2/Little", "uint16", "opcode")],
    "smsg3": [("0x00", "2**OR**3/Big", "uint16**OR**uint16+uint8", "size"), ("-", "2/Little", "uint16", "opcode")],
    "login": [("0x00", "1/-", "uint8", "opcode")],
}
HEADER_SENTENCE = {"cmsg": "CMSG have a header of 6 bytes.", "smsg": "SMSG have a header of 4 bytes.",
                   "msg": "MSG have a header of either 6 bytes if they are sent from the client (CMSG), or 4 bytes if they are sent from the server (SMSG).",
                   "login": "Login messages have a header of 1 byte with an opcode."}


def check_header_section(ctx, idx, cur, lines, i, rel, fn):
    """`### Header` of a message page: the sentence and the header tables are those of the container kind (and the Wrath 2-or-3 byte form
    exactly for server messages valid in 3.3.5 whose size is not constant)"""
    j = i + 1
    sent = None
    tables = {}
    curtab = None
    while j < len(lines) and not lines[j].startswith("### "):
        l = lines[j]
        if l.startswith("#### "):
            curtab = l[5:].strip()
            tables[curtab] = []
        elif l.startswith("|") and curtab and not l.startswith("| Offset") and not l.startswith("| ---"):
            cells = [c.strip() for c in l.strip().strip("|").split("|")]
            tables[curtab].append(tuple(c.replace(" ", "") for c in cells[:4]))
        elif l.strip() and sent is None and not l.startswith("|"):
            sent = l.strip()
        j += 1
    kind = cur.kind if cur.kind in ("cmsg", "smsg", "msg") else "login"
    key = f"page|{fn}|{cur.name}|{cur.line}|header"
    if sent is None or not sent.startswith(HEADER_SENTENCE[kind]):
        ctx.violate("doc.header", key + "|sentence", f"{rel}: header section of {cur.name} ({kind}) says `{sent}`", rel, i + 1)
    want = {}
    if kind in ("cmsg", "msg"):
        want["CMSG Header"] = HEADER_ROWS["cmsg"]
    if kind in ("smsg", "msg"):
        obj, lookup = _scope_lookup(idx, cur)
        three = False
        if _is_wrath(obj):
            cc = _container_const(idx, cur)
            three = None if cc is None else not cc
        if three is not None:
            want["SMSG Header"] = HEADER_ROWS["smsg3" if three else "smsg"]
    if kind == "login":
        want["Login Header"] = HEADER_ROWS["login"]
    for name, rows_ in want.items():
        got = tables.get(name)
        if got != [tuple(c.replace(" ", "") for c in r) for r in rows_]:
            ctx.violate("doc.header", key + f"|{name}", f"{rel}: {name} table of {cur.name} is {got}, the header form of this message is {rows_}", rel, i + 1)
    for name in tables:
        if name not in want and not (kind in ("smsg", "msg") and name == "SMSG Header"):
            ctx.violate("doc.header", key + f"|extra|{name}", f"{rel}: header section of {cur.name} ({kind}) has an unexpected table `{name}`", rel, i + 1)
    return 1


COND_RE = re.compile(r"(is equal to|is not equal to|contains) `([^`]+)`")


def check_conditions(ctx, cur, body_lines, rel, fn, ln0):
    """the prose in front of each branch table: `If <var> is equal to `A` **or** ...`, `Else If ...`, `Else:` in definition order"""
    want = []

    def walk(ms):
        for m_ in ms:
            if isinstance(m_, wowm.If):
                for n_, (conds, ams) in enumerate(m_.arms):
                    op = {"==": "is equal to", "!=": "is not equal to", "&": "contains"}
                    want.append(("Else If" if n_ else "If", conds[0][0], tuple((op[c[1]], c[2]) for c in conds)))
                    walk(ams)
                    # nested statements of an arm come before the next arm
                if m_.else_members:
                    want.append(("Else", None, ()))
                    walk(m_.else_members)
            elif isinstance(m_, wowm.Optional):
                pass
    walk(cur.members)
    got = []
    k = 0
    while k < len(body_lines):
        l = body_lines[k]
        if l.startswith("If ") or l.startswith("Else If "):
            head = "Else If" if l.startswith("Else") else "If"
            var = l[len(head):].split()[0]
            text = l
            while not text.rstrip().endswith(":") and k + 1 < len(body_lines):
                k += 1
                text += " " + body_lines[k]
            got.append((head, var, tuple(COND_RE.findall(text))))
        elif l.startswith("Else:"):
            got.append(("Else", None, ()))
        k += 1
    if got != want:
        d = next((f"branch {n_ + 1}: documented {g}, the definition has {w}" for n_, (g, w) in enumerate(zip(got, want)) if g != w), f"{len(got)} documented branches, the definition has {len(want)}")
        ctx.violate("doc.conditions", f"page|{fn}|{cur.name}|{cur.line}|conditions", f"{rel}: branch conditions of {cur.name}: {short(d)}", rel, ln0)
    return len(want)


TYPE_LINE = re.compile(r"^The basic type is `(\w+)`, a (\d+) byte \((\d+) bit\)")
ENUM_ROW = re.compile(r"^\| `([^`]+)` \| (-?\d+) \(0x(-?[0-9A-Fa-f]+)\) \|")


def check_definer_section(ctx, cur, lines, i, rel, fn):
    """`### Type` / `### Enumerators` of an enum or flag page section against the definition: base type and its width, one row per enumerator
    in declaration order with its value (decimal and hexadecimal)"""
    key = f"page|{fn}|{cur.name}|{cur.line}|definer"
    j = i + 1
    tl = TYPE_LINE.match(lines[j]) if j < len(lines) else None
    width = wowm.BASIC_INT[cur.base][0] if cur.base in wowm.BASIC_INT else None
    if not tl or tl.group(1) != cur.base or (width is not None and (int(tl.group(2)) != width or int(tl.group(3)) != 8 * width)):
        ctx.violate("doc.definer-table", key + "|type", f"{rel}: type line of {cur.name} is `{lines[j] if j < len(lines) else ''}`, the definition has base type {cur.base} ({width} bytes)", rel, j + 1)
    rows = []
    while j < len(lines) and not lines[j].startswith("## ") and not lines[j].startswith("Used in"):
        m = ENUM_ROW.match(lines[j])
        if m:
            rows.append((m.group(1), int(m.group(2)), int(m.group(3), 16)))
        j += 1
    want = [(f[0], f[1]) for f in cur.fields]
    def hex_ok(r):
        # a negative value is rendered in two's complement (the printer formats an i128); any width of at least the base type is accepted
        return r[1] == r[2] or (r[1] < 0 and any(r[2] == r[1] + (1 << k) for k in (8, 16, 32, 64, 128)))
    if [(r[0], r[1]) for r in rows] != want or any(not hex_ok(r) for r in rows):
        d = next((f"row {n_ + 1}: documented {g}, the definition has {w}" for n_, (g, w) in enumerate(zip(rows, want)) if (g[0], g[1]) != w or not hex_ok(g)), f"{len(rows)} rows, the definition has {len(want)} enumerators")
        ctx.violate("doc.definer-table", key + "|rows", f"{rel}: enumerator table of {cur.name}: {short(d)}", rel, i + 1)
    return 1


class Index:
    def __init__(self, model):
        self.by_pos = {}
        for o in model.objects:
            self.by_pos.setdefault((o.ast.file, o.ast.line), o.ast)
        self.model = model
        self.obj_of = {}
        self.objs_of = {}
        self.section = None  # versions named by the current `## Client Version ..` / `## Protocol Version ..` heading of the page being read
        for o in model.objects:
            self.obj_of.setdefault(id(o.ast), o)
            self.objs_of.setdefault(id(o.ast), []).append(o)
        self.tests = {}
        for t in model.tests:
            self.tests.setdefault(t.name, []).append(t)


def compare_block(ctx, rule, key, text, file, line, idx, where_file, where_line):
    idx.block_ok = False
    src = idx.by_pos.get((file, line))
    if src is None:
        ctx.violate(rule, key + "|link", f"{where_file}: the link {file}:{line} does not point at a definition", where_file, where_line)
        return None
    try:
        objs = wowm.Parser(text, "<doc>").parse_file()
    except wowm.WowmError as e:
        ctx.violate(rule, key + "|parse", f"{where_file}: the embedded wowm for {src.name} does not parse: {e}", where_file, where_line)
        return src
    if len(objs) != 1:
        ctx.violate(rule, key + "|count", f"{where_file}: the embedded block holds {len(objs)} definitions", where_file, where_line)
        return src
    d = first_diff(sig(objs[0]), sig(src))
    idx.block_ok = not d
    if d:
        ctx.violate(rule, key + "|differs", f"{where_file}: embedded definition of {src.name} differs from {file}:{line} — {d}", where_file, where_line)
    return src


def example_annotation_problem(idx, cur, data, rows, rel, compare_bytes=True):
    """-> None (nothing to report / not decodable here) or (key suffix, message)"""
    from .. import refdecode as R
    obj = idx.obj_of.get(id(cur))
    if obj is None:
        return None
    model = idx.model
    if obj.world_versions:
        v = obj.world_versions[0]
        lookup = lambda name: model.lookup_world(name, v)  # noqa
    else:
        v = obj.login_versions[0]
        lookup = lambda name: model.lookup_login(name, v)  # noqa
    # annotated groups: (bytes on the line, member name of the comment)
    ann = []
    for row in rows:
        code, _, cm = row.partition("//")
        toks = [int(t) for t in code.replace(",", " ").split() if t.lstrip("-").isdigit()]
        last = cm.rpartition("//")[2]  # a line may carry a second comment after bytes that slipped into the first one
        nm = last.split(":")[0].strip() if last.strip() else None
        ann.append((toks, nm, cm.strip()))
    hdr = 0
    for toks, nm, cm in ann:
        if cm == "size" or cm.startswith("opcode ("):
            hdr += len(toks)
        else:
            break
    try:
        rl = wowm.RefLayouts(model, lookup)
        items = R.prepare(rl, rl.container(cur))
        out = []
        try:
            end = R.decode_seq(items, data, hdr, {}, out)
            complete = True
        except R.Opaque:
            end, complete = None, False
        except R.Short:
            return ("|decode", f"{rel}: example of {cur.name}: the bytes end before the members the definition requires for these values")
    except wowm.WowmError:
        return None
    if complete and end != len(data):
        return ("|decode", f"{rel}: example of {cur.name}: decoding the {len(data)} bytes along the definition ends at byte {end}")
    names = [(nm, toks) for toks, nm, cm in ann if nm]
    pos = 0
    for (mname, start, stop, kind) in out:
        if kind == "struct":
            continue  # struct members are annotated through their fields (`Type.field: ..`), not by their own name
        found = None
        for q in range(pos, len(names)):
            if names[q][0] == mname:
                found = q
                break
        if found is None:
            return (f"|missing|{mname}", f"{rel}: example of {cur.name}: member `{mname}` is present for these bytes (bytes {start}..{stop} by the definition) but the example "
                    f"does not annotate it{' after `' + names[pos - 1][0] + '`' if pos else ''}: the annotation follows a different branch than the bytes")
        if compare_bytes and kind in ("int", "float", "bool", "enum", "flag", "guid", "datetime") and names[found][1] != data[start:stop]:
            return (f"|bytes|{mname}", f"{rel}: example of {cur.name}: `{mname}` is annotated on the bytes {names[found][1]} but the definition places it on bytes {start}..{stop} = {data[start:stop]}")
        pos = found + 1
    return None


def check_pages(ctx, idx):
    global n_decoded
    n_decoded = 0
    n_extra[:] = [0, 0, 0, 0, 0]
    n_blocks = n_tables = n_examples = 0
    pages = sorted(f for f in os.listdir(DOCS) if f.endswith(".md"))
    for fn in pages:
        rel = f"wowm_language/src/docs/{fn}"
        lines = open(os.path.join(DOCS, fn), encoding="utf-8").read().split("\n")
        i = 0
        idx.section = None
        cur = None
        cur_examples = 0
        while i < len(lines):
            l = lines[i]
            if l.startswith("## Client Version ") or l.startswith("## Protocol Version "):
                try:
                    if l.startswith("## Client"):
                        idx.section = ("world", [wowm.parse_world_version(x.strip()[len("Client Version "):]) for x in l[3:].split(",")])
                    else:
                        idx.section = ("login", [(x.strip()[len("Protocol Version "):]) for x in l[3:].split(",")])
                        idx.section = ("login", ["*" if x == "*" else int(x) for x in idx.section[1]])
                except (wowm.WowmError, ValueError):
                    idx.section = None
            m = LINK.search(l) if l.startswith("Autogenerated from `wowm` file at") else None
            b0 = i + 1
            while m and b0 < len(lines) and not lines[b0].strip():
                b0 += 1  # definer pages put a blank line between the link and the block
            if m and b0 < len(lines) and lines[b0].startswith("```rust,ignore"):
                j = b0 + 1
                blk = []
                while j < len(lines) and not lines[j].startswith("```"):
                    blk.append(lines[j])
                    j += 1
                n_blocks += 1
                cur = compare_block(ctx, "doc.parseback", f"page|{fn}|{m.group(1)}:{m.group(2)}", "\n".join(blk), m.group(1), int(m.group(2)), idx, rel, i + 1)
                cur_examples = 0
                i = j + 1
                continue
            if l.startswith("### Body") and cur is not None and isinstance(cur, wowm.Container):
                # collect all table rows until the next heading
                j = i + 1
                rows = []
                while j < len(lines) and not lines[j].startswith("#"):
                    r = lines[j]
                    if r.startswith("|") and not r.startswith("| Offset") and not r.startswith("| ---"):
                        cells = [c.strip() for c in r.strip().strip("|").split("|")]
                        if len(cells) >= 4:
                            rows.append((cells, j + 1))
                    j += 1
                n_tables += 1
                want = flat_members(cur.members, [])
                names = [c[0][3] for c in rows]
                n_cells = 0
                if names == [m_.name for m_ in want] and idx.block_ok:
                    sizes = check_row_cells(ctx, idx, cur, rows, want, rel, fn)
                    n_extra[0] += len(sizes or {})
                    n_extra[1] += check_offsets(ctx, idx, cur, rows, want, sizes, rel, fn)
                    n_extra[2] += check_conditions(ctx, cur, lines[i + 1:j], rel, fn, i + 1)
                if names != [m_.name for m_ in want]:
                    ctx.violate("doc.table", f"page|{fn}|{cur.name}|{cur.line}|members", f"{rel}: body table of {cur.name} lists members {short(names)}, the definition has {short([m_.name for m_ in want])}", rel, i + 1)
                else:
                    for (cells, ln), m_ in zip(rows, want):
                        if m_.array is None and m_.upcast is None and m_.ty in FIXED:
                            size, endian = FIXED[m_.ty]
                            cell = cells[1].replace(" ", "")
                            if cell != f"{size}/{endian}":
                                ctx.violate("doc.table", f"page|{fn}|{cur.name}|{cur.line}|{m_.name}|size", f"{rel}: body table of {cur.name}: `{m_.name}` ({m_.ty}) is documented as `{cells[1]}`, it is {size} / {endian}", rel, ln)
                i = j
                continue
            if l.startswith("### Header") and cur is not None and isinstance(cur, wowm.Container) and idx.block_ok:
                n_extra[3] += check_header_section(ctx, idx, cur, lines, i, rel, fn)
            if l.startswith("### Type") and cur is not None and isinstance(cur, wowm.Definer) and idx.block_ok:
                n_extra[4] += check_definer_section(ctx, cur, lines, i, rel, fn)
            if l.startswith("#### Example") and cur is not None:
                j = i + 1
                while j < len(lines) and not lines[j].startswith("```c"):
                    j += 1
                k = j + 1
                data = []
                comments = []
                while k < len(lines) and not lines[k].startswith("```"):
                    row = lines[k]
                    code, _, cm = row.partition("//")
                    for tok in code.replace(",", " ").split():
                        try:
                            data.append(int(tok))
                        except ValueError:
                            ctx.violate("doc.examples", f"page|{fn}|{cur.name}|{cur.line}|ex{cur_examples}|token", f"{rel}: example of {cur.name} contains a non-numeric byte `{tok}`", rel, k + 1)
                    if cm.strip():
                        comments.append(cm.strip())
                    k += 1
                n_examples += 1
                tests = idx.tests.get(cur.name, [])
                raw_sets = []
                for t in tests:
                    b = []
                    for x in t.raw:
                        if isinstance(x, (bytes, bytearray)):
                            b += list(x)
                        elif isinstance(x, str):
                            b += list(x.encode())
                        else:
                            b.append(x & 0xFF)
                    raw_sets.append(b)
                # compressed members/messages: the page shows the decompressed payload; only the plain prefix
                # (up to and including the decompressed-size word) can be compared without inflating anything
                compressed = "true" in cur.tags.get("compressed", []) or any(isinstance(m_, wowm.Decl) and "true" in m_.tags.get("compressed", []) for m_ in flat_members(cur.members, []))
                if compressed:
                    pre = []
                    kk = j + 1
                    while kk < k:
                        code, _, cm = lines[kk].partition("//")
                        pre += [int(t_) for t_ in code.replace(",", " ").split() if t_.isdigit()]
                        if "decompressed_size" in cm:
                            break
                        kk += 1
                    if not any(b[:len(pre)] == pre for b in raw_sets):
                        ctx.violate("doc.examples", f"page|{fn}|{cur.name}|{cur.line}|ex{cur_examples}|prefix", f"{rel}: example {cur_examples + 1} of {cur.name}: the bytes before the compressed payload differ from every test of that definition", rel, i + 1)
                elif data not in raw_sets:
                    ctx.violate("doc.examples", f"page|{fn}|{cur.name}|{cur.line}|ex{cur_examples}|bytes",
                                f"{rel}: example {cur_examples + 1} of {cur.name}: the annotated byte groups ({len(data)} bytes) do not concatenate to the bytes of any test of that definition in {cur.file}", rel, i + 1)
                # the annotations against a decoding of the bytes along the definition: every member that is present for these bytes
                # must be annotated, in order, and fixed-width scalars must sit on their own bytes
                if not compressed:
                    n_decoded += 1
                    kx = f"page|{fn}|{cur.name}|{cur.line}|ex{cur_examples}"
                    if data in raw_sets:
                        pr = example_annotation_problem(idx, cur, data, lines[j + 1:k], rel)
                    else:
                        # the byte groups are already reported as not matching a test: still require that the annotated member names are
                        # those present for the bytes of at least one test of the definition
                        prs = [example_annotation_problem(idx, cur, b, lines[j + 1:k], rel, compare_bytes=False) for b in raw_sets]
                        pr = None if (not prs or any(x is None for x in prs)) else prs[0]
                    if pr:
                        ctx.violate("doc.examples", kx + pr[0], pr[1], rel, i + 1)
                # top-level field comments follow definition order
                order = {m_.name: n for n, m_ in enumerate(flat_members(cur.members, [])) if True}
                seen = -1
                for cm in comments:
                    nm = cm.split(":")[0].strip()
                    if nm in order and "." not in nm and "[" not in nm:
                        if order[nm] < seen:
                            ctx.violate("doc.examples", f"page|{fn}|{cur.name}|{cur.line}|ex{cur_examples}|order", f"{rel}: example {cur_examples + 1} of {cur.name}: `{nm}` is annotated after a later member", rel, i + 1)
                            break
                        seen = max(seen, order[nm])
                cur_examples += 1
                i = k + 1
                continue
            i += 1
    return len(pages), n_blocks, n_tables, n_examples


RS_HEAD = re.compile(r"^\s*/// Auto generated from the original `wowm` in file \[`(wow_message_parser/wowm/[^`:]+):(\d+)`\]")


def check_rust_comments(ctx, idx):
    n = 0
    files = repo_files(RS_DIRS, exts={".rs"})
    for f in files:
        rel = os.path.relpath(f, REPO)
        lines = open(f, encoding="utf-8").read().split("\n")
        i = 0
        while i < len(lines):
            m = RS_HEAD.match(lines[i])
            if not m:
                i += 1
                continue
            j = i + 1
            if j < len(lines) and lines[j].strip() == "/// ```text":
                k = j + 1
                blk = []
                while k < len(lines) and lines[k].strip() != "/// ```":
                    t = lines[k].strip()
                    if not t.startswith("///"):
                        break
                    blk.append(t[4:] if t.startswith("/// ") else t[3:])
                    k += 1
                n += 1
                compare_block(ctx, "doc.parseback", f"rs|{rel}|{m.group(1)}:{m.group(2)}", "\n".join(blk), m.group(1), int(m.group(2)), idx, rel, i + 1)
                i = k + 1
            else:
                ctx.violate("doc.parseback", f"rs|{rel}|{m.group(1)}:{m.group(2)}|noblock", f"{rel}: the generated-from link is not followed by a wowm text block", rel, i + 1)
                i += 1
    return n


def run(ctx):
    model = state()["P"].model
    idx = Index(model)
    pages, blocks, tables, examples = check_pages(ctx, idx)
    rs = check_rust_comments(ctx, idx)
    ctx.rule("doc.parseback", blocks + rs, floor=4153, note=f"{blocks} wowm blocks in {pages} doc pages + {rs} Rust doc comments parsed back and compared with the linked source object")
    ctx.rule("doc.table", tables, floor=1500, note="body tables: member names in definition order, size/endianness cells of fixed-width built-ins")
    ctx.rule("doc.cells", n_extra[0], floor=N_CELLS, note="body table rows: the size cell is the constant size of the member's encoding by the independent size calculation (enums at their wire width, upcasts, structs, fixed arrays) or `-` / `?`, the type cell names the member's type")
    ctx.rule("doc.offsets", n_extra[1], floor=N_OFFSETS, note="offset cells of the constant prefix (top-level members in front of the first conditional block and the first arm of a directly following if): start offset of the container kind plus the sizes in front; rows behind a branch are not compared")
    ctx.rule("doc.conditions", n_extra[2], floor=N_CONDS, note="branch headings (`If x is equal to ..`, `Else If`, `Else:`) follow the definition's conditions: variable, operator, enumerators, order")
    ctx.rule("doc.header", n_extra[3], floor=N_HEADERS, note="header section of message pages: the header tables of the container kind; the 2-or-3 byte size form exactly for server messages valid in 3.3.5 whose size is not constant")
    ctx.rule("doc.definer-table", n_extra[4], floor=N_DEFINERS, note="enum / flag page sections: base type with its width and one row per enumerator in declaration order, decimal and hexadecimal value")
    ctx.rule("doc.examples", examples, floor=170, note=f"examples: byte groups concatenate to the wowm test bytes; {n_decoded} examples decoded along the definition: every present member annotated in order, fixed-width scalars on their own bytes")
    ctx.analysed.update({"programs": blocks + rs, "pages": pages})
    ctx.assume("prose, links and per-member comments are not compared; tags blocks are not part of the embedded definition")
    return "translation_validation", EXPLANATION, {}
