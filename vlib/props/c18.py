"""C18 — documentation shows each object's definition and examples faithfully (parse-back comparison)."""
import os
import re

from .. import wowm
from ..common import REPO, repo_files
from ..containers import state

n_decoded = 0
EXPLANATION = (
    "Every wowm block embedded in a generated Rust doc comment and in every documentation page is parsed back with the "
    "independent wowm parser and compared with the source object its link names (file:line): kind, name, opcode, base type, "
    "enumerators and values, member order, types, upcasts, array kinds, constant values, if / else-if / else conditions and "
    "optional blocks. Each page's body tables must list exactly the definition's members in definition order with the size and "
    "endianness of fixed-width built-ins; each documented example's byte groups must concatenate to the bytes of the wowm test "
    "it renders and its top-level field comments must follow definition order. All pages, comments and examples are covered."
)
DOCS = os.path.join(REPO, "wowm_language", "src", "docs")
RS_DIRS = ["wow_world_messages/src/world", "wow_login_messages/src/logon", "wow_world_base/src/inner"]
LINK = re.compile(r"\[`(wow_message_parser/wowm/[^`:]+):(\d+)`\]")


def sig_members(ms):
    out = []
    for m in ms:
        if isinstance(m, wowm.Decl):
            val = m.value
            if val is not None:
                vk, vv = val
                if vk == "num":
                    try:
                        val = ("num", wowm.parse_int_value(vv))
                    except Exception:  # noqa
                        val = (vk, vv)
                elif vk == "str":
                    val = ("str", vv)
                else:
                    val = (vk, vv)
            out.append(("decl", m.ty, m.name, m.upcast, tuple(m.array) if m.array else None, val))
        elif isinstance(m, wowm.If):
            arms = tuple((tuple(tuple(c) for c in conds), tuple(sig_members(ams))) for conds, ams in m.arms)
            els = tuple(sig_members(m.else_members)) if m.else_members is not None else None
            if els == ():
                els = None
            out.append(("if", arms, els))
        elif isinstance(m, wowm.Optional):
            out.append(("optional", m.name, tuple(sig_members(m.members))))
    return out


def sig(a):
    if isinstance(a, wowm.Definer):
        return ("definer", a.kind, a.name, a.base, tuple((f[0], f[1]) for f in a.fields))
    return ("container", a.kind, a.name, a.opcode, tuple(sig_members(a.members)))


def first_diff(a, b, path=""):
    if type(a) != type(b):
        return f"{path}: {a!r} vs {b!r}"
    if isinstance(a, tuple):
        if len(a) != len(b):
            return f"{path}: {len(a)} vs {len(b)} entries ({short(a)} vs {short(b)})"
        for i, (x, y) in enumerate(zip(a, b)):
            d = first_diff(x, y, f"{path}[{i}]")
            if d:
                return d
        return None
    return None if a == b else f"{path}: documented {a!r}, source has {b!r}"


def short(x):
    s = repr(x)
    return s if len(s) < 140 else s[:140] + "…"


def flat_members(ms, out):
    for m in ms:
        if isinstance(m, wowm.Decl):
            out.append(m)
        elif isinstance(m, wowm.If):
            for _c, ams in m.arms:
                flat_members(ams, out)
            if m.else_members:
                flat_members(m.else_members, out)
        elif isinstance(m, wowm.Optional):
            flat_members(m.members, out)
    return out


FIXED = {"u8": (1, "-"), "i8": (1, "-"), "u16": (2, "Little"), "i16": (2, "Little"), "u32": (4, "Little"), "i32": (4, "Little"), "u64": (8, "Little"), "i64": (8, "Little"),
         "u16_be": (2, "Big"), "u32_be": (4, "Big"), "u64_be": (8, "Big"), "f32": (4, "Little"), "Guid": (8, "Little"), "Level16": (2, "Little"), "Level32": (4, "Little"),
         "Gold": (4, "Little"), "Spell": (4, "Little"), "Item": (4, "Little"), "Seconds": (4, "Little"), "Milliseconds": (4, "Little"), "Spell16": (2, "Little"),
         "IpAddress": (4, "Big"), "DateTime": (4, "Little"), "Bool32": (4, "Little"), "Population": (4, "Little"), "Level": (1, "-"), "Bool": (1, "-")}


class Index:
    def __init__(self, model):
        self.by_pos = {}
        for o in model.objects:
            self.by_pos.setdefault((o.ast.file, o.ast.line), o.ast)
        self.model = model
        self.obj_of = {}
        for o in model.objects:
            self.obj_of.setdefault(id(o.ast), o)
        self.tests = {}
        for t in model.tests:
            self.tests.setdefault(t.name, []).append(t)


def compare_block(ctx, rule, key, text, file, line, idx, where_file, where_line):
    src = idx.by_pos.get((file, line))
    if src is None:
        ctx.violate(rule, key + "|link", f"{where_file}: the link {file}:{line} does not point at a definition", where_file, where_line)
        return None
    try:
        objs = wowm.Parser(text, "<doc>").parse_file()
    except wowm.WowmError as e:
        ctx.violate(rule, key + "|parse", f"{where_file}: the embedded wowm for {src.name} does not parse: {e}", where_file, where_line)
        return src
    if len(objs) != 1:
        ctx.violate(rule, key + "|count", f"{where_file}: the embedded block holds {len(objs)} definitions", where_file, where_line)
        return src
    d = first_diff(sig(objs[0]), sig(src))
    if d:
        ctx.violate(rule, key + "|differs", f"{where_file}: embedded definition of {src.name} differs from {file}:{line} — {d}", where_file, where_line)
    return src


def example_annotation_problem(idx, cur, data, rows, rel, compare_bytes=True):
    """-> None (nothing to report / not decodable here) or (key suffix, message)"""
    from .. import refdecode as R
    obj = idx.obj_of.get(id(cur))
    if obj is None:
        return None
    model = idx.model
    if obj.world_versions:
        v = obj.world_versions[0]
        lookup = lambda name: model.lookup_world(name, v)  # noqa
    else:
        v = obj.login_versions[0]
        lookup = lambda name: model.lookup_login(name, v)  # noqa
    # annotated groups: (bytes on the line, member name of the comment)
    ann = []
    for row in rows:
        code, _, cm = row.partition("//")
        toks = [int(t) for t in code.replace(",", " ").split() if t.lstrip("-").isdigit()]
        last = cm.rpartition("//")[2]  # a line may carry a second comment after bytes that slipped into the first one
        nm = last.split(":")[0].strip() if last.strip() else None
        ann.append((toks, nm, cm.strip()))
    hdr = 0
    for toks, nm, cm in ann:
        if cm == "size" or cm.startswith("opcode ("):
            hdr += len(toks)
        else:
            break
    try:
        rl = wowm.RefLayouts(model, lookup)
        items = R.prepare(rl, rl.container(cur))
        out = []
        try:
            end = R.decode_seq(items, data, hdr, {}, out)
            complete = True
        except R.Opaque:
            end, complete = None, False
        except R.Short:
            return ("|decode", f"{rel}: example of {cur.name}: the bytes end before the members the definition requires for these values")
    except wowm.WowmError:
        return None
    if complete and end != len(data):
        return ("|decode", f"{rel}: example of {cur.name}: decoding the {len(data)} bytes along the definition ends at byte {end}")
    names = [(nm, toks) for toks, nm, cm in ann if nm]
    pos = 0
    for (mname, start, stop, kind) in out:
        if kind == "struct":
            continue  # struct members are annotated through their fields (`Type.field: ..`), not by their own name
        found = None
        for q in range(pos, len(names)):
            if names[q][0] == mname:
                found = q
                break
        if found is None:
            return (f"|missing|{mname}", f"{rel}: example of {cur.name}: member `{mname}` is present for these bytes (bytes {start}..{stop} by the definition) but the example "
                    f"does not annotate it{' after `' + names[pos - 1][0] + '`' if pos else ''}: the annotation follows a different branch than the bytes")
        if compare_bytes and kind in ("int", "float", "bool", "enum", "flag", "guid", "datetime") and names[found][1] != data[start:stop]:
            return (f"|bytes|{mname}", f"{rel}: example of {cur.name}: `{mname}` is annotated on the bytes {names[found][1]} but the definition places it on bytes {start}..{stop} = {data[start:stop]}")
        pos = found + 1
    return None


def check_pages(ctx, idx):
    global n_decoded
    n_decoded = 0
    n_blocks = n_tables = n_examples = 0
    pages = sorted(f for f in os.listdir(DOCS) if f.endswith(".md"))
    for fn in pages:
        rel = f"wowm_language/src/docs/{fn}"
        lines = open(os.path.join(DOCS, fn), encoding="utf-8").read().split("\n")
        i = 0
        cur = None
        cur_examples = 0
        while i < len(lines):
            l = lines[i]
            m = LINK.search(l) if l.startswith("Autogenerated from `wowm` file at") else None
            if m and i + 1 < len(lines) and lines[i + 1].startswith("```rust,ignore"):
                j = i + 2
                blk = []
                while j < len(lines) and not lines[j].startswith("```"):
                    blk.append(lines[j])
                    j += 1
                n_blocks += 1
                cur = compare_block(ctx, "doc.parseback", f"page|{fn}|{m.group(1)}:{m.group(2)}", "\n".join(blk), m.group(1), int(m.group(2)), idx, rel, i + 1)
                cur_examples = 0
                i = j + 1
                continue
            if l.startswith("### Body") and cur is not None and isinstance(cur, wowm.Container):
                # collect all table rows until the next heading
                j = i + 1
                rows = []
                while j < len(lines) and not lines[j].startswith("#"):
                    r = lines[j]
                    if r.startswith("|") and not r.startswith("| Offset") and not r.startswith("| ---"):
                        cells = [c.strip() for c in r.strip().strip("|").split("|")]
                        if len(cells) >= 4:
                            rows.append((cells, j + 1))
                    j += 1
                n_tables += 1
                want = flat_members(cur.members, [])
                names = [c[0][3] for c in rows]
                if names != [m_.name for m_ in want]:
                    ctx.violate("doc.table", f"page|{fn}|{cur.name}|{cur.line}|members", f"{rel}: body table of {cur.name} lists members {short(names)}, the definition has {short([m_.name for m_ in want])}", rel, i + 1)
                else:
                    for (cells, ln), m_ in zip(rows, want):
                        if m_.array is None and m_.upcast is None and m_.ty in FIXED:
                            size, endian = FIXED[m_.ty]
                            cell = cells[1].replace(" ", "")
                            if cell != f"{size}/{endian}":
                                ctx.violate("doc.table", f"page|{fn}|{cur.name}|{cur.line}|{m_.name}|size", f"{rel}: body table of {cur.name}: `{m_.name}` ({m_.ty}) is documented as `{cells[1]}`, it is {size} / {endian}", rel, ln)
                i = j
                continue
            if l.startswith("#### Example") and cur is not None:
                j = i + 1
                while j < len(lines) and not lines[j].startswith("```c"):
                    j += 1
                k = j + 1
                data = []
                comments = []
                while k < len(lines) and not lines[k].startswith("```"):
                    row = lines[k]
                    code, _, cm = row.partition("//")
                    for tok in code.replace(",", " ").split():
                        try:
                            data.append(int(tok))
                        except ValueError:
                            ctx.violate("doc.examples", f"page|{fn}|{cur.name}|{cur.line}|ex{cur_examples}|token", f"{rel}: example of {cur.name} contains a non-numeric byte `{tok}`", rel, k + 1)
                    if cm.strip():
                        comments.append(cm.strip())
                    k += 1
                n_examples += 1
                tests = idx.tests.get(cur.name, [])
                raw_sets = []
                for t in tests:
                    b = []
                    for x in t.raw:
                        if isinstance(x, (bytes, bytearray)):
                            b += list(x)
                        elif isinstance(x, str):
                            b += list(x.encode())
                        else:
                            b.append(x & 0xFF)
                    raw_sets.append(b)
                # compressed members/messages: the page shows the decompressed payload; only the plain prefix
                # (up to and including the decompressed-size word) can be compared without inflating anything
                compressed = "true" in cur.tags.get("compressed", []) or any(isinstance(m_, wowm.Decl) and "true" in m_.tags.get("compressed", []) for m_ in flat_members(cur.members, []))
                if compressed:
                    pre = []
                    kk = j + 1
                    while kk < k:
                        code, _, cm = lines[kk].partition("//")
                        pre += [int(t_) for t_ in code.replace(",", " ").split() if t_.isdigit()]
                        if "decompressed_size" in cm:
                            break
                        kk += 1
                    if not any(b[:len(pre)] == pre for b in raw_sets):
                        ctx.violate("doc.examples", f"page|{fn}|{cur.name}|{cur.line}|ex{cur_examples}|prefix", f"{rel}: example {cur_examples + 1} of {cur.name}: the bytes before the compressed payload differ from every test of that definition", rel, i + 1)
                elif data not in raw_sets:
                    ctx.violate("doc.examples", f"page|{fn}|{cur.name}|{cur.line}|ex{cur_examples}|bytes",
                                f"{rel}: example {cur_examples + 1} of {cur.name}: the annotated byte groups ({len(data)} bytes) do not concatenate to the bytes of any test of that definition in {cur.file}", rel, i + 1)
                # the annotations against a decoding of the bytes along the definition: every member that is present for these bytes
                # must be annotated, in order, and fixed-width scalars must sit on their own bytes
                if not compressed:
                    n_decoded += 1
                    kx = f"page|{fn}|{cur.name}|{cur.line}|ex{cur_examples}"
                    if data in raw_sets:
                        pr = example_annotation_problem(idx, cur, data, lines[j + 1:k], rel)
                    else:
                        # the byte groups are already reported as not matching a test: still require that the annotated member names are
                        # those present for the bytes of at least one test of the definition
                        prs = [example_annotation_problem(idx, cur, b, lines[j + 1:k], rel, compare_bytes=False) for b in raw_sets]
                        pr = None if (not prs or any(x is None for x in prs)) else prs[0]
                    if pr:
                        ctx.violate("doc.examples", kx + pr[0], pr[1], rel, i + 1)
                # top-level field comments follow definition order
                order = {m_.name: n for n, m_ in enumerate(flat_members(cur.members, [])) if True}
                seen = -1
                for cm in comments:
                    nm = cm.split(":")[0].strip()
                    if nm in order and "." not in nm and "[" not in nm:
                        if order[nm] < seen:
                            ctx.violate("doc.examples", f"page|{fn}|{cur.name}|{cur.line}|ex{cur_examples}|order", f"{rel}: example {cur_examples + 1} of {cur.name}: `{nm}` is annotated after a later member", rel, i + 1)
                            break
                        seen = max(seen, order[nm])
                cur_examples += 1
                i = k + 1
                continue
            i += 1
    return len(pages), n_blocks, n_tables, n_examples


RS_HEAD = re.compile(r"^\s*/// Auto generated from the original `wowm` in file \[`(wow_message_parser/wowm/[^`:]+):(\d+)`\]")


def check_rust_comments(ctx, idx):
    n = 0
    files = repo_files(RS_DIRS, exts={".rs"})
    for f in files:
        rel = os.path.relpath(f, REPO)
        lines = open(f, encoding="utf-8").read().split("\n")
        i = 0
        while i < len(lines):
            m = RS_HEAD.match(lines[i])
            if not m:
                i += 1
                continue
            j = i + 1
            if j < len(lines) and lines[j].strip() == "/// ```text":
                k = j + 1
                blk = []
                while k < len(lines) and lines[k].strip() != "/// ```":
                    t = lines[k].strip()
                    if not t.startswith("///"):
                        break
                    blk.append(t[4:] if t.startswith("/// ") else t[3:])
                    k += 1
                n += 1
                compare_block(ctx, "doc.parseback", f"rs|{rel}|{m.group(1)}:{m.group(2)}", "\n".join(blk), m.group(1), int(m.group(2)), idx, rel, i + 1)
                i = k + 1
            else:
                ctx.violate("doc.parseback", f"rs|{rel}|{m.group(1)}:{m.group(2)}|noblock", f"{rel}: the generated-from link is not followed by a wowm text block", rel, i + 1)
                i += 1
    return n


def run(ctx):
    model = state()["P"].model
    idx = Index(model)
    pages, blocks, tables, examples = check_pages(ctx, idx)
    rs = check_rust_comments(ctx, idx)
    ctx.rule("doc.parseback", blocks + rs, floor=3777, note=f"{blocks} wowm blocks in {pages} doc pages + {rs} Rust doc comments parsed back and compared with the linked source object")
    ctx.rule("doc.table", tables, floor=1500, note="body tables: member names in definition order, size/endianness cells of fixed-width built-ins")
    ctx.rule("doc.examples", examples, floor=170, note=f"examples: byte groups concatenate to the wowm test bytes; {n_decoded} examples decoded along the definition: every present member annotated in order, fixed-width scalars on their own bytes")
    ctx.analysed.update({"programs": blocks + rs, "pages": pages})
    ctx.assume("prose, links and per-member comments are not compared; tags blocks are not part of the embedded definition")
    return "translation_validation", EXPLANATION, {}
