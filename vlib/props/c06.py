"""C06 — blocking / tokio / async-std variants agree under every stream chunking (sibling equality + API rule)."""
import re

from .. import hir as H
from ..containers import state
from ..prims import LeafTable, strip_flavour
from ..siblings import body, first_diff
from ..world import gpath

EXPLANATION = (
    "Sibling agreement: every function that exists in a sync, tokio_ and astd_ copy (all login readers/writers, world "
    "header readers, expect_* helpers, default write_* methods, primitive readers) is normalised (await removed, flavour "
    "prefix and I/O trait abstracted) from typed HIR and the copies must be identical trees. In addition every call that "
    "touches the transport must be a read_exact-class call (or a tokio fixed-width read), which collapses the quantifier "
    "over chunkings and Pending interleavings to the documented contract of read_exact."
)
TRIPLE_FLOOR = 200  # sibling groups: helpers may be merged or split by a refactor
IO_FLOOR = 7000  # transport call sites: call sites may be consolidated into helpers

READ_OK = {"read_exact"}
TOKIO_FIXED = {"read_u8", "read_i8", "read_u16", "read_u16_le", "read_u32", "read_u32_le", "read_u64", "read_u64_le",
               "read_i16_le", "read_i32_le", "read_i64_le", "read_i32", "read_f32", "read_f32_le"}
WRITE_OK = {"write_all", "flush"}
TRANSPORT_TRAITS = re.compile(r"^(std::io::Read|std::io::Write|tokio::io::(?:util::async_(?:read|write)_ext::)?Async(?:Read|Write)Ext|async_std::io::(?:read::|write::)?(?:Read|Write)Ext|futures_lite::io::Async(?:Read|Write)Ext|futures_util::io::Async(?:Read|Write)Ext|tokio::io::AsyncRead|tokio::io::AsyncWrite|futures_io::AsyncRead)::(\w+)$")


def is_transport_self(ga):
    """first generic arg of the trait method call = Self type of the receiver"""
    first = ga.split(", ")[0] if ga else ""
    first = first.replace("&mut ", "").replace("&", "").strip()
    if first in ("R", "W", "Self") or first.startswith("impl "):
        return True
    return False


def writer_flavours_semantic(g, a, b):
    """default writers of the world message traits (`&Self`, W[, encrypter]): both copies are evaluated by the piecewise-affine writer
    interpreter over every body length; header length, size field, bytes handed to the transport, events and cipher steps must be the
    same for every length.  -> None when they agree, a message when a length tells them apart; raises Unsupported when not applicable"""
    from ..minieval import Unsupported
    from ..framew import analyse_writer
    from . import c02_frame
    m = re.match(r"^(?:<.+ as )?crate::traits::(vanilla|tbc|wrath)::(Server|Client)Message::", a["path"])
    if not m or not re.search(r"write_(un)?encrypted_(server|client)$", a["name"]):
        raise Unsupported("not a default writer of the message traits")
    exp, side = m.group(1), m.group(2).lower()
    op_len = 4 if side == "client" else 2
    bmax = c02_frame.bmax_for(exp, side)

    def summary(fn):
        out = []
        for lo, hi, s, err in analyse_writer(g, "wow_world_messages", fn, exp, side, bmax):
            if err:
                raise Unsupported(str(err)[:80])
            sf = s.sf
            if sf is None and s.header_len is not None:
                sf, perr = c02_frame.header_sf(s.header_bytes, s.header_len - op_len, op_len)
                if perr:
                    raise Unsupported(str(perr)[:80])
            tr = s.transport[2][0] if s.transport is not None else None
            row = (s.header_len, (sf[1], sf[2]) if sf else None, (tr[1], tr[2]) if tr else None, tuple(sorted(k for k, _ in s.events)), s.enc_calls)
            if out and out[-1][2:] == row and out[-1][1] + 1 == lo:
                out[-1] = (out[-1][0], hi) + row
            else:
                out.append((lo, hi) + row)
        return out
    sa, sb = summary(a), summary(b)
    for p_ in sorted({x[0] for x in sa} | {x[0] for x in sb}):
        ra = next(x for x in sa if x[0] <= p_ <= x[1])
        rb = next(x for x in sb if x[0] <= p_ <= x[1])
        if ra[2:] != rb[2:]:
            return (f"for body length {p_:#x} the blocking copy sends a {ra[2]}-byte header with size field {ra[3]}, {ra[4]} bytes in total, events {list(ra[5])}, {ra[6]} cipher step(s); "
                    f"the async copy a {rb[2]}-byte header with size field {rb[3]}, {rb[4]} bytes, events {list(rb[5])}, {rb[6]} cipher step(s)")
    return None


def run(ctx):
    st = state()
    g = st["g"]
    n_groups = 0
    n_fns = 0
    n_sem = n_sem_runs = 0
    for crate in ("wow_login_messages", "wow_world_messages"):
        F = g.f(crate)
        groups = {}
        for fn in F.all("fn"):
            base, fl = strip_flavour(fn["name"])
            # parent identity: impl self type + trait, or module path for free fns
            if fn["parent"] is not None:
                pk = (fn["self_ty"] or fn["parent"], fn["trait"])
            else:
                mod = fn["path"].rsplit("::", 1)[0]
                mod = mod.replace("::tokio_impl", "").replace("::async_std_impl", "")
                pk = (mod, None)
            groups.setdefault((pk, base), {})[fl] = fn
        lt = LeafTable(g, crate)
        for (pk, base), members in sorted(groups.items(), key=lambda x: repr(x[0])):
            if any(gpath(crate, m["path"]) in lt.prims for m in members.values()):
                continue  # fixed-width primitives are compared semantically below (width/endianness/type)
            if len(members) < 2 or "sync" not in members:
                if len(members) >= 1 and "sync" not in members and any(k in members for k in ("tokio", "astd")):
                    # async-only function: nothing to compare with
                    pass
                continue
            n_groups += 1
            ref = body(members["sync"])
            for fl in ("tokio", "astd"):
                if fl not in members:
                    continue
                n_fns += 1
                other = body(members[fl])
                if other != ref:
                    d = first_diff(ref, other)
                    fn = members[fl]
                    # not the same tree: the copies are interpreted on the same abstract inputs and must be indistinguishable
                    why = None
                    try:
                        from ..sibsem import sibling_semantic, async_plain
                        from ..minieval import Unsupported, Panic
                        if re.search(r"write_(un)?encrypted_(server|client)$", fn["name"]) and "traits::" in fn["path"]:
                            np_ = async_plain(F, fn)
                            if np_:
                                raise Unsupported("the async copy is not plain sequential async code: " + np_)
                            why, runs = writer_flavours_semantic(g, members["sync"], fn), 1
                        else:
                            why, runs = sibling_semantic(g, crate, members["sync"], fn)
                        if why is None:
                            n_sem += 1
                            n_sem_runs += runs
                            continue
                        why = f"{fn['path']} and its blocking sibling {members['sync']['name']} are told apart {why}"
                    except (Unsupported, Panic, KeyError, TypeError, ValueError, IndexError, AttributeError, RecursionError) as e:
                        why = (f"{fn['path']} differs from its blocking sibling {members['sync']['name']} beyond await/prefix/I-O trait: {d} "
                               f"(and the pair could not be compared by interpretation: {type(e).__name__}: {str(e)[:80]})")
                    ctx.violate("twin.flavours", f"{gpath(crate, fn['path'])}|vs-sync", why, fn["file"], fn["line"])
            if n_groups <= 3:
                ctx.sample({"siblings": {k: v["path"] for k, v in members.items()}})
    # primitive siblings: same width / endianness / type
    n_prim = 0
    for crate in ("wow_login_messages", "wow_world_messages"):
        lt = LeafTable(g, crate)
        by = {}
        for gp, (w, en, ty, fl) in lt.prims.items():
            base, _ = strip_flavour(gp.split("::")[-1])
            by.setdefault(base, {})[fl] = (w, en, ty, gp)
        for base, m in by.items():
            vals = {(v[0], v[1], v[2]) for v in m.values()}
            n_prim += len(m)
            if len(vals) != 1:
                ctx.violate("twin.flavours", f"{crate}|prim|{base}", f"{crate}: primitive reader {base} differs between flavours: {m}")
            # name must tell the truth (read_u32_le reads 4 bytes little endian as u32)
            w, en, ty = next(iter(vals))
            mm = re.match(r"^read_(\w+?)_(le|be)$", base)
            if mm and (mm.group(1) != ty or mm.group(2) != en):
                ctx.violate("twin.flavours", f"{crate}|prim-name|{base}", f"{crate}: {base} actually reads {ty} {en} ({w} bytes)")
    # D3: only chunk-insensitive transport calls
    n_io = 0
    for crate in ("wow_login_messages", "wow_world_messages"):
        F = g.f(crate)
        for m in F.all("mir"):
            for (span, callee, resolved, ga, mac) in m["calls"]:
                mm = TRANSPORT_TRAITS.match(callee)
                if not mm:
                    continue
                if not is_transport_self(ga):
                    continue
                n_io += 1
                meth = mm.group(2)
                trait = mm.group(1)
                ok = meth in READ_OK or meth in WRITE_OK or (("AsyncReadExt" in trait) and meth in TOKIO_FIXED)
                if not ok:
                    owner = m["path"]
                    ctx.violate("io.exact-only", f"{gpath(crate, owner)}|{trait}::{meth}",
                                f"{owner} calls {trait}::{meth} on the transport ({ga.split(', ')[0]}): its result depends on how the bytes are chunked; only read_exact-class calls are chunk-insensitive")
    # D4: the transport is not handed to foreign code.  A reader given to a std / tokio / async-std adaptor (BufReader, Take, Chain, a
    # decoder) is read by that adaptor with plain `read` calls: it may take more bytes from the stream than the message has (read-ahead)
    # or stop at a chunk boundary, so the result depends on how the bytes arrive.  Allowed: the flate2 encoder around the body writer and
    # wow_srp's header writers (every byte they are given goes out through write_all), and the I/O extension traits checked above.
    n_own = 0
    for crate in ("wow_login_messages", "wow_world_messages"):
        F = g.f(crate)
        for m in F.all("mir"):
            for (span, callee, resolved, ga, mac) in m["calls"]:
                tgt = resolved if resolved != "-" else callee
                if tgt.startswith(("crate::", "<crate::")) or callee.startswith(("crate::", "<crate::")) or TRANSPORT_TRAITS.match(callee):
                    continue
                first = (ga.split(", ")[0] if ga else "").replace("&mut ", "").replace("&", "").strip()
                is_r = first == "R" or (first.startswith("impl ") and "Read" in first)
                is_w = first == "W" or (first.startswith("impl ") and "Write" in first)
                if not (is_r or is_w):
                    continue
                n_own += 1
                if is_w and (tgt.startswith("flate2::zlib::write::ZlibEncoder::<W>::") or (tgt.startswith("wow_srp::") and "::write_encrypted_" in tgt)):
                    continue
                ctx.violate("io.transport-owner", f"{gpath(crate, m['path'])}|{tgt}",
                            f"{m['path']} hands the transport ({first}) to {tgt}: foreign code reads or writes it with calls that are not read_exact-class (a buffering "
                            f"reader takes bytes beyond the message from the stream; what the next read sees then depends on how the bytes were chunked)")
    ctx.rule("io.transport-owner", n_own, floor=10, note="calls of foreign functions instantiated with the transport type: only the flate2 encoder around a body writer and wow_srp's header writers")
    ctx.rule("twin.flavours", n_groups + n_prim, floor=TRIPLE_FLOOR, note=f"{n_groups} sibling groups ({n_fns} async copies compared; {n_sem} of them not tree-equal and decided by interpretation on {n_sem_runs} shared abstract inputs) + {n_prim} primitive readers")
    ctx.rule("io.exact-only", n_io, floor=IO_FLOOR, note="trait-method calls on transport-typed receivers (MIR, resolved)")
    ctx.assume("std/tokio/async-std read_exact loops until the buffer is full or fails with UnexpectedEof regardless of chunking and Pending (documented contract)")
    ctx.assume("tokio's read_u32_le-class methods are built on read_exact (documented)")
    return "other", EXPLANATION, {}
