"""C16 — ill-formed wowm is rejected with the specific diagnostic of the rule it breaks (structural clauses)."""
import itertools
import re

from .. import hir as H
from ..facts import facts
from ..minieval import Mini, Panic, Unsupported

EXPLANATION = (
    "D1: the exit-code constants of error_printer are pairwise distinct and each diverging error function hands exactly one of "
    "them to wowm_exit, which reaches process::exit with that code. D2: every error function has a call site outside the "
    "error printer that is reachable from main over the resolved call graph. D3: the version relations used for type lookup "
    "and clash detection (WorldVersion::covers/overlaps, LoginVersion::fullfills/overlaps) are interpreted abstractly for all "
    "pairs over a domain that is exhaustive for code that only compares components for equality, and must equal the prefix "
    "relation of versioning-with-tags.md. D4: the accepted interval of enumerator values (comparators in Definer::new combined "
    "with smallest_value/largest_value evaluated per integer type) must be exactly the value range of the base type. D5: the "
    "pairwise clash loop in check_versions may exclude a pair only by object identity. That every violation anywhere in a "
    "corpus reaches its check is not decided (quantifies over input programs)."
)
EP = "crate::error_printer"
INT_RANGES = {"U8": (0, 2**8 - 1), "U16": (0, 2**16 - 1), "U32": (0, 2**32 - 1), "U48": (0, 2**48 - 1), "U64": (0, 2**64 - 1),
              "I8": (-2**7, 2**7 - 1), "I16": (-2**15, 2**15 - 1), "I32": (-2**31, 2**31 - 1), "I64": (-2**63, 2**63 - 1)}


# which exit-code constant belongs to which diverging error function (read from error_printer/mod.rs and the must_err tests; one line per rule)
RULE_CODE = {
    "complex_not_found": "COMPLEX_NOT_FOUND", "variable_in_if_not_found": "MISSING_ENUMERATOR", "recursive_type": "RECURSIVE_TYPE", "enum_has_bitwise_and": "ENUM_HAS_BITWISE_AND",
    "flag_used_as_equals_or_not_equals": "FLAG_HAS_EQUALS", "object_has_no_versions": "NO_VERSIONS", "incorrect_opcode_for_message": "INCORRECT_OPCODE_FOR_MESSAGE",
    "invalid_self_size_position": "INVALID_SELF_SIZE", "invalid_definer_value": "INVALID_DEFINER_VALUE", "duplicate_definer_value": "DUPLICATE_DEFINER_VALUES",
    "invalid_integer_type": "INVALID_INTEGER_TYPE", "non_matching_if_statement_variables": "NON_MATCHING_IF_VARIABLES", "unsupported_upcast": "UNSUPPORTED_UPCAST",
    "overlapping_versions": "OVERLAPPING_VERSIONS", "object_has_both_versions": "BOTH_LOGIN_AND_WORLD_VERSIONS", "duplicate_field_names": "DUPLICATE_FIELD_NAMES",
    "opcode_has_incorrect_name": "OPCODE_HAS_INCORRECT_NAME", "message_not_in_index": "MESSAGE_NOT_IN_INDEX", "type_is_upcast_to_same": "TYPE_IS_UPCAST_TO_SAME",
    "flag_with_signed_type": "FLAG_WITH_SIGNED_TYPE", "definer_with_invalid_value": "DEFINER_WITH_INVALID_VALUE", "version_tags_overlap": "VERSION_TAGS_OVERLAP",
}


def check_codes(ctx, F):
    consts = {}
    for p in F.paths("const"):
        if p.startswith(EP + "::") and p.count("::") == 2:
            c = F.const(p)
            if c and c.get("ty") == "i32" and c.get("val") is not None:
                consts[p] = int(c["val"])
    byval = {}
    for p, v in consts.items():
        byval.setdefault(v, []).append(p.split("::")[-1])
    for v, names in byval.items():
        if len(names) > 1:
            ctx.violate("err.codes", f"dup|{v}", f"exit status {v} is shared by {sorted(names)}: two rules would be indistinguishable")
    used = {}
    fns = 0
    for fn in F.all("fn", lambda p: p.startswith(EP + "::") and p.count("::") == 2):
        if fn.get("hir") is None or fn["name"] == "wowm_exit":
            continue
        codes = []
        for x in H.walk(fn["hir"]):
            if H.tag(x) == "call" and H.call_path(x) == EP + "::wowm_exit":
                a = H.call_args(x)
                cp = H.path_of(a[1]) if len(a) == 2 else None
                codes.append(cp)
        if not codes:
            continue
        fns += 1
        if fn["output"] != "!":
            ctx.violate("err.codes", f"{fn['name']}|returns", f"{fn['path']} calls wowm_exit but is not declared diverging (-> !)", fn["file"], fn["line"])
        if len(set(codes)) != 1 or codes[0] not in consts:
            ctx.violate("err.codes", f"{fn['name']}|code", f"{fn['path']} passes {codes} to wowm_exit; exactly one of the exit-code constants is required", fn["file"], fn["line"])
        else:
            used.setdefault(codes[0], []).append(fn["name"])
            want = RULE_CODE.get(fn["name"])
            if want is None:
                ctx.violate("err.codes", f"{fn['name']}|untabled", f"{fn['path']} is an error function without an entry in the rule/exit-code table of the checker — review", fn["file"], fn["line"])
            elif codes[0].split("::")[-1] != want:
                ctx.violate("err.codes", f"{fn['name']}|rule-code", f"{fn['path']} stops the generator with {codes[0].split('::')[-1]}, the exit status of another rule; its own is {want}", fn["file"], fn["line"])
    for p in consts:
        if p not in used:
            ctx.violate("err.codes", f"{p.split('::')[-1]}|unused", f"exit code {p.split('::')[-1]} is never passed to wowm_exit: its rule cannot be reported")
    we = F.fn(EP + "::wowm_exit")
    if we is None:
        ctx.violate("err.codes", "anchor|wowm_exit", "error_printer::wowm_exit not found")
    else:
        ok = any(H.tag(x) == "call" and (H.call_path(x) or "") == "std::process::exit" and H.local_name(H.call_args(x)[0]) == we["params"][1][1] for x in H.walk(we["hir"]))
        if not ok:
            ctx.violate("err.codes", "wowm_exit|exit", "wowm_exit does not end in std::process::exit(code) with its code parameter", we["file"], we["line"])
    ctx.rule("err.codes", len(consts) + fns, floor=44, note=f"{len(consts)} exit codes, {fns} diverging error functions")
    return {fnn for v in used.values() for fnn in v}


def check_reach(ctx, F, err_fns):
    # resolved call edges from MIR
    edges = {}
    for m in F.all("mir"):
        src = m["path"]
        for c in m.get("calls", []):
            for callee in (c[1], c[2]):
                if callee:
                    edges.setdefault(src, set()).add(callee)
    roots = [p for p in edges if p == "crate::main" or p.endswith("::main")]
    seen = set(roots)
    work = list(roots)
    while work:
        x = work.pop()
        for y in edges.get(x, ()):
            # closures are separate bodies named parent::{closure#n}
            if y not in seen:
                seen.add(y)
                work.append(y)
        for y in list(edges):
            if y.startswith(x + "::{closure") and y not in seen:
                seen.add(y)
                work.append(y)
    n = 0
    for name in sorted(err_fns):
        target = f"{EP}::{name}"
        callers = sorted(p for p, cs in edges.items() if target in cs and not p.startswith(EP + "::"))
        n += len(callers)
        live = [c for c in callers if c in seen or any(c.startswith(s + "::{closure") for s in seen)]
        if not callers:
            ctx.violate("err.reach", f"{name}|nocaller", f"error function {name} is never called outside the error printer: its rule is not enforced anywhere")
        elif not live:
            ctx.violate("err.reach", f"{name}|dead", f"error function {name} is only called from code that main cannot reach ({callers[:3]})")
    ctx.rule("err.reach", n, floor=22, note=f"call sites of error functions; {len(seen)} bodies reachable from main")


def world_versions():
    vals = [1, 2]
    out = [("All",)]
    out += [("Major", m) for m in vals]
    out += [("Minor", m, i) for m in vals for i in vals]
    out += [("Patch", m, i, p) for m in vals for i in vals for p in vals]
    out += [("Exact", m, i, p, e) for m in vals for i in vals for p in vals for e in vals]
    return out


def wv(v, prefix):
    p = f"{prefix}::WorldVersion::{v[0]}"
    return ("variant", p) if v[0] == "All" else ("variant", p, list(v[1:]))


def covers_spec(a, b):
    """a covers b: a's components are a prefix of b's (All covers everything; only All covers All)"""
    if a[0] == "All":
        return True
    if b[0] == "All":
        return False
    ca, cb = a[1:], b[1:]
    return len(ca) <= len(cb) and cb[:len(ca)] == ca


def overlaps_spec(a, b):
    return covers_spec(a, b) or covers_spec(b, a)


def check_versions_rel(ctx, FB):
    F = FB["wow_message_parser"]
    pre = "wow_message_parser::parser::types::version"
    n = 0
    base = "crate::parser::types::version::"
    dom = world_versions()
    for name, spec in (("overlaps", overlaps_spec), ("covers", covers_spec)):
        fn = F.fn(base + "WorldVersion::" + name)
        if fn is None:
            ctx.violate("ver.tables", f"anchor|World|{name}", f"WorldVersion::{name} not found")
            continue
        bad = None
        try:
            for a, b in itertools.product(dom, dom):
                n += 1
                got = Mini(FB, "wow_message_parser").call_fn(fn["path"], [wv(a, pre), wv(b, pre)])
                if got != spec(a, b):
                    bad = (a, b, got)
                    break
        except (Unsupported, Panic) as e:
            ctx.violate("ver.tables", f"World|{name}|shape", f"WorldVersion::{name}: shape not recognised — review ({e})", fn["file"], fn["line"])
            continue
        if bad:
            a, b, got = bad
            ctx.violate("ver.tables", f"World|{name}", f"WorldVersion::{name}({fmt(a)}, {fmt(b)}) = {got}, the prefix relation of versioning-with-tags.md gives {spec(a, b)}", fn["file"], fn["line"])
        # the finite domain is exhaustive only if components are used through equality alone
        for x in H.walk(fn["hir"]):
            if H.tag(x) == "bin" and x[2] in ("Lt", "Le", "Gt", "Ge", "Add", "Sub", "Mul"):
                ctx.violate("ver.tables", f"World|{name}|nonequality", f"WorldVersion::{name} uses `{x[2]}` on version components; the two-valued domain is exhaustive only for equality tests — review", fn["file"], fn["line"])
                break
    ldom = [("All",), ("Specific", 1), ("Specific", 2)]

    def lv(v, _pre=None):
        p = f"{pre}::LoginVersion::{v[0]}"
        return ("variant", p) if v[0] == "All" else ("variant", p, list(v[1:]))

    for name, spec in (("overlaps", lambda a, b: a[0] == "All" or b[0] == "All" or a == b), ("fullfills", lambda a, b: a[0] == "All" or a == b)):
        fn = F.fn(base + "LoginVersion::" + name)
        if fn is None:
            ctx.violate("ver.tables", f"anchor|Login|{name}", f"LoginVersion::{name} not found")
            continue
        try:
            for a, b in itertools.product(ldom, ldom):
                n += 1
                got = Mini(FB, "wow_message_parser").call_fn(fn["path"], [lv(a), lv(b)])
                if got != spec(a, b):
                    ctx.violate("ver.tables", f"Login|{name}", f"LoginVersion::{name}({fmt(a)}, {fmt(b)}) = {got}, expected {spec(a, b)}", fn["file"], fn["line"])
                    break
        except (Unsupported, Panic) as e:
            ctx.violate("ver.tables", f"Login|{name}|shape", f"LoginVersion::{name}: shape not recognised — review ({e})", fn["file"], fn["line"])
    # ---- set-level relations used by type lookup and clash detection ------------------------------------------------------
    wuni = [("All",), ("Major", 1), ("Minor", 1, 1), ("Major", 2), ("Patch", 2, 1, 1), ("Exact", 2, 1, 1, 1)]
    luni = [("All",), ("Specific", 1), ("Specific", 2)]

    def subsets(u):
        out = [[x] for x in u]
        out += [[a, b] for a, b in itertools.combinations(u, 2)]
        if ctx.tier == "thorough":
            out += [list(c) for c in itertools.combinations(u, 3)]
        return out

    av = f"{pre}::AllVersions"
    for name, spec_w, spec_l in (
        ("fulfills_all", lambda A, B: all(any(covers_spec(a, b) for a in A) for b in B), lambda A, B: all(any(a[0] == "All" or a == b for a in A) for b in B)),
        ("has_version_intersections", lambda A, B: any(overlaps_spec(a, b) for a in A for b in B), lambda A, B: any(a[0] == "All" or b[0] == "All" or a == b for a in A for b in B)),
    ):
        fn = F.fn(base + "AllVersions::" + name)
        if fn is None:
            ctx.violate("ver.tables", f"anchor|All|{name}", f"AllVersions::{name} not found")
            continue
        try:
            bad = None
            for kind, uni, mk, spec in (("World", wuni, lambda v: wv(v, pre), spec_w), ("Login", luni, lv, spec_l)):
                for A in subsets(uni):
                    for B in subsets(uni):
                        n += 1
                        a = ("variant", f"{av}::{kind}", [[mk(x) for x in sorted(A, key=str)]])
                        b = ("variant", f"{av}::{kind}", [[mk(x) for x in sorted(B, key=str)]])
                        got = Mini(FB, "wow_message_parser").call_fn(fn["path"], [a, b])
                        if got != spec(A, B):
                            bad = (kind, A, B, got, spec(A, B))
                            break
                    if bad:
                        break
                if bad:
                    break
            # different kinds never relate
            a = ("variant", f"{av}::World", [[wv(("All",), pre)]])
            b = ("variant", f"{av}::Login", [[lv(("All",))]])
            for x, y in ((a, b), (b, a)):
                n += 1
                if Mini(FB, "wow_message_parser").call_fn(fn["path"], [x, y]) is not False:
                    bad = ("mixed", ["*"], ["*"], True, False)
            if bad:
                kind, A, B, got, want = bad
                ctx.violate("ver.tables", f"All|{name}", f"AllVersions::{name}({kind} {{{', '.join(fmt(x) for x in A)}}}, {{{', '.join(fmt(x) for x in B)}}}) = {got}, "
                            f"the definition ({'every required version is covered by some provided version' if name == 'fulfills_all' else 'some pair of versions overlaps'}) gives {want}", fn["file"], fn["line"])
        except (Unsupported, Panic) as e:
            ctx.violate("ver.tables", f"All|{name}|shape", f"AllVersions::{name}: shape not recognised — review ({e})", fn["file"], fn["line"])
    ctx.rule("ver.tables", n, floor=2890, note="version pairs evaluated by abstract interpretation of covers/overlaps/fullfills against the prefix relation")


def fmt(v):
    return "*" if v[0] == "All" else ".".join(str(x) for x in v[1:])


def check_int_bounds(ctx, FB):
    """Definer::new interpreted on definers whose only (or second) enumerator has a value at and next to the limits of the base type: the
    definer-value diagnostic must be reached exactly for the values the type cannot hold — whatever shape the range test has."""
    F = FB["wow_message_parser"]
    dn = F.fn("crate::parser::types::definer::Definer::new")
    n = 0
    if dn is None:
        ctx.violate("int.bounds", "anchor|Definer::new", "Definer::new not found")
        return
    it = "wow_message_parser::parser::types::IntegerType"

    def hit(_a):
        raise _Hit("definer_with_invalid_value")
    for var, (lo, hi) in INT_RANGES.items():
        n += 1
        verdict = {}
        try:
            for cand in (lo - 1, lo, hi, hi + 1):
                for fields in ([_field("A", cand, str(cand))], [_field("A", lo, str(lo)), _field("B", cand, str(cand))]):
                    if len(fields) == 2 and cand == lo:
                        continue
                    m = Mini(FB, "wow_message_parser")
                    m.overrides = {"::error_printer::definer_with_invalid_value": hit, "::Definer::self_check": lambda a: ()}
                    try:
                        m.call_fn(dn["path"], ["T", ("variant", "wow_message_parser::rust_printer::DefinerType::Enum"), [_fill(f) for f in fields], ("variant", f"{it}::{var}"), None, [], None])
                        ok = True
                    except _Hit:
                        ok = False
                    verdict[(cand, len(fields))] = ok
        except (Unsupported, Panic) as e:
            ctx.violate("int.bounds", f"{var}|shape", f"enumerator range check for {var}: Definer::new not interpretable — review ({e})", dn["file"], dn["line"])
            continue
        for (cand, k), ok in verdict.items():
            want = lo <= cand <= hi
            if ok != want:
                ctx.violate("int.bounds", f"{var}", f"enumerator values of a definer with base type {var.lower()}: the value {cand} ({'first' if k == 1 else 'second'} enumerator) is {'accepted' if ok else 'rejected'}, "
                            f"the type holds exactly [{lo}, {hi}]: {'an out-of-range enumerator is not reported with the definer-value diagnostic' if ok else 'a valid definer is rejected'}", dn["file"], dn["line"])
                break
    ctx.rule("int.bounds", n, floor=9, note="Definer::new interpreted per base integer type on enumerator values lo-1, lo, hi, hi+1 (as first and as second enumerator): accepted exactly inside the type's value range")


def check_clash_loop(ctx, F):
    fn = F.fn("crate::parser::types::objects::conversion::check_versions")
    if fn is None:
        ctx.violate("ver.clash", "anchor", "conversion::check_versions not found")
        return
    conds = []
    for x in H.walk(fn["hir"]):
        if H.tag(x) == "if" and any(H.tag(y) == "call" and (H.call_path(y) or "").endswith("::overlapping_versions") for y in H.walk(x[2])):
            conds.append(x[1])
    if len(conds) != 1:
        ctx.violate("ver.clash", "shape", "check_versions: expected exactly one guarded call of overlapping_versions — review", fn["file"], fn["line"])
        return
    parts = []

    def flat(n):
        n = H.strip(n)
        if H.tag(n) == "bin" and n[2] == "And":
            flat(n[4])
            flat(n[5])
        else:
            parts.append(n)

    flat(conds[0])
    kinds = []
    for p in parts:
        neg = False
        q = p
        if H.tag(q) == "un" and q[2] == "Not":
            neg = True
            q = H.strip(q[4])
        if H.tag(q) == "bin" and q[2] == "Eq" and {(H.field_chain(q[4]) or (None, [None]))[1][-1], (H.field_chain(q[5]) or (None, [None]))[1][-1]} == {"name"}:
            kinds.append("name-eq")
        elif H.tag(q) == "mcall" and H.mcall(q)["name"] == "has_version_intersections" and not neg:
            kinds.append("intersect")
        elif neg and H.tag(q) == "call" and (H.call_path(q) or "").endswith("ptr::eq"):
            kinds.append("identity")
        elif H.tag(q) == "bin" and q[2] == "Ne" and all(H.tag(H.strip(s)) == "local" for s in (q[4], q[5])):
            kinds.append("identity")  # index inequality of the two loop counters
        else:
            kinds.append("other:" + H.short(p, maxlen=120))
    others = [k for k in kinds if k.startswith("other:")]
    if sorted(k for k in kinds if not k.startswith("other:")) != ["identity", "intersect", "name-eq"] or others:
        ctx.violate("ver.clash", "guard",
                    "check_versions: two objects clash iff they are different objects with the same name and intersecting versions; the guard is "
                    f"{kinds}. Excluding pairs by anything other than object identity (pointer / loop index) also hides clashes between different objects that share that attribute, "
                    "e.g. the copies made by paste_versions share one file position", fn["file"], fn["line"])
    ctx.rule("ver.clash", 1, floor=1, note="guard of the pairwise version-clash loop: name equality, version intersection, identity exclusion only")


# ---- rule witnesses: each validation function interpreted on minimal ill-formed / well-formed instances -------------------------
class _Hit(Exception):
    def __init__(self, name):
        self.name = name


_D = "crate::parser::types::definer::"
_PC = "crate::parser::types::parsed::"
_PSM = "wow_message_parser::parser::types::parsed::parsed_struct_member::ParsedStructMember::"


_ADT_FIELDS = {}


_ADT_BY_NAME = {}


def _relocate(path, kind="struct"):
    """witness values name their types by module path; if a type has moved, find it again by its name (when that is unambiguous)"""
    if not _ADT_BY_NAME:
        for a in facts("wow_message_parser").all("adt"):
            _ADT_BY_NAME.setdefault(a["path"].split("::")[-1], []).append(a["path"])
            _ADT_BY_NAME.setdefault("#paths", set()).add(a["path"])
    paths = _ADT_BY_NAME["#paths"]
    canon = path.startswith("wow_message_parser::")
    norm = "crate::" + path[len("wow_message_parser::"):] if canon else path
    segs = norm.split("::")
    parent = "::".join(segs[:-1])
    if (kind == "variant" and parent in paths) or (kind == "struct" and (norm in paths or parent in paths)):
        return path
    for k in ((2,) if kind == "variant" else (1, 2)):
        if len(segs) > k:
            hits = [h for h in _ADT_BY_NAME.get(segs[-k], []) if isinstance(h, str)]
            if len(hits) == 1:
                new = "::".join([hits[0]] + segs[len(segs) - k + 1:])
                return "wow_message_parser::" + new[len("crate::"):] if canon else new
    return path


def _fill(v):
    """add the fields the witness does not care about (None) so that a new field in the repository does not break the instance"""
    if isinstance(v, tuple) and v and v[0] in ("struct", "variant") and isinstance(v[1], str):
        v = (v[0], _relocate(v[1], v[0])) + tuple(v[2:])
    if isinstance(v, tuple) and v and v[0] == "struct":
        if not _ADT_FIELDS:
            for a in facts("wow_message_parser").all("adt"):
                if a["kind"] == "Struct" and a["variants"]:
                    _ADT_FIELDS[a["path"]] = [(f[0], f[1]) for f in a["variants"][0][2]]
        for f, ty in _ADT_FIELDS.get(v[1], []):
            dflt = "None" if ty.startswith("std::option::Option") else [] if ty.startswith(("std::vec::Vec", "std::collections::BTreeSet", "std::collections::btree::set::BTreeSet")) else False if ty == "bool" else None
            if v[2].get(f, 0) is None and dflt is not None:
                v[2][f] = dflt
            v[2].setdefault(f, dflt)
        for k in list(v[2]):
            v[2][k] = _fill(v[2][k])
        return v
    if isinstance(v, tuple) and v and v[0] == "variant" and len(v) > 2:
        if isinstance(v[2], list):
            return (v[0], v[1], [_fill(x) for x in v[2]])
        if isinstance(v[2], dict):
            return (v[0], v[1], {k: _fill(x) for k, x in v[2].items()})
    if isinstance(v, list):
        return [_fill(x) for x in v]
    return v


def _field(name, i, orig):
    return ("struct", _D + "DefinerField", {"name": name, "value": ("struct", _D + "DefinerValue", {"int": i, "original": orig}), "tags": None})


def _definer(fields, kind="Enum"):
    return ("struct", _D + "Definer", {"name": "T", "definer_ty": ("variant", "wow_message_parser::rust_printer::DefinerType::" + kind), "fields": fields, "basic_type": None,
                                       "tags": None, "objects_used_in": [], "file_info": None})


def _dfn(name, ty=None):
    return ("variant", _PSM + "Definition", [("struct", _PC + "parsed_struct_member::ParsedStructMemberDefinition",
                                              {"name": name, "struct_type": ty, "value": None, "verified_value": None, "used_as_size_in": None, "used_in_if": None, "tags": None})])


def _ifs(members, else_ifs=(), els=(), eq="Equals", var="x"):
    E = "crate::parser::types::if_statement::Equation::"
    equation = ("struct", E + eq, {"values": ["A"]} if eq != "NotEquals" else {"value": "A"})
    return ("struct", _PC + "parsed_if_statement::ParsedIfStatement", {"variable_name": var, "equation": equation, "members": list(members), "else_ifs": list(else_ifs),
                                                                        "else_statement_members": list(els), "original_ty": None})


def _ifm(*a, **k):
    return ("variant", _PSM + "IfStatement", [_ifs(*a, **k)])


def _opt(members):
    return ("variant", _PSM + "OptionalStatement", [("struct", _PC + "parsed_optional::ParsedOptionalStatement", {"name": "o", "members": list(members)})])


def _cont(members):
    return ("struct", _PC + "parsed_container::ParsedContainer", {"name": "C", "object_type": None, "members": list(members), "tags": None, "file_info": None})


def _tags(world, login):
    return ("struct", _PC + "parsed_tags::ParsedTags", {"world_versions": list(world), "login_versions": list(login), "description": None, "compressed": None, "comment": None,
                                                          "display": None, "paste_versions": [], "skip": None, "test": None, "unimplemented": None, "non_network_type": None,
                                                          "used_in_update_mask": None, "zero_is_always_valid": None})


def witness_table():
    """(rule's error function or None, check function, arguments, extra overrides, description)"""
    T = []
    sc = _D + "Definer::self_check"
    T += [("duplicate_definer_value", sc, [_definer([_field("A", 10, "10"), _field("B", 10, "10")])], {}, "two enumerators with the same value, same spelling"),
          ("duplicate_definer_value", sc, [_definer([_field("A", 10, "10"), _field("B", 10, "0x0A")])], {}, "two enumerators with the same value spelled 10 and 0x0A"),
          ("duplicate_definer_value", sc, [_definer([_field("A", 255, "0x00ff"), _field("C", 7, "7"), _field("B", 255, "0x00FF")])], {}, "equal values 0x00ff / 0x00FF, not adjacent"),
          (None, sc, [_definer([_field("A", 10, "10"), _field("B", 11, "11"), _field("C", 0, "0")])], {}, "distinct values"),
          (None, sc, [_definer([_field("A", 1, "1"), _field("B", 16, "0x10")])], {}, "distinct values 1 and 0x10")]
    pd = _PC + "parsed_container::ParsedContainer::self_check"
    a, b, c = _dfn("a"), _dfn("b"), _dfn("c")
    T += [("duplicate_field_names", pd, [_cont([a, b, _dfn("a")])], {}, "member name repeated at top level"),
          ("duplicate_field_names", pd, [_cont([a, _ifm([b, _dfn("a")])])], {}, "member name repeated inside an if arm"),
          ("duplicate_field_names", pd, [_cont([a, _ifm([b], else_ifs=[_ifs([_dfn("a")])])])], {}, "member name repeated inside an else-if arm"),
          ("duplicate_field_names", pd, [_cont([a, _ifm([b], els=[_dfn("a")])])], {}, "member name repeated inside the else arm"),
          ("duplicate_field_names", pd, [_cont([a, _opt([_dfn("a")])])], {}, "member name repeated inside an optional block"),
          ("duplicate_field_names", pd, [_cont([_ifm([b], els=[_ifm([c], else_ifs=[_ifs([_dfn("b")])])])])], {}, "member name repeated in a nested if"),
          (None, pd, [_cont([a, _ifm([b], else_ifs=[_ifs([c])], els=[_dfn("d")]), _opt([_dfn("e")])])], {}, "distinct names in every arm")]
    ident = ("struct", "crate::parser::types::parsed::parsed_ty::ParsedType::Identifier", {"s": "T", "upcast": "None"})
    ck = "crate::parser::types::objects::conversion::container::check_if_statement_operators"
    x = _dfn("x", ident)
    for kind, eq, want in (("Enum", "Equals", None), ("Enum", "NotEquals", None), ("Enum", "BitwiseAnd", "enum_has_bitwise_and"),
                           ("Flag", "BitwiseAnd", None), ("Flag", "Equals", "flag_used_as_equals_or_not_equals"), ("Flag", "NotEquals", "flag_used_as_equals_or_not_equals")):
        ov = {"::get_definer": (lambda d: (lambda args: ("Some", d)))(_definer([], kind))}
        T.append((want, ck, [_cont([x, _ifm([a], eq=eq)]), []], ov, f"`if (x {'&' if eq == 'BitwiseAnd' else '==' if eq == 'Equals' else '!='} A)` on a {kind.lower()} member"))
        T.append((want, ck, [_cont([x, _opt([_ifm([a], eq=eq)])]), []], ov, f"the same inside an optional block ({kind.lower()}, {eq})"))
        T.append((want, ck, [_cont([x, _dfn("y", ident), _ifm([a], eq="Equals" if kind == "Enum" else "BitwiseAnd", els=[_ifm([b], eq=eq, var="y")])]), []], ov, f"the same nested in an else arm ({kind.lower()}, {eq})"))
    # position of the `= self.size` member: only after constant-sized plain members
    sfb = "crate::parser::types::objects::conversion::size_of_fields_before"
    ov_sz = {"::sizes_parsed": lambda args: ("sz", args[0]), "::is_constant": lambda args: ("Some", args[0][1]) if args[0][1] is not None else "None"}
    manual = ("Some", ("struct", "crate::parser::types::ParsedContainerValue", {"identifier": "self.size"}))

    def mdef(name, ty, value="None"):
        d = _dfn(name, ty)
        d[2][0][2]["value"] = value
        return d
    for members, want, desc in (
        ([mdef("a", 1), mdef("size", 2, manual), mdef("s", None)], None, "self.size member after a constant-sized member"),
        ([mdef("size", 2, manual), mdef("s", None)], None, "self.size member first"),
        ([mdef("s", None), mdef("size", 2, manual)], "invalid_self_size_position", "self.size member after a variable-sized member"),
        ([_ifm([mdef("b", 1)]), mdef("size", 2, manual)], "invalid_self_size_position", "self.size member after an if statement"),
        ([_opt([mdef("b", 1)]), mdef("size", 2, manual)], "invalid_self_size_position", "self.size member after an optional block"),
        ([mdef("a", 1), mdef("b", 4)], None, "no self.size member at all"),
    ):
        T.append((want, sfb, ["C", _cont(members), [], [], members, None], ov_sz, desc))
    # all conditions of one if statement test the same variable
    eqn = "crate::parser::types::if_statement::Equation::new"
    CND = "crate::parser::types::parsed::parsed_if_statement::Condition"
    OP = "wow_message_parser::parser::types::if_statement::Operator::"

    def cond(var, val, op="Equals"):
        return ("struct", CND, {"value": var, "operator": ("variant", OP + op), "equals_value": val})
    T += [(None, eqn, [[cond("a", "X"), cond("a", "Y")], "C", None], {}, "`if (a == X || a == Y)`"),
          ("non_matching_if_statement_variables", eqn, [[cond("a", "X"), cond("b", "Y")], "C", None], {}, "`if (a == X || b == Y)` (two variables in one condition)"),
          ("non_matching_if_statement_variables", eqn, [[cond("a", "X", "BitwiseAnd"), cond("a", "Y", "BitwiseAnd"), cond("c", "Z", "BitwiseAnd")], "C", None], {}, "`if (a & X || a & Y || c & Z)`"),
          (None, eqn, [[cond("a", "X", "NotEquals")], "C", None], {}, "`if (a != X)`")]
    # opcode index (stats): a world message must be in the expansion's index under its own name and opcode
    gdf = "crate::parser::stats::get_data_for"
    DATA = "crate::parser::stats::Data"

    def data(name, opcode):
        return ("struct", DATA, {"name": name, "opcode": opcode, "definition": False, "tests": 0, "reason": None})

    def msg(name, opcode):
        return ("struct", "crate::parser::types::container::Container", {"name": name, "#opcode": opcode})
    ov_st = {"::ObjectTags::new_with_version": lambda a: ("tags",), "::fulfills_all": lambda a: True, "::get_real_name": lambda a: a[0], "::unimplemented": lambda a: False,
             "::Container::tests": lambda a: [], "::Container::opcode": lambda a: a[0][2]["#opcode"], "::Container::tags": lambda a: ("tags",), "::Container::file_info": lambda a: None,
             "Into::into": lambda a: a[0], "::Objects::messages": lambda a: a[0][2]["messages"]}
    index = [data("CMSG_A", 1), data("CMSG_B", 2), data("SMSG_C", 5)]
    for mname, mop, want, desc in (
        ("CMSG_A", 1, None, "message listed in the index under its name and opcode"),
        ("SMSG_C", 5, None, "last message of the index"),
        ("CMSG_A", 2, "incorrect_opcode_for_message", "message whose opcode is the one the index gives to another message"),
        ("CMSG_A", 9, "incorrect_opcode_for_message", "message whose opcode is not in the index at all"),
        ("CMSG_Z", 2, "opcode_has_incorrect_name", "unknown name on an opcode the index gives to another message"),
        ("CMSG_Z", 9, "message_not_in_index", "message that is not in the index by name or opcode"),
    ):
        objs = ("struct", "crate::parser::types::objects::Objects", {"messages": [msg(mname, mop)], "enums": [], "flags": [], "structs": [], "tests": []})
        T.append((want, gdf, [("variant", "wow_message_parser::parser::types::version::MajorWorldVersion::Vanilla"), index, objs], ov_st, f"{desc} ({mname} = {mop:#x})"))
    # version clashes: every pair of different same-named objects with intersecting versions, wherever they stand in the input
    cv = "crate::parser::types::objects::conversion::check_versions"

    def vobj(name, versions, line=1):
        # the name is a list of characters: equal by value, distinct by identity (the code tells objects apart by the address of their name)
        fi = ("struct", "crate::file_info::FileInfo", {"file_name": "a.wowm", "path": "a.wowm", "start_position": line, "end_position": line + 3})
        return ("struct", "crate::parser::types::parsed::parsed_container::ParsedContainer", {"name": list(name), "tags": ("tags", tuple(sorted(versions))), "file_info": fi, "members": [], "object_type": None})
    ov_cv = {"::has_version_intersections": lambda a: bool(set(a[0][1]) & set(a[1][1])), "::all_versions": lambda a: a[0][1],
             "::ParsedContainer::tags": lambda a: a[0][2]["tags"], "::Definer::tags": lambda a: a[0][2]["tags"]}
    for objs, want, desc in (
        ([vobj("T", ["1.12"], 1), vobj("T", ["2.4.3"], 1), vobj("T", ["3.3.5"], 20)], None, "three definitions of T for 1.12 / 2.4.3 / 3.3.5"),
        ([vobj("T", ["1.12"]), vobj("U", ["1.12"])], None, "different names for the same version"),
        ([vobj("T", ["1.12"]), vobj("T", ["1.12"])], "overlapping_versions", "two definitions of T for 1.12"),
        ([vobj("T", ["1.12", "3.3.5"]), vobj("T", ["2.4.3"]), vobj("T", ["3.3.5"])], "overlapping_versions", "T{1.12 3.3.5}, T{2.4.3}, T{3.3.5}: the clash is between the first and the third"),
        ([vobj("T", ["3.3.5"]), vobj("A", ["1.12"]), vobj("T", ["2.4.3"]), vobj("B", ["1.12"]), vobj("T", ["1.12", "3.3.5"])], "overlapping_versions", "clashing definitions of T separated by other objects, in descending order"),
        ([vobj("T", ["1.12", "2.4.3"]), vobj("T", ["2.4.3", "3.3.5"], 9)], "overlapping_versions", "T{1.12 2.4.3} and T{2.4.3 3.3.5} share 2.4.3"),
        ([vobj("T", ["2.4.3"], 5), vobj("T", ["2.4.3", "3.3.5"], 5)], "overlapping_versions", "two clashing copies of T that share one file position (as paste_versions produces them)"),
    ):
        T.append((want, cv, [objs, []], ov_cv, desc))

    # enumerators named in an if condition must exist in the definer of the variable (every value of an `||` list, every operator)
    ve = "crate::parser::types::objects::conversion::container::validate_equation"
    dAB = _definer([_field("A", 1, "1"), _field("B", 2, "2")])

    def ifs_vals(eq, vals):
        E = "crate::parser::types::if_statement::Equation::"
        equation = ("struct", E + eq, {"values": list(vals)} if eq != "NotEquals" else {"value": vals[0]})
        return ("struct", _PC + "parsed_if_statement::ParsedIfStatement", {"variable_name": "x", "equation": equation, "members": [], "else_ifs": [], "else_statement_members": [], "original_ty": None})
    for eq, vals, want, desc in (("Equals", ["A"], None, "if (x == A), A declared"), ("Equals", ["A", "B"], None, "if (x == A || x == B), both declared"),
                                 ("Equals", ["Z"], "variable_in_if_not_found", "if (x == Z), Z not an enumerator"),
                                 ("Equals", ["A", "Z"], "variable_in_if_not_found", "if (x == A || x == Z): the second enumerator does not exist"),
                                 ("Equals", ["A", "B", "Z"], "variable_in_if_not_found", "if (x == A || x == B || x == Z): the last enumerator does not exist"),
                                 ("BitwiseAnd", ["A", "Z"], "variable_in_if_not_found", "if (x & A || x & Z): the second enumerator does not exist"),
                                 ("BitwiseAnd", ["B"], None, "if (x & B), B declared"),
                                 ("NotEquals", ["Z"], "variable_in_if_not_found", "if (x != Z), Z not an enumerator"), ("NotEquals", ["B"], None, "if (x != B), B declared")):
        T.append((want, ve, [_cont([]), ifs_vals(eq, vals), dAB], {}, desc))
    # base integer type of an enum / flag
    ifs_ = "crate::parser::types::IntegerType::from_str"
    for name, want in (("u8", None), ("u16", None), ("u32", None), ("u64", None), ("i8", None), ("i16", None), ("i32", None), ("i64", None), ("u48", None),
                       ("f32", "invalid_integer_type"), ("Bool", "invalid_integer_type"), ("CString", "invalid_integer_type"), ("Guid", "invalid_integer_type"),
                       ("u128", "invalid_integer_type"), ("MyEnum", "invalid_integer_type"), ("U8", "invalid_integer_type")):
        T.append((want, ifs_, [name, "T", None], {}, f"enum T : {name}"))
    # an upcast `(u32)X` is only supported on a user type
    wu = "crate::parser::types::parsed::parsed_ty::ParsedType::with_upcast"
    ov_up = {"::IntegerType::from_str": lambda a: ("int", a[0])}
    for name, want in (("MyEnum", None), ("Other", None), ("u8", "unsupported_upcast"), ("u32", "unsupported_upcast"), ("CString", "unsupported_upcast"), ("Guid", "unsupported_upcast"),
                       ("Bool", "unsupported_upcast"), ("f32", "unsupported_upcast"), ("PackedGuid", "unsupported_upcast"), ("UpdateMask", "unsupported_upcast")):
        T.append((want, wu, [name, "u32", "C", "m", None], ov_up, f"(u32){name} m"))

    # version tags of one object may not overlap each other (`versions = "1.12 1.12.1"`)
    iwv = _PC + "parsed_tags::ParsedTags::insert_world_version"
    VP = "wow_message_parser::parser::types::version"
    for have, new, want, desc in (
        ([], ("Minor", 1, 12), None, "first version of an object"),
        ([("Minor", 1, 12)], ("Patch", 2, 4, 3), None, "1.12 then 2.4.3"),
        ([("Minor", 1, 12), ("Patch", 2, 4, 3)], ("Major", 3), None, "1.12 2.4.3 then 3"),
        ([("Minor", 1, 12)], ("Patch", 1, 12, 1), "version_tags_overlap", "1.12 then 1.12.1 (the first covers the second)"),
        ([("Patch", 2, 4, 3)], ("Major", 2), "version_tags_overlap", "2.4.3 then 2 (the second covers the first)"),
        ([("Minor", 1, 12), ("Patch", 2, 4, 3)], ("Minor", 2, 4), "version_tags_overlap", "1.12 2.4.3 then 2.4: overlaps the second tag only"),
        ([("Minor", 1, 12), ("Patch", 2, 4, 3), ("Major", 3)], ("Exact", 3, 3, 5, 12340), "version_tags_overlap", "1.12 2.4.3 3 then 3.3.5.12340: overlaps the last tag only"),
        ([("Minor", 1, 12)], ("Minor", 1, 12), "version_tags_overlap", "the same version twice"),
    ):
        tg = _tags([wv(h, VP) for h in have], [])
        T.append((want, iwv, [tg, wv(new, VP), "T", None], {}, desc))
    # a type may not contain itself; a member type must exist
    szp = _PC + "parsed_ty::ParsedType::sizes_parsed"
    PT = "wow_message_parser::parser::types::parsed::parsed_ty::ParsedType::"
    ov_sz2 = {"::conversion::get_definer": lambda a: "None", "::conversion::get_container": lambda a: "None", "::conversion::get_related": lambda a: [], "::Sizes::new": lambda a: ("sizes",),
              "::ParsedContainer::tags": lambda a: ("tags",)}
    for tyname, want, desc in (("C", "recursive_type", "struct C { C inner; }"), ("Missing", "complex_not_found", "struct C { Missing m; } with no such type")):
        T.append((want, szp, [("struct", PT + "Identifier", {"s": tyname, "upcast": "None"}), _cont([]), [], []], ov_sz2, desc))
    # an upcast to the definer's own base type is rejected
    ptt = "crate::parser::types::objects::conversion::container::parsed_type_to_type"
    IT = "wow_message_parser::parser::types::IntegerType::"
    for base, up, want in (("U8", "U32", None), ("U8", "U8", "type_is_upcast_to_same"), ("U32", "U32", "type_is_upcast_to_same"), ("U16", "U64", None)):
        d = _definer([], "Enum")
        d[2]["basic_type"] = ("variant", IT + base)
        ov_pt = {"::conversion::get_definer": (lambda d: (lambda a: ("Some", d)))(d), "::Definer::clone": lambda a: a[0], "Clone::clone": lambda a: a[0]}
        T.append((want, ptt, [_cont([]), [], [], ("struct", PT + "Identifier", {"s": "T", "upcast": ("Some", ("variant", IT + up))}), ("tags",)], ov_pt, f"({up.lower()})T m with enum T : {base.lower()}"))
    T.append(("complex_not_found", ptt, [_cont([]), [], [], ("struct", PT + "Identifier", {"s": "Missing", "upcast": "None"}), ("tags",)],
              {"::conversion::get_definer": lambda a: "None", "::conversion::get_container": lambda a: "None", "::conversion::get_related": lambda a: [], "::ParsedContainer::tags": lambda a: ("tags",)}, "member of a type that is not defined for the container's versions"))

    # ---- pipeline witnesses: the per-container entry of the conversion (`parsed_container_to_container`) on whole containers, with the
    # parts that do not validate made opaque. Whichever function implements a rule, the rule's error must be reached for the ill-formed
    # container - so moving a check between the pre-conversion walk and the conversion itself does not matter, leaving a position out does
    pcc = "crate::parser::types::objects::conversion::parsed_container_to_container"
    identT = ("struct", "crate::parser::types::parsed::parsed_ty::ParsedType::Identifier", {"s": "T", "upcast": "None"})

    def pd(name, ty=None):
        d = _dfn(name, ty)
        d[2][0][2]["used_in_if"] = ("Some", False)
        return d

    def pifs(eq, vals, members=(), else_ifs=(), els=()):
        E = "crate::parser::types::if_statement::Equation::"
        equation = ("struct", E + eq, {"values": list(vals)} if eq != "NotEquals" else {"value": vals[0]})
        return ("struct", _PC + "parsed_if_statement::ParsedIfStatement", {"variable_name": "x", "equation": equation, "members": list(members), "else_ifs": list(else_ifs),
                                                                            "else_statement_members": list(els), "original_ty": ("Some", identT)})

    def pifm(*a, **k):
        return ("variant", _PSM + "IfStatement", [pifs(*a, **k)])

    def pcont(members):
        c = _cont(members)
        c[2]["object_type"] = ("variant", "wow_message_parser::parser::types::container::ContainerType::Struct")
        return c
    px = pd("x", identT)
    for kind in ("Enum", "Flag"):
        dk = _definer([_field("A", 1, "1"), _field("B", 2, "2")], kind)
        ov_p = {"::create_sizes": lambda a: ("sizes",), "::conversion::parsed_tags_to_tags": lambda a: ("tags",), "::recursive_only_has_io_errors": lambda a: False,
                "::verify_and_set_members": lambda a: (), "::conversion::size_of_fields_before": lambda a: "None", "::create_rust_object": lambda a: ("ro",),
                "::get_objects_used_in": lambda a: [], "::Container::new": lambda a: ("container",), "::IfStatement::new": lambda a: ("ifs",),
                "::StructMemberDefinition::new": lambda a: ("smd",), "::OptionalStatement::new": lambda a: ("opt",),
                "::conversion::get_definer": (lambda d: (lambda a: ("Some", d)))(dk), "::get_field_ty": lambda a: identT, "::ParsedType::str": lambda a: "T",
                "::enum_variable_used_in_separate_if_statements": lambda a: False, "::container::parsed_type_to_type": lambda a: ("ty",), "::ParsedContainer::tags": lambda a: ("tags",)}
        good = "Equals" if kind == "Enum" else "BitwiseAnd"
        sym = {"Equals": "==", "NotEquals": "!=", "BitwiseAnd": "&"}
        # enumerators named by conditions in every position
        for desc, mem, want in (
            (f"if (x {sym[good]} A) else if (x {sym[good]} B), both declared", [px, pifm(good, ["A"], [pd("a")], else_ifs=[pifs(good, ["B"], [pd("b")])])], None),
            (f"if (x {sym[good]} Z): Z is not an enumerator", [px, pifm(good, ["Z"], [pd("a")])], "variable_in_if_not_found"),
            (f"if (x {sym[good]} A) else if (x {sym[good]} Z): the else-if names an enumerator that does not exist", [px, pifm(good, ["A"], [pd("a")], else_ifs=[pifs(good, ["Z"], [pd("b")])])], "variable_in_if_not_found"),
            (f"if (x {sym[good]} A) else if (x {sym[good]} B) else if (x {sym[good]} Z): the second else-if names an enumerator that does not exist",
             [px, pifm(good, ["A"], [pd("a")], else_ifs=[pifs(good, ["B"], [pd("b")]), pifs(good, ["Z"], [pd("c")])])], "variable_in_if_not_found"),
            (f"missing enumerator in an if nested in an else arm", [px, pifm(good, ["A"], [pd("a")], els=[pifm(good, ["Z"], [pd("b")])])], "variable_in_if_not_found"),
            (f"missing enumerator in an if inside an optional block", [px, _opt([pifm(good, ["Z"], [pd("a")])])], "variable_in_if_not_found"),
        ):
            T.append((want, pcc, [pcont(mem), [], [dk]], ov_p, f"pipeline, {kind.lower()}: {desc}"))
        # operators in every position
        bads = ["BitwiseAnd"] if kind == "Enum" else ["Equals", "NotEquals"]
        werr = "enum_has_bitwise_and" if kind == "Enum" else "flag_used_as_equals_or_not_equals"
        for bad in bads:
            for desc, mem in (
                (f"if (x {sym[bad]} A)", [px, pifm(bad, ["A"], [pd("a")])]),
                (f"if (x {sym[good]} A) else if (x {sym[bad]} B)", [px, pifm(good, ["A"], [pd("a")], else_ifs=[pifs(bad, ["B"], [pd("b")])])]),
                (f"if (x {sym[good]} A) else if (x {sym[good]} B) else if (x {sym[bad]} A)", [px, pifm(good, ["A"], [pd("a")], else_ifs=[pifs(good, ["B"], [pd("b")]), pifs(bad, ["A"], [pd("c")])])]),
                (f"if (x {sym[bad]} A) nested in an else arm", [px, pifm(good, ["A"], [pd("a")], els=[pifm(bad, ["B"], [pd("b")])])]),
                (f"if (x {sym[bad]} A) nested in an else-if arm", [px, pifm(good, ["A"], [pd("a")], else_ifs=[pifs(good, ["B"], [pifm(bad, ["A"], [pd("b")])])])]),
                (f"if (x {sym[bad]} A) inside an optional block", [px, _opt([pifm(bad, ["A"], [pd("a")])])]),
            ):
                T.append((werr, pcc, [pcont(mem), [], [dk]], ov_p, f"pipeline, {kind.lower()}: {desc}"))

    # enumerator values: decimal, hexadecimal, binary and (up to eight byte) string forms are numbers, anything else is reported
    dvs = _D + "DefinerValue::from_str"
    for text, want_int in (("10", 10), ("0", 0), ("-1", -1), ("0x0A", 10), ("0xff", 255), ("0x7FFFFFFFFFFFFFFF", (1 << 63) - 1), ("0b101", 5), ("0b0", 0),
                           ('"Win"', int.from_bytes(b"Win", "big")), ('"x86"', int.from_bytes(b"x86", "big")), ("255", 255), ("4294967295", (1 << 32) - 1)):
        T.append((("value", want_int), dvs, [text, "T", "A", None], {}, f"enumerator value {text}"))
    for text in ("abc", "1.5", "", "1_000", " 1", "ten", "A", "1e3"):
        T.append(("invalid_definer_value", dvs, [text, "T", "A", None], {}, f"enumerator value `{text}` (not a number)"))
    it = _PC + "parsed_tags::ParsedTags::into_tags"
    ov = {"::ObjectTags::from_parsed": lambda args: ("tags-built",), "::into_bool": lambda args: False, "::into_bool_with_default": lambda args: False}
    T += [("object_has_both_versions", it, [_tags(["w1"], ["l1"]), "T", None, False], ov, "object with world and login versions"),
          ("object_has_no_versions", it, [_tags([], []), "T", None, False], ov, "object without any version"),
          (None, it, [_tags(["w1"], []), "T", None, False], ov, "object with world versions only"),
          (None, it, [_tags([], ["l1"]), "T", None, True], ov, "object with login versions only")]
    return T


OPTIONAL_ANCHORS = {"crate::parser::types::objects::conversion::container::check_if_statement_operators",
                    "crate::parser::types::objects::conversion::container::validate_equation"}


def check_witnesses(ctx, FB):
    from ..minieval import Mini, Panic, Unsupported
    F = FB["wow_message_parser"]
    err_names = [fn["name"] for fn in F.all("fn", lambda p: p.startswith("crate::error_printer::") and p.count("::") == 2)]

    def hit(name):
        def f(_a):
            raise _Hit(name)
        return f
    n = 0
    for want, fnp, args, extra, desc in witness_table():
        fn = F.fn(fnp)
        if fn is None:
            if fnp in OPTIONAL_ANCHORS:
                continue  # a helper whose rule is also witnessed through the conversion entry point: it may be renamed or folded into another function
            ctx.violate("rule.witness", f"anchor|{fnp}", f"{fnp} not found (anchor disappeared)")
            continue
        n += 1
        m = Mini(FB, "wow_message_parser")
        m.overrides = {"::error_printer::" + nm: hit(nm) for nm in err_names}
        m.overrides.update(extra)
        got = None
        ret = None
        try:
            import copy
            ret = m.call_fn(fnp, [_fill(a) for a in copy.deepcopy(args)])
        except _Hit as h:
            got = h.name
        except (Unsupported, Panic) as e:
            ctx.violate("rule.witness", f"{fnp}|shape|{desc}", f"{fnp.split('::')[-2]}::{fnp.split('::')[-1]} on `{desc}`: not interpretable — review ({type(e).__name__}: {e})", fn["file"], fn["line"])
            continue
        if isinstance(want, tuple) and want[0] == "value":
            val = ret[2].get("int") if isinstance(ret, tuple) and ret and ret[0] == "struct" else None
            if got is not None or val != want[1]:
                ctx.violate("rule.witness", f"{fnp}|{desc}", f"{fnp.split('::')[-2]}::{fnp.split('::')[-1]}: `{desc}` is read as {val if got is None else 'an error (' + got + ')'}, it is the number {want[1]}", fn["file"], fn["line"])
            continue
        if got != want:
            if want is None:
                msg = f"the well-formed instance `{desc}` is rejected through {got}"
            elif got is None:
                msg = f"the ill-formed instance `{desc}` is accepted: {want} (and with it the rule's exit status) is not reached"
            else:
                msg = f"the ill-formed instance `{desc}` is reported through {got} instead of {want}: the generator stops with another rule's exit status"
            ctx.violate("rule.witness", f"{fnp}|{desc}", f"{fnp.split('::')[-2]}::{fnp.split('::')[-1]}: {msg}", fn["file"], fn["line"])
    ctx.rule("rule.witness", n, floor=100, note="validation functions interpreted on minimal ill-formed and well-formed instances (duplicate enumerator values in different spellings, duplicate member names "
             "in every nesting position, enum/flag if-operators, position of the self.size member, one variable per if condition, opcode index by name and opcode, version tags): the rule's own error function is reached exactly for the ill-formed ones")


def run(ctx):
    FB = {"wow_message_parser": facts("wow_message_parser")}
    F = FB["wow_message_parser"]
    err_fns = check_codes(ctx, F)
    check_reach(ctx, F, err_fns)
    check_versions_rel(ctx, FB)
    check_int_bounds(ctx, FB)
    # the version-clash loop is decided by interpretation (rule.witness instances for check_versions); the former guard-shape rule
    # (ver.clash) is kept as code but no longer armed: it would also fire on a correct loop of another shape
    check_witnesses(ctx, FB)
    ctx.assume("that every violation anywhere in a corpus reaches the check of its rule quantifies over input programs and is not decided; the clauses above are necessary conditions")
    ctx.assume("the two-valued component domain is exhaustive because the relations only test components for equality (checked)")
    return "other", EXPLANATION, {}
