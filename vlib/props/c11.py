"""C11 — generated enums mirror their wowm definition for every integer (table agreement)."""
from .. import hir as H
from ..intconv import int_range  # noqa
from ..intconv import INT_TYPES, ev, lossless
from ..world import G, Pairing, enumerator_rust_name, split_gpath, gpath

EXPLANATION = (
    "Static table agreement: for every wowm enum paired (through the facade modules the compiler resolved) with its "
    "generated Rust enum, the match tables of from_int/as_int, the variants() array, the variant list and each "
    "TryFrom<S> impl are extracted from typed HIR and compared with an independent reading of the wowm text. "
    "The match table IS the function, so agreement decides the property for every integer of the base type; "
    "TryFrom idioms are reduced to semantic normal forms (identity / lossless widen / bit reinterpretation / checked narrowing)."
)

TRYFROM_FLOOR = 2500  # conversion impls (2,7xx on the pinned tree; an enum merged into a shared module removes a few)
SOURCES = ["u8", "u16", "u32", "u64", "i8", "i16", "i32", "i64", "usize"]


def ok_variant(n):
    """Ok(Self::V) -> variant global-less path"""
    n = H.strip(n)
    if H.tag(n) == "call" and (H.call_path(n) or "").endswith("::Ok") and len(H.call_args(n)) == 1:
        return H.path_of(H.call_args(n)[0])
    return None


def wowm_value_for_base(val, base):
    bits, signed = INT_TYPES[base]
    return val


def check_enum(ctx, g, pair, seen):
    o = pair["obj"].ast
    rust = pair["rust"]
    crate, lpath = split_gpath(rust)
    key0 = f"{rust}"
    if (rust, id(o)) in seen:
        return 0
    seen.add((rust, id(o)))
    F = g.f(crate)
    adt = F.adt(lpath)
    n_inst = 0
    if adt is None or adt["kind"] != "Enum":
        ctx.violate("enum.tables", f"{key0}|adt", f"wowm enum {o.name} ({o.file}:{o.line}) is not paired with a Rust enum at {rust}")
        return 1
    base = o.base
    if base not in INT_TYPES:
        ctx.violate("enum.tables", f"{key0}|base", f"enum {o.name}: base type {base} not an integer type")
        return 1
    expected = [(enumerator_rust_name(f[0]), f[1]) for f in o.fields]
    exp_names = [e[0] for e in expected]
    # D2: variant list in declaration order
    n_inst += 1
    got_names = [v[0] for v in adt["variants"]]
    if got_names != exp_names:
        ctx.violate("enum.tables", f"{key0}|variants-decl",
                    f"enum {o.name}: Rust variant list {got_names[:6]}… differs from wowm enumerators {exp_names[:6]}… "
                    f"(wowm {o.file}:{o.line})", adt["file"], adt["line"])
        return n_inst
    vpath = {name: f"{lpath}::{name}" for name in exp_names}
    # D1: from_int
    n_inst += 1
    fi = F.fn(lpath + "::from_int")
    if fi is None:
        ctx.violate("enum.tables", f"{key0}|from_int|missing", f"enum {o.name}: no from_int", adt["file"], adt["line"])
    else:
        if fi["inputs"] != [base]:
            ctx.violate("enum.tables", f"{key0}|from_int|type", f"enum {o.name}: from_int takes {fi['inputs']}, wowm base type is {base}", fi["file"], fi["line"])
        body = H.strip(fi["hir"])
        table = {}
        catch_ok = False
        bad = None
        if H.tag(body) == "match" and H.local_name(body[1]) == fi["params"][0][1]:
            for pat, guard, abody in body[3]:
                if guard is not None:
                    bad = "guarded arm"
                    break
                if H.tag(pat) == "lit" and pat[1] == "int":
                    v = int(pat[2])
                    var = ok_variant(abody)
                    if var is None:
                        bad = f"arm {v} does not return Ok(variant): {H.short(abody)}"
                        break
                    if v in table:
                        bad = f"duplicate arm {v}"
                        break
                    table[v] = var
                elif H.tag(pat) in ("bind", "wild"):
                    # Err(EnumError::new(NAME, v as i128))
                    e = H.strip(abody)
                    okc = False
                    if H.tag(e) == "call" and (H.call_path(e) or "").endswith("::Err") and len(H.call_args(e)) == 1:
                        inner = H.strip(H.call_args(e)[0])
                        if (H.call_path(inner) or "").endswith("::errors::EnumError::new") and len(H.call_args(inner)) == 2:
                            a0, a1 = H.call_args(inner)
                            namec = H.path_of(a0)
                            nc = F.const(namec) if namec else None
                            name_ok = False
                            if nc is not None and nc["hir"] is not None:
                                lit = H.strip(nc["hir"])
                                name_ok = H.tag(lit) == "lit" and lit[1] == "str" and lit[2] == o.name
                            elif H.tag(H.strip(a0)) == "lit":
                                name_ok = H.strip(a0)[2] == o.name
                            a1s = H.strip(a1)
                            bound = pat[1] if H.tag(pat) == "bind" else None
                            val_ok = False
                            if H.tag(a1s) == "cast" and a1s[3] == "i128" and H.local_name(a1s[4]) in (bound, fi["params"][0][1]) and H.local_name(a1s[4]) is not None:
                                val_ok = True
                            elif H.is_mcall(a1s, "std::convert::Into::into") and H.local_name(H.mcall(a1s)["recv"]) in (bound, fi["params"][0][1]):
                                val_ok = True
                            if not name_ok:
                                bad = f"error does not carry the enum's name {o.name!r}"
                            elif not val_ok:
                                bad = f"error does not report the offending value: {H.short(a1)}"
                            else:
                                okc = True
                    if not okc and bad is None:
                        bad = f"catch-all arm is not Err(EnumError::new(NAME, value)): {H.short(abody)}"
                    if bad:
                        break
                    catch_ok = True
                else:
                    bad = f"unrecognised arm pattern {H.short(pat)}"
                    break
        else:
            bad = "body is not `match value {…}`"
        if bad:
            # another shape (e.g. `Ok(match value { .. _ => return Err(..) })`, a lookup table): decided by interpretation
            from ..minieval import Unsupported, Panic
            try:
                why = from_int_semantic(F, crate, fi, expected, base, o.name)
                if why:
                    ctx.violate("enum.tables", f"{key0}|from_int|table", f"enum {o.name}: {why} (wowm {o.file}:{o.line})", fi["file"], fi["line"])
                bad = None
            except (Unsupported, Panic) as e_:
                bad = f"{bad}; not interpretable either ({e_})"
        if bad is None and H.tag(body) != "match":
            pass
        elif bad:
            ctx.violate("enum.tables", f"{key0}|from_int|shape", f"enum {o.name}: from_int: {bad}", fi["file"], fi["line"])
        else:
            exp_table = {val: vpath[name] for name, val in expected}
            if len(exp_table) != len(expected):
                ctx.violate("enum.tables", f"{key0}|wowm-dup", f"enum {o.name}: wowm declares duplicate values")
            if table != exp_table:
                diff = [(v, table.get(v), exp_table.get(v)) for v in sorted(set(table) | set(exp_table)) if table.get(v) != exp_table.get(v)]
                ctx.violate("enum.tables", f"{key0}|from_int|table",
                            f"enum {o.name}: from_int table differs from wowm ({o.file}:{o.line}): (value, rust, wowm) = {diff[:5]}",
                            fi["file"], fi["line"])
            if not catch_ok:
                ctx.violate("enum.tables", f"{key0}|from_int|catchall", f"enum {o.name}: from_int has no rejecting catch-all arm", fi["file"], fi["line"])
    # as_int
    n_inst += 1
    ai = F.fn(lpath + "::as_int")
    if ai is None:
        ctx.violate("enum.tables", f"{key0}|as_int|missing", f"enum {o.name}: no as_int", adt["file"], adt["line"])
    else:
        body = H.strip(ai["hir"])
        table = {}
        bad = None
        if ai["output"] != base:
            bad = f"returns {ai['output']}, wowm base type is {base}"
        elif H.tag(body) == "match" and H.local_name(H.strip_refs(body[1])) == "self":
            for pat, guard, abody in body[3]:
                while H.tag(pat) in ("pref", "pderef"):
                    pat = pat[1]
                if H.tag(pat) != "ppath" or guard is not None:
                    bad = f"unrecognised arm {H.short(pat)}"
                    break
                v = H.lit_int(abody)
                if v is None:
                    bad = f"arm value not a literal: {H.short(abody)}"
                    break
                table[pat[1]] = v
        else:
            bad = "body is not `match self {…}`"
        sem_done = False
        if bad and ai["output"] == base:
            from ..minieval import Unsupported, Panic
            try:
                why = as_int_semantic(F, crate, ai, lpath, expected)
                if why:
                    ctx.violate("enum.tables", f"{key0}|as_int|table", f"enum {o.name}: {why}", ai["file"], ai["line"])
                bad, sem_done = None, True
            except (Unsupported, Panic) as e_:
                bad = f"{bad}; not interpretable either ({e_})"
        if sem_done:
            pass
        elif bad:
            ctx.violate("enum.tables", f"{key0}|as_int|shape", f"enum {o.name}: as_int: {bad}", ai["file"], ai["line"])
        else:
            exp_table = {vpath[name]: val for name, val in expected}
            if table != exp_table:
                diff = [(k.split("::")[-1], table.get(k), exp_table.get(k)) for k in sorted(set(table) | set(exp_table)) if table.get(k) != exp_table.get(k)]
                ctx.violate("enum.tables", f"{key0}|as_int|table", f"enum {o.name}: as_int table differs from wowm: (variant, rust, wowm) = {diff[:5]}", ai["file"], ai["line"])
    # variants()
    n_inst += 1
    va = F.fn(lpath + "::variants")
    if va is None:
        ctx.violate("enum.tables", f"{key0}|variants|missing", f"enum {o.name}: no variants()", adt["file"], adt["line"])
    else:
        body = H.strip(va["hir"])
        if H.tag(body) == "array":
            got = [H.path_of(x) for x in body[1]]
            exp = [vpath[n] for n in exp_names]
            if got != exp:
                ctx.violate("enum.tables", f"{key0}|variants|list", f"enum {o.name}: variants() is not each enumerator once in declaration order", va["file"], va["line"])
        else:
            from ..minieval import Unsupported, Panic
            try:
                why = variants_semantic(F, crate, va, exp_names)
                if why:
                    ctx.violate("enum.tables", f"{key0}|variants|list", f"enum {o.name}: {why}", va["file"], va["line"])
            except (Unsupported, Panic) as e_:
                ctx.violate("enum.tables", f"{key0}|variants|shape", f"enum {o.name}: variants(): unrecognised body {H.short(body)} ({e_})", va["file"], va["line"])
    # D3: TryFrom<S>
    n_inst += check_tryfrom(ctx, F, crate, lpath, o.name, base, "enum.tryfrom", key0, is_flag=False)
    ctx.sample({"enum": o.name, "rust": rust, "wowm": f"{o.file}:{o.line}", "pairs": len(expected), "base": base})
    return n_inst


def _sem(F, crate):
    from ..minieval import Mini
    return Mini({crate: F}, crate)


def _vname(v):
    return v[1].split("::")[-1] if isinstance(v, tuple) and len(v) >= 2 and v[0] == "variant" else None


def from_int_semantic(F, crate, fi, expected, base, ename):
    """from_int interpreted on every declared value, its neighbours and the limits of the base type: Ok(the enumerator of that value) for declared
    values, Err(EnumError { name, value }) otherwise. -> None (holds) / message; raises Unsupported / Panic when not interpretable"""
    lo, hi = int_range(base)
    declared = {val: name for name, val in expected}
    cands = set(declared) | {lo, hi, 0}
    for v in list(declared):
        cands |= {v - 1, v + 1}
    for v in sorted(c for c in cands if lo <= c <= hi):
        res = _sem(F, crate).call_fn(fi["path"], [v])
        if v in declared:
            if not (isinstance(res, tuple) and res[0] == "Ok" and _vname(res[1]) == declared[v]):
                return f"from_int({v}) = {str(res)[:80]}, the wowm enumerator with that value is {declared[v]}"
        else:
            e = res[1] if isinstance(res, tuple) and len(res) == 2 and res[0] == "Err" else None
            if not (isinstance(e, tuple) and e and e[0] == "struct" and str(e[1]).endswith("EnumError") and e[2].get("value") == v and e[2].get("name") == ename):
                return f"from_int({v}) = {str(res)[:100]}; {v} is not a declared value and must be rejected with EnumError {{ name: {ename!r}, value: {v} }}"
    return None


def as_int_semantic(F, crate, ai, lpath, expected):
    for name, val in expected:
        res = _sem(F, crate).call_fn(ai["path"], [("variant", lpath + "::" + name)])
        if res != val:
            return f"{name}.as_int() = {res}, the wowm value is {val}"
    return None


def variants_semantic(F, crate, va, exp_names):
    res = _sem(F, crate).call_fn(va["path"], [])
    if hasattr(res, "get"):
        res = res.get()
    got = [_vname(x) for x in res] if isinstance(res, (list, tuple)) else None
    if got != exp_names:
        return f"variants() = {str(got)[:120]}, expected each enumerator once in declaration order"
    return None


def find_impls(F, lpath):
    idx = getattr(F, "_impl_by_self", None)
    if idx is None:
        idx = {}
        for im in F.impls():
            idx.setdefault(im["self_ty"], []).append(im)
        F._impl_by_self = idx
    return idx.get(lpath, [])


def check_tryfrom(ctx, F, crate, lpath, name, base, rule, key0, is_flag):
    n = 0
    impls = {}
    for im in find_impls(F, lpath):
        tr = im["trait"] or ""
        if tr.startswith("std::convert::TryFrom<") or tr.startswith("std::convert::From<"):
            impls[tr] = im
    for S in SOURCES:
        n += 1
        tf = impls.get(f"std::convert::TryFrom<{S}>")
        fr = impls.get(f"std::convert::From<{S}>")
        im = tf or fr
        k = f"{key0}|conv|{S}"
        if im is None:
            # not a supported source type for this definer (using it is a compile error, not a wrong answer)
            n -= 1
            continue
        meth = "try_from" if tf else "from"
        fpath = [it[2] for it in im["items"] if it[0] == "fn" and it[1] == meth]
        fn = F.fn(fpath[0]) if fpath else None
        if fn is None:
            ctx.violate(rule, k + "|missing-fn", f"{name}: impl {im['trait']} has no {meth}")
            continue
        pname = fn["params"][0][1]
        sem = ev(fn["hir"], {pname: ("V",)})
        err = classify_conv(sem, S, base, lpath, name, F, is_flag, fallible=bool(tf))
        if err:
            # the observed denotation is part of the key: a different wrong conversion in the same impl is another instance
            ctx.violate(rule, k + "|idiom|" + " ".join(str(err).split())[:120], f"{name}: {im['trait']}: {err}", fn["file"], fn["line"])
    return n


def _err_ok(err, F, name):
    # ("enumerr", ("const", NAMEpath), valueexpr) where valueexpr is widen(V,i128) or cast(V,i128)
    if err[0] != "enumerr":
        return f"narrowing error is not EnumError::new(NAME, value): {err}"
    v = err[2]
    if v[0] == "widen" and v[1] == ("V",) and v[2] == "i128":
        pass
    elif v[0] == "cast" and v[1] == ("V",) and v[2] == "i128":
        pass
    else:
        return f"narrowing error does not report the original value: {v}"
    nm = err[1]
    if nm[0] == "const":
        c = F.const(nm[1])
        if c is None or c["hir"] is None:
            return "error name constant not found"
        lit = H.strip(c["hir"])
        if not (H.tag(lit) == "lit" and lit[2] == name):
            return f"error carries name {lit[2] if H.tag(lit)=='lit' else '?'}, expected {name}"
    elif nm[0] == "lit":
        if nm[1] != name:
            return f"error carries name {nm[1]}, expected {name}"
    else:
        return f"error name not a constant: {nm}"
    return None


def classify_conv(sem, S, base, lpath, name, F, is_flag, fallible):
    """Return None if `sem` denotes the specified conversion S -> type(base) (see intconv.judge)."""
    from ..intconv import denote, judge, ConvError, error_payloads
    inner = None
    if sem[0] == "call" and sem[1] in (lpath + "::from_int", lpath + "::new") and len(sem[2]) == 1:
        inner = sem[2][0]
    elif sem[0] == "tryinto" and sem[2] == lpath:
        # x.try_into() resolving to TryFrom<X> for Self: X must be the base type (that impl is checked on its own)
        if sem[3] != base:
            return f"final try_into() converts from {sem[3]}, not from the base type {base}"
        inner = sem[1]
    elif sem[0] == "call" and sem[1] and sem[1].endswith("::Ok") and len(sem[2]) == 1:
        x = sem[2][0]
        if x[0] == "call" and x[1] == lpath + "::new" and len(x[2]) == 1:
            inner = x[2][0]
        elif x[0] == "widen" and x[2] == lpath:
            inner = x[1]
        else:
            return f"unrecognised Ok(...) payload: {x}"
    elif sem[0] == "widen" and sem[2] == lpath:
        inner = sem[1]
    else:
        return f"unrecognised conversion body: {sem}"
    try:
        pieces, ty = denote(inner, S)
    except ConvError as e:
        return str(e)
    if ty != base:
        return f"converted value has type {ty}, base type is {base}"
    j = judge(pieces, S, base)
    if j:
        return j
    for err in error_payloads(inner):
        if is_flag:
            if err != ("V",):
                return f"error value is not the original input: {err}"
        else:
            e = _err_ok(err, F, name)
            if e:
                return e
    return None


def check_scope_tables(ctx):
    """enum.scope-table (shared with C01 and C04): the Rust enum that an expansion / login version exports under a wowm enum's name
    has exactly the enumerators the wowm definition valid for that version declares, in order - the readers convert into the
    type the scope exports, so a scope that re-exports another version's enum rejects declared values (or accepts undeclared ones)"""
    g = G()
    P = Pairing(g)
    n = 0
    seen = set()
    for pair in P.of_kind("enum"):
        o = pair["obj"].ast
        rust = pair["rust"]
        if (rust, id(o)) in seen:
            continue
        seen.add((rust, id(o)))
        crate, lpath = split_gpath(rust)
        adt = g.f(crate).adt(lpath)
        n += 1
        if adt is None or adt["kind"] != "Enum":
            ctx.violate("enum.scope-table", f"{pair['scope']}|{o.name}|adt", f"wowm enum {o.name} ({o.file}:{o.line}) of scope {pair['scope']} is not paired with a Rust enum at {rust}")
            continue
        want = [enumerator_rust_name(f[0]) for f in o.fields]
        got = [v[0] for v in adt["variants"]]
        if got != want:
            diff = sorted(set(want) ^ set(got))[:6]
            ctx.violate("enum.scope-table", f"{pair['scope']}|{o.name}", f"scope {pair['scope']} exports {rust} for the wowm enum {o.name} ({o.file}:{o.line}): its variants differ from the definition's enumerators "
                        f"(differing: {diff}): values the definition declares are rejected or undeclared ones accepted", adt["file"], adt["line"])
    ctx.rule("enum.scope-table", n, floor=301, note="(scope, wowm enum) -> exported Rust enum: variant list = enumerators of the definition valid in that scope")



def check_error_carrier(ctx):
    """err.carrier (C11, C04): the error that reports an undeclared value must be able to hold it - EnumError keeps its `value` in a field wide
    enough for every source integer type (u64 / i64, i.e. i128) and `EnumError::new` stores its argument unchanged (interpreted on values at and
    beyond the 64-bit limits); the opcode errors carry the opcode in at least the width of the widest opcode (u32)"""
    from ..facts import facts
    from ..minieval import Mini, Unsupported, Panic
    from ..intconv import INT_TYPES
    n = 0
    for crate in ("wow_world_base", "wow_login_messages"):
        F = facts(crate)
        adt = F.adt("crate::errors::EnumError")
        new = F.fn("crate::errors::EnumError::new")
        if adt is None or new is None:
            ctx.violate("err.carrier", f"anchor|{crate}", f"{crate}::errors::EnumError / EnumError::new not found (anchor disappeared)")
            continue
        n += 1
        fty = next((f[1] for f in adt["variants"][0][2] if f[0] == "value"), None)
        if fty != "i128":
            ctx.violate("err.carrier", f"{crate}|EnumError|field", f"{crate}::errors::EnumError.value is {fty}: it cannot hold every value of the source integer types (u64 up to 2^64-1 and i64 down to -2^63 need i128), "
                        "so an undeclared value is reported as another number", new["file"], new["line"])
        for v in ((1 << 64) - 1, 1 << 63, (1 << 63) + 0xFF, -(1 << 63), -1, 0, 255):
            try:
                r = Mini({crate: F}, crate).call_fn(new["path"], ["Name", v])
            except (Unsupported, Panic) as e:
                ctx.violate("err.carrier", f"{crate}|EnumError|shape", f"{crate}::errors::EnumError::new: not interpretable - review ({e})", new["file"], new["line"])
                break
            got = r[2].get("value") if isinstance(r, tuple) and r and r[0] == "struct" else None
            if got != v or r[2].get("name") != "Name":
                ctx.violate("err.carrier", f"{crate}|EnumError|new", f"{crate}::errors::EnumError::new(name, {v}) stores value {got}: the error for an undeclared value reports another number", new["file"], new["line"])
                break
    for crate, field in (("wow_world_messages", "opcode"), ("wow_login_messages", "0")):
        adt = facts(crate).adt("crate::errors::ExpectedOpcodeError")
        var = next((v for v in (adt["variants"] if adt else []) if v[0] == "Opcode"), None)
        if var is None:
            ctx.violate("err.carrier", f"anchor|{crate}|opcode", f"{crate}::errors::ExpectedOpcodeError::Opcode not found (anchor disappeared)")
            continue
        n += 1
        fty = next((f[1] for f in var[2] if f[0] == field), None)
        need = 32 if crate == "wow_world_messages" else 8
        if fty not in INT_TYPES or INT_TYPES[fty][0] < need or INT_TYPES[fty][1]:
            ctx.violate("err.carrier", f"{crate}|Opcode|field", f"{crate}::errors::ExpectedOpcodeError::Opcode carries the opcode as {fty}, the widest opcode on the wire has {need} bits")
    ctx.rule("err.carrier", n, floor=4, note="EnumError.value is i128 and EnumError::new stores its argument unchanged (values at the 64-bit limits); the opcode errors carry at least the widest wire opcode")


def run(ctx):
    g = G()
    P = Pairing(g)
    seen = set()
    total = 0
    n_enums = 0
    total_conv = 0
    for pair in P.of_kind("enum"):
        before = len(seen)
        k = check_enum(ctx, g, pair, seen)
        total += k
        if len(seen) > before:
            n_enums += 1
            total_conv += max(k - 4, 0)
    # every generated enum with from_int must be paired with a wowm enum (no unchecked enum), except hand-written ones
    paired = {p["rust"] for p in P.of_kind("enum")}
    unpaired = []
    for crate in ("wow_world_base", "wow_login_messages", "wow_world_messages"):
        F = g.f(crate)
        for fn in F.fns_named("from_int"):
            self_ty = gpath(crate, fn["self_ty"]) if fn["self_ty"] else None
            if self_ty and self_ty not in paired and "/src/manual/" not in "/" + (fn["file"] or ""):
                # (types under src/manual/ are hand-written, not generated from a wowm enum: DateTime's Month / Weekday are decided by C15)
                unpaired.append((self_ty, fn["file"], fn["line"]))
    for st, f, l in unpaired:
        ctx.violate("enum.tables", f"{st}|unpaired", f"Rust enum {st} has from_int but no wowm enum is paired with it", f, l)
    ctx.rule("enum.tables", n_enums, floor=301, note="(wowm enum, Rust enum) pairs: variant list, from_int, as_int, variants()")
    ctx.rule("enum.tryfrom", total_conv, floor=TRYFROM_FLOOR, note="TryFrom<S> impls reduced to semantic normal form")
    ctx.analysed.update({"enum_pairs": n_enums, "wowm_files": P.model.counts["files"], "unpaired_rust_enums": len(unpaired)})
    ctx.assume("rustc's type resolution (From/Into only exist for lossless integer pairs; TryInto fails exactly when the value is not representable)")
    ctx.assume("the wowm text is the specification; it is read by an independent parser (vlib/wowm.py), not by the generator")
    check_error_carrier(ctx)
    return "other", EXPLANATION, {}
