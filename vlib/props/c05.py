"""C05 — header encryption is transparent for whole message sequences (pairing / must-call-once, twin equality)."""
import re

from .. import hir as H
from ..containers import state
from ..siblings import body, first_diff, norm
from ..world import gpath
from . import c02_frame

EXPLANATION = (
    "Per-message obligations whose conjunction gives, by induction over the sequence, that both cipher states stay in step: "
    "(1) every encrypted writer is its plain twin with only the header step exchanged, and uses the encrypter exactly once, "
    "outside any loop; (2) on every path of every encrypted reader each header byte taken from the stream passes through the "
    "decrypter exactly once and no body byte does, and the path consumes the same bytes as the plain reader (frame rules of C02); "
    "(3) encrypted and plain readers hand the same quantity to the body decoder."
)
TWIN_FLOOR = 60

WRITER_RE = re.compile(r"^(tokio_|astd_)?write_(encrypted|unencrypted)_(client|server)$")


def header_abstract(n, enc_names):
    """Normalised tree with every statement that belongs to the header step replaced by a marker."""
    def is_header_stmt(st):
        for x in H.walk(st):
            t = H.tag(x)
            if t == "local" and x[1] in enc_names:
                return True
            if t == "path" and re.search(r"_get_(un)?encrypted_(client|server)$", x[1]):
                return True
            if t in ("asg",) and H.tag(H.strip(x[1])) == "idx":
                return True  # v[i] = ... header patching
        return False

    def has_body_write(st):
        return any(H.tag(y) == "mcall" and y[1] == "write_into_vec" for y in H.walk(st))

    def go(x):
        if H.tag(x) == "block":
            stmts = []
            after_body = False
            for st in x[1]:
                if after_body or is_header_stmt(st):
                    if not stmts or stmts[-1] != ["HEADER"]:
                        stmts.append(["HEADER"])
                else:
                    stmts.append(go(st))
                if has_body_write(st) and any(H.tag(y) == "path" and "_get_" in y[1] for z in x[1] for y in H.walk(z)):
                    # per-message override: everything between the body write and the final write_all patches the header
                    after_body = True
            tail = go(x[2]) if x[2] is not None else None
            return ["block", stmts, tail]
        if isinstance(x, list):
            return [go(c) if isinstance(c, list) else c for c in x]
        return x

    return go(n)


def count_enc_uses(fn_hir, enc):
    """(number of call expressions that use the encrypter, any of them inside a loop)"""
    uses = 0
    in_loop = False

    def go(x, loop):
        nonlocal uses, in_loop
        t = H.tag(x)
        if t in ("call", "mcall"):
            args = (x[3] if t == "call" else [x[6]] + x[7])
            direct = any(H.local_name(H.strip_refs(a)) == enc for a in args)
            if direct:
                uses += 1
                in_loop = in_loop or loop
        if isinstance(x, list):
            for c in x:
                if isinstance(c, list):
                    go(c, loop or t in ("for", "while", "loop"))

    go(fn_hir, False)
    return uses, in_loop


def enc_uses_per_path(fn_hir, enc):
    """set of encrypter-use counts over the control-flow paths of the body (error exits of `?` are not paths of interest);
    loops containing a use are reported separately by count_enc_uses"""
    def direct(x):
        t = H.tag(x)
        if t in ("call", "mcall"):
            args = (x[3] if t == "call" else [x[6]] + x[7])
            return any(H.local_name(H.strip_refs(a)) == enc for a in args)
        return False

    def seq(parts, states):
        # states: set of (count, returned)
        for part in parts:
            nxt = set()
            for (c, r) in states:
                if r:
                    nxt.add((c, r))
                else:
                    for (c2, r2) in go(part):
                        nxt.add((c + c2, r2))
            states = nxt
        return states

    def go(x):
        if not isinstance(x, list):
            return {(0, False)}
        t = H.tag(x)
        if t == "if":
            out = set()
            for (c, r) in go(x[1]):
                if r:
                    out.add((c, r))
                    continue
                branches = go(x[2]) | (go(x[3]) if x[3] is not None else {(0, False)})
                out |= {(c + c2, r2) for (c2, r2) in branches}
            return out
        if t == "match":
            out = set()
            for (c, r) in go(x[1]):
                if r:
                    out.add((c, r))
                    continue
                for arm in x[3]:
                    out |= {(c + c2, r2) for (c2, r2) in go(arm[2])}
            return out
        if t == "ret":
            inner = go(x[1]) if len(x) > 1 and x[1] is not None else {(0, False)}
            return {(c, True) for (c, _r) in inner}
        if t == "closure":
            # async blocks / boxed futures: the body runs once when awaited; a `return` inside ends the closure, not the caller
            return {(c, False) for (c, _r) in go(x[3])} if len(x) > 3 else {(0, False)}
        kids = [c for c in x if isinstance(c, list)]
        st = seq(kids, {(0, False)})
        if direct(x):
            st = {(c + 1, r) for (c, r) in st}
        return st

    return sorted({c for (c, _r) in go(fn_hir)})


def semantic_twin(g, e, u, side):
    """Decide the twin clause by interpretation when the two bodies are not the same tree: both writers are evaluated with the
    piecewise-affine writer interpreter over every body length; they must put the same number of header bytes carrying the same size
    field in front of the same body bytes, the plain one without and the encrypted one with exactly one step of the cipher.
    -> None when they agree, else a message"""
    from ..framew import analyse_writer
    m = re.match(r"^(?:<.+ as )?crate::traits::(vanilla|tbc|wrath)::", e["path"])
    if not m:
        return "expansion not recognised"
    exp = m.group(1)
    op_len = 4 if side == "client" else 2
    bmax = c02_frame.bmax_for(exp, side)

    def summary(fn):
        out = []
        for lo, hi, s, err in analyse_writer(g, "wow_world_messages", fn, exp, side, bmax):
            if err:
                return None, err
            sf = s.sf
            if sf is None and s.header_len is not None:
                sf, perr = c02_frame.header_sf(s.header_bytes, s.header_len - op_len, op_len)
                if perr:
                    return None, perr
            tr = s.transport[2][0] if s.transport is not None else None
            row = (s.header_len, (sf[1], sf[2]) if sf else None, (tr[1], tr[2]) if tr else None, tuple(sorted(k for k, _ in s.events)), s.enc_calls)
            if out and out[-1][2:] == row and out[-1][1] + 1 == lo:
                out[-1] = (out[-1][0], hi) + row
            else:
                out.append((lo, hi) + row)
        return out, None
    se, ee = summary(e)
    su, eu = summary(u)
    if ee or eu:
        return f"not interpretable ({ee or eu})"
    pts = sorted({x[0] for x in se} | {x[0] for x in su})
    for p_ in pts:
        a = next(x for x in se if x[0] <= p_ <= x[1])
        b = next(x for x in su if x[0] <= p_ <= x[1])
        if a[2:6] != b[2:6]:
            return (f"for body length {p_:#x} the encrypted writer sends a {a[2]}-byte header with size field {a[3]} and {a[4]} bytes in total (events {list(a[5])}), "
                    f"the plain one a {b[2]}-byte header with size field {b[3]} and {b[4]} bytes (events {list(b[5])})")
        if any(k in ("overflow", "assert", "panic") for k in a[5]):
            continue  # both writers stop at the same event for this length (reported by C02): no bytes and no cipher step on either side
        if a[6] != 1 or b[6] != 0:
            return f"for body length {p_:#x} the cipher is stepped {a[6]} time(s) by the encrypted and {b[6]} time(s) by the plain writer"
    return None


def run(ctx):
    st = state()
    g = st["g"]
    F = g.f("wow_world_messages")
    # (1) writer twins
    groups = {}
    for fn in F.all("fn"):
        m = WRITER_RE.match(fn["name"])
        if not m:
            continue
        parent = (fn["self_ty"] or fn["parent"] or fn["path"].rsplit("::", 1)[0], fn["trait"])
        groups.setdefault((parent, m.group(1) or "", m.group(3)), {})[m.group(2)] = fn
    n_tw = 0
    n_sem = [0]
    for (parent, fl, side), pair in sorted(groups.items(), key=lambda x: repr(x[0])):
        if "encrypted" not in pair or "unencrypted" not in pair:
            continue
        e, u = pair["encrypted"], pair["unencrypted"]
        # opcode-enum writers only delegate; their arms are checked by C01
        if "OpcodeMessage" in (e["self_ty"] or ""):
            continue
        n_tw += 1
        enc = [p[1] for p, ty in zip(e["params"], e["inputs"]) if H.tag(p) == "bind" and "Encrypter" in ty]
        key = gpath("wow_world_messages", e["path"])
        if len(enc) != 1:
            ctx.violate("twin.enc-plain", f"{key}|no-encrypter", f"{e['path']}: encrypted writer without a single encrypter parameter", e["file"], e["line"])
            continue
        be = header_abstract(norm(H.unwrap_async(e["hir"])), set(enc))
        bu = header_abstract(norm(H.unwrap_async(u["hir"])), set())
        # names differ only by the method names themselves
        se = repr(be).replace("write_encrypted", "write_X").replace("'e'", "")
        su = repr(bu).replace("write_unencrypted", "write_X")
        structural = se == su
        if not structural:
            why = semantic_twin(g, e, u, side)
            if why is not None:
                d = first_diff(bu, be)
                ctx.violate("twin.enc-plain", f"{key}|twin", f"{e['path']} differs from its plain twin {u['name']}: {why}; first structural difference outside the header step: {d}", e["file"], e["line"])
            else:
                n_sem[0] += 1
        uses, in_loop = count_enc_uses(H.unwrap_async(e["hir"]), enc[0])
        per_path = enc_uses_per_path(H.unwrap_async(e["hir"]), enc[0])
        if not structural:
            # the cipher may be stepped inside a helper the writer calls: the count per body length was decided by the interpretation above
            per_path, in_loop = [1], False
        if per_path != [1] or in_loop:
            ctx.violate("cipher.step", f"{key}|enc-uses", f"{e['path']}: the encrypter is used {' or '.join(str(c) for c in per_path)} time(s) depending on the path{' (inside a loop)' if in_loop else ''}; "
                        "it must be stepped exactly once per message on every path", e["file"], e["line"])
    ctx.rule("twin.enc-plain", n_tw, floor=TWIN_FLOOR, note=f"encrypted/plain writer pairs (default trait methods per expansion x flavour and per-message overrides): same tree outside the header step, or ({n_sem[0]} pairs) the same header length / size field / transport bytes for every body length with the cipher stepped once, by interpretation")
    # (2)+(3) readers
    c02_frame.run_frame(ctx, want_cipher=True)
    c02_frame.run_frame(ctx, want_cipher=False)
    ctx.assume("wow_srp's header API (decrypt_*_header, attempt_decrypt_server_header, encrypt_*_header) advances the cipher by exactly the bytes it is given (trusted contract)")
    ctx.assume("equality of the returned messages follows from C01 plus the obligations above; it is not executed")
    # the header that is encrypted must be the header the reader will reconstruct: form, size field and byte placement of the
    # encrypted writers over every body length (shared piecewise-affine writer analysis of C02)
    c02_frame.run_frame_writers(ctx, only_encrypted=True)
    return "other", EXPLANATION, {}
