"""C02 — framing is exact: declared size = bytes written; header arithmetic agrees between writers and readers."""
from .. import hir as H
from .. import wowm
from ..containers import container_pairs, state, writer_fns, _synth_flag_owner
from ..layoutcmp import BUILTIN_TYPES
from ..sizeexpr import SE, SizeEval, Unk, WriteSize
from ..wlayout import WriteExtractor
from ..world import gpath, split_gpath

EXPLANATION = (
    "Byte accounting: for every container the separately generated size() formula and the bytes emitted by write_into_vec "
    "are both reduced to a canonical sum of guarded symbolic terms (constants, k*len(field), packed-guid sizes, per-element "
    "sums, per-variant tables, Option guards) and must be identical, branch by branch; constant-sized messages must declare "
    "exactly the number of bytes their writer emits. Header arithmetic of writers/readers is checked by the frame.* rules."
)
SIZE_FLOOR = 1600  # containers with a writer (a refactor may merge or drop a few; counted 1694 on the pinned tree)


class Sizes:
    def __init__(self):
        st = state()
        self.g = st["g"]
        _synth_flag_owner()
        self.pairs_by_rust = {}
        for p in st["P"].pairs:
            if p["obj"].ast.kind not in ("enum", "flag"):
                self.pairs_by_rust.setdefault(p["rust"], p)
        self.atom_types = set(self.pairs_by_rust)
        self._const_cache = {}
        self._raw = {}

    def raw_write_items(self, p):
        key = p["rust"]
        if key not in self._raw:
            wfs = writer_fns(p)
            if not wfs:
                self._raw[key] = None
            else:
                fl, crate, fn = wfs[0]
                ex = WriteExtractor(self.g, crate, fn)
                items = ex.run()
                if p["login"] and p["obj"].ast.kind != "struct" and items and items[0].get("k") == "int" \
                        and (items[0].get("src") or {}).get("const", "").endswith("::OPCODE"):
                    items = items[1:]
                self._raw[key] = (items, crate, fn, ex)
        return self._raw[key]

    def struct_const(self, ty):
        if ty in self._const_cache:
            return self._const_cache[ty]
        self._const_cache[ty] = None  # recursion guard
        p = self.pairs_by_rust.get(ty)
        r = None
        if p is not None:
            raw = self.raw_write_items(p)
            if raw is not None:
                try:
                    se = WriteSize(self.g, self.atom_types, BUILTIN_TYPES, self.struct_const).seq(raw[0]).normalise()
                    if se.is_const():
                        r = se.const
                except Unk:
                    r = None
        self._const_cache[ty] = r
        return r


def check_self_size_member(ctx, a, p, items, lpath, wfn, key):
    """a member declared `= self.size` carries the number of bytes that follow it: the writer must emit size() minus the bytes up to
    and including that member (all of them fixed-width), taken from the container's own size()"""
    declared = [m for m in a.members if isinstance(m, wowm.Decl) and m.value is not None and m.value[1] == "self.size"]
    acc = 0
    fixed = True
    found = 0
    for it in items:
        ops = (it.get("src") or {}).get("ops", []) if it["k"] in ("int", "float") else []
        if it["k"] in ("int", "float"):
            acc += it["w"]
        elif it["k"] == "constbytes":
            acc += len(it["bytes"])
        elif it["k"] in ("zlib-start", "zlib"):
            return found  # inside a compressed body the byte accounting is that of the (known-finding) compressed writers
        else:
            fixed = False
        sz = next((o for o in ops if o[0] == "size"), None)
        if sz is None:
            continue
        found += 1
        K = sum(o[1] for o in ops if o[0] == "sub") - sum(o[1] for o in ops if o[0] == "add")
        if not sz[1].endswith(lpath.split("crate::")[-1] + "::size") and not sz[1].endswith("::" + a.name + "::size"):
            ctx.violate("size.self-field", f"{key}|own", f"{a.name} ({p['scope']}): the self-size member is computed from {sz[1]}, not from the message's own size()", wfn["file"], wfn["line"])
        elif not fixed:
            ctx.violate("size.self-field", f"{key}|position", f"{a.name} ({p['scope']}): the self-size member follows a variable-sized member, the bytes before it are not a constant — review", wfn["file"], wfn["line"])
        elif K != acc:
            ctx.violate("size.self-field", f"{key}|offset", f"{a.name} ({p['scope']}): the self-size member is written as size() - {K}, but {acc} bytes are written up to and including it: "
                        f"the field must hold the number of bytes that follow it (size() - {acc}); a reader that trusts the field mis-frames the message by {acc - K} byte(s)", wfn["file"], wfn["line"])
    if len(declared) != found:
        ctx.violate("size.self-field", f"{key}|count", f"{a.name} ({p['scope']}): the definition declares {len(declared)} `= self.size` member(s) but the writer derives {found} value(s) from size()", wfn["file"], wfn["line"])
    return found


def run_size(ctx):
    S = Sizes()
    g = S.g
    n = 0
    n_self = 0
    n_const = 0
    seen = set()
    for p in container_pairs():
        a = p["obj"].ast
        if p["rust"] in seen:
            continue
        seen.add(p["rust"])
        raw = S.raw_write_items(p)
        if raw is None:
            continue
        items, wcrate, wfn, ex = raw
        crate, lpath = split_gpath(p["rust"])
        key = f"{p['rust']}"
        n_self += check_self_size_member(ctx, a, p, items, lpath, wfn, key)
        try:
            ws = WriteSize(g, S.atom_types, BUILTIN_TYPES, S.struct_const).seq(items).normalise()
        except Unk as e:
            ctx.violate("size.write-agree", f"{key}|write-shape", f"{a.name}: bytes written not computable — review: {e}", wfn["file"], wfn["line"])
            continue
        F = g.f(crate)
        sfn = F.fn(f"{lpath}::size") if crate != "wow_world_base" else None
        n += 1
        if sfn is None:
            # constant-sized: the writer must emit a constant number of bytes; world messages declare it in size_without_header
            swh = F.fn(f"<{lpath} as crate::traits::Message>::size_without_header") if crate == "wow_world_messages" else None
            if not ws.is_const():
                if crate == "wow_world_base":
                    continue
                ctx.violate("size.write-agree", f"{key}|no-size-fn", f"{a.name}: no size() although the writer emits a variable number of bytes: {ws.show()}", wfn["file"], wfn["line"])
                continue
            n_const += 1
            if swh is not None:
                v = H.lit_int(swh["hir"])
                if v is None or v != ws.const:
                    ctx.violate("size.write-agree", f"{key}|const", f"{a.name}: size_without_header declares {v if v is not None else H.short(swh['hir'])} but write_into_vec emits {ws.const} bytes", swh["file"], swh["line"])
            continue
        try:
            ev = SizeEval(g, crate, S.atom_types, BUILTIN_TYPES)
            ss = ev.ev(sfn["hir"], {"self": ("self",)}).normalise()
        except Unk as e:
            ctx.violate("size.write-agree", f"{key}|size-shape", f"{a.name}::size(): shape not recognised — review: {e}", sfn["file"], sfn["line"])
            continue
        if ss.serialised:
            # compressed messages: size() serialises and counts, consistent by construction
            continue
        if ss.freeze() != ws.freeze():
            # one report per differing component, keyed by the component and both values (a second, different mismatch in the same
            # container is a different instance)
            from ..sizeexpr import se_diff
            for comp, sv, wv in se_diff(ss, ws) or [("whole", ss.show(), ws.show())]:
                ctx.violate("size.write-agree", f"{key}|mismatch|{comp}|size={sv}|written={wv}",
                            f"{a.name}: in {comp}: size() counts {sv}, write_into_vec emits {wv}   (size() = {ss.show()}; written = {ws.show()})", sfn["file"], sfn["line"])
        if n <= 4:
            ctx.sample({"container": a.name, "rust": p["rust"], "size": ss.show(), "written": ws.show()})
    ctx.rule("size.self-field", n_self, floor=10, note="members declared `= self.size`: written value = own size() minus the (constant) bytes up to and including the member")
    ctx.rule("size.write-agree", n, floor=SIZE_FLOOR, note=f"size() vs bytes written per container ({n_const} constant-sized)")
    return n


def run_cycles(ctx):
    """Writing must complete: no recursion among size()/write_* (generated code has no legitimate recursion)."""
    import re
    from ..callgraph import CallGraph
    n = 0
    for crate in ("wow_world_messages", "wow_login_messages"):
        cg = CallGraph(crate)
        n += len(cg.edges)
        for comp in cg.sccs():
            names = [c.split("::")[-1] for c in comp]
            if any(re.match(r"^(size|size_uncompressed|size_without_header|write_into_vec|(tokio_|astd_)?write_\w+)$", x) for x in names):
                rec = F_fn(crate, comp)
                ctx.violate("write.no-cycle", f"{crate}|" + "|".join(sorted(gpath(crate, c) for c in comp))[:400],
                            f"unbounded recursion on a write path: {' -> '.join(sorted(comp))} call each other (stack overflow when the message is written)",
                            rec["file"] if rec else None, rec["line"] if rec else None)
    ctx.rule("write.no-cycle", n, floor=30000, note="functions in the resolved call graph searched for cycles through size()/write_*")


def F_fn(crate, comp):
    g = state()["g"]
    for c in sorted(comp):
        r = g.f(crate).fn(c)
        if r:
            return r
    return None


N_SELF = [0]


def run_leaf_writer_sizes(ctx):
    """the byte counts that size.write-agree assumes for the hand-written list writers are measured from their bodies"""
    from ..sizeexpr import LIST_WRITERS
    from ..facts import facts
    from . import c01_leaf
    FB = {c: facts(c) for c in ("wow_world_messages", "wow_world_base", "wow_login_messages")}
    meas = c01_leaf.measure_list_writers(FB)
    n = 0
    for name, (per, const) in sorted(LIST_WRITERS.items()):
        rows = meas.get(name)
        fn = next((f for f in FB["wow_world_messages"].all("fn", lambda p: p.endswith("::" + name))), None)
        file, line = (fn["file"], fn["line"]) if fn else (None, None)
        if not isinstance(rows, list) or len(rows) < 4:
            ctx.violate("leaf.writer-size", f"{name}|shape", f"{name}: bytes written not measurable — review ({rows})", file, line)
            continue
        for cnt, total, elems in rows:
            n += 1
            want = (sum(elems) if per == "sum" else per * cnt) + const
            if total != want:
                ctx.violate("leaf.writer-size", f"{name}|bytes", f"{name} writes {total} bytes for {cnt} element(s) of {elems} bytes; size.write-agree (and the generated size()) assume "
                            f"{'the element sizes' if per == 'sum' else str(per) + ' per element'} + {const}", file, line)
                break
    ctx.rule("leaf.writer-size", n, floor=12, note="hand-written list writers (achievement arrays, addon array) x element counts: measured bytes = per-element * len + constant used by size.write-agree")


def run_leaf_size_fns(ctx):
    """leaf.size-fns: the hand-written size helpers that the generated size() expressions call (packed_guid_size, the size() of the mask
    built-ins, monster_move_spline_size) return the number of bytes their writers emit — the interpretation is that of C01's leaf.codecs /
    builtin.siblings, of which only the size clauses are reported here"""
    from ..facts import facts
    from . import c01_leaf
    FB = {c: facts(c) for c in ("wow_world_messages", "wow_world_base", "wow_login_messages")}
    n = [0]

    class _SizeOnly:
        samples = ctx.samples

        def violate(self, rule, key, message, file=None, line=None, **kw):
            if key.endswith("|size") or key.endswith("packed-guid-size") or key.startswith("anchor|"):
                ctx.violate("leaf.size-fns", key, message, file, line, **kw)

        def rule(self, *a, **k):
            pass

        def sample(self, *_a):
            pass

        def assume(self, *_a):
            pass
    F = FB["wow_world_messages"]
    rd, wr, sz = (F.fn("crate::util::functions::shared::" + x) for x in ("read_packed_guid", "write_packed_guid", "packed_guid_size"))
    if rd is None or wr is None or sz is None:
        ctx.violate("leaf.size-fns", "anchor|packed-guid", "read_packed_guid / write_packed_guid / packed_guid_size not found (anchor disappeared)")
    else:
        n[0] += c01_leaf.check_packed_guid(_SizeOnly(), FB, "wow_world_messages", rd, wr, sz)
    n[0] += c01_leaf.check_builtins(_SizeOnly(), FB) or 0
    ctx.rule("leaf.size-fns", n[0], floor=256, note="packed_guid_size over the 256 byte-occupancy classes, size() of the mask built-ins and monster_move_spline_size: value = bytes the writer emits")


def run(ctx):
    run_size(ctx)
    run_leaf_writer_sizes(ctx)
    run_leaf_size_fns(ctx)
    run_cycles(ctx)
    try:
        from . import c02_frame
        c02_frame.run_frame(ctx)
        c02_frame.run_frame_writers(ctx)
        c02_frame.run_login_writers(ctx)
        c02_frame.run_expect_gate(ctx)
        c02_frame.run_header_structs(ctx)
    except ImportError:
        ctx.assume("frame.* rules not built yet")
    ctx.assume("that assert_eq!(size, v.len()) in the default writers never fires is derived from size.write-agree, not separately proven")
    return "translation_validation", EXPLANATION, {}
