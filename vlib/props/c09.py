"""C09 — computed minimum/maximum sizes bound every valid encoding (independent recomputation of the bounds)."""
from .. import hir as H
from .. import wowm
from ..containers import container_pairs, parse_guard, read_layout, reader_fns, scope_lookup, state
from ..world import gpath, split_gpath

EXPLANATION = (
    "For every world message the true extremal body lengths are recomputed by interval arithmetic over the reference "
    "layout built from the wowm text (all branches, optionals, array count ranges, leaf limits), and the size guard "
    "extracted from the generated read_inner (`body_size != K`, `!(a..=b).contains(..)`, `body_size > b`) must contain "
    "that interval (up to the header capacity of the expansion/direction); constant-sized containers must have exactly "
    "that size in the guard and in size_without_header. Leaf limits are cross-checked between generator, runtime and checker."
)
GUARD_FLOOR = 2370


def cap_for(pair):
    a = pair["obj"].ast
    if a.kind == "cmsg":
        return 10240
    if pair["scope"] == "wrath":
        return 0xFFFFFF
    return 0xFFFF


def const_of(g, crate, path):
    c = g.f(crate).const(path)
    return int(c["val"]) if c is not None and c["val"] is not None else None


def _find_arrays(items, out):
    for it in items:
        k = it["k"]
        if k == "array":
            out.append(it)
            _find_arrays([it["elem"]], out)
        elif k == "switch":
            for sub in it["table"].values():
                _find_arrays(sub, out)
        elif k == "flagif":
            _find_arrays(it["else"], out)
            for _ens, sub in it["arms"]:
                _find_arrays(sub, out)
        elif k in ("optional", "zlib"):
            _find_arrays(it.get("items", []), out)
    return out


_GUARD_SUMMARIES = {}


def check_alloc_guards(ctx, st):
    """`let allocation_size = count * K; if allocation_size > MAX { return Err(AllocationTooLarge) }`: K may not exceed the minimum
    wire size of one element - otherwise count * K can pass MAX for a count whose elements do fit into a frame, and a valid
    message is rejected."""
    g = st["g"]
    n = 0
    for p in container_pairs():
        a = p["obj"].ast
        if p["login"]:
            continue
        rfs = reader_fns(p)
        if not rfs:
            continue
        rl = wowm.RefLayouts(st["P"].model, scope_lookup(p))
        calc = wowm.SizeCalc(rl, cap_for(p))
        try:
            arrays = _find_arrays(rl.container(a), [])
        except wowm.WowmError:
            continue
        by_count = {}
        for it in arrays:
            if it["count"][0] == "field":
                by_count.setdefault(it["count"][1], []).append(it)
        for fl, crate, fn in rfs:
            body = fn["hir"]
            # the guarded expressions: the left side of `if X > MAX { return Err(AllocationTooLarge..) }` (looked through a local bound
            # by `let`), or the guarded argument of a guard helper (`allocation_guard(count * K, MAX)?`)
            lets = {x[1][1]: x for x in H.walk(body) if H.tag(x) == "let" and H.tag(x[1]) == "bind" and x[2] is not None}
            stmts = []
            for x in H.walk(body):
                if H.tag(x) == "if" and any(H.tag(y) in ("path", "struct", "call") and "AllocationTooLarge" in str(y[1] if H.tag(y) != "call" else H.call_path(y)) for y in H.walk(x[2])):
                    c = H.strip(x[1])
                    if H.tag(c) == "bin" and c[2] in ("Gt", "Ge"):
                        e0 = H.strip(c[4])
                        nm0 = H.local_name(e0)
                        stmts.append(["guard", None, lets[nm0][2] if nm0 in lets else e0])
                elif H.tag(x) == "call" and (H.call_path(x) or "").startswith("crate::"):
                    from ..ranges import guard_fn_summary
                    cp = H.call_path(x)
                    if cp not in _GUARD_SUMMARIES.setdefault(crate, {}):
                        gs_ = guard_fn_summary(g.f(crate).fn(cp))
                        if gs_ is None:
                            from ..ranges import guard_fn_semantic
                            from ..minieval import Mini, Unsupported, Panic

                            def call_(p_, a_, crate=crate):
                                try:
                                    return Mini({c_: g.f(c_) for c_ in ("wow_world_messages", "wow_world_base")} if crate != "wow_login_messages" else {crate: g.f(crate)}, crate).call_fn(p_, list(a_))
                                except (Unsupported, Panic, KeyError, TypeError, ValueError, IndexError, AttributeError, RecursionError):
                                    return None
                            gs_ = guard_fn_semantic(g.f(crate).fn(cp), call_)
                        _GUARD_SUMMARIES[crate][cp] = gs_
                    gs = _GUARD_SUMMARIES[crate][cp]
                    if gs is not None and gs[0] < len(H.call_args(x)):
                        ge = H.call_args(x)[gs[0]]
                        if len(gs) == 3 and gs[2] < len(H.call_args(x)):
                            # guard(count, K, MAX): the guarded quantity is count * K
                            ge = ["bin", "", "Mul", "u64", ge, H.call_args(x)[gs[2]]]
                        stmts.append(["guard", None, ge])
            for stt in stmts:
                n += 1
                e = H.strip(stt[2])
                K = 1
                if H.tag(e) == "bin" and e[2] == "Mul" and H.lit_int(e[5]) is not None:
                    K = H.lit_int(e[5])
                    e = H.strip(e[4])
                while H.tag(e) == "call" and len(H.call_args(e)) == 1 or H.tag(e) == "cast":
                    e = H.strip(H.call_args(e)[0] if H.tag(e) == "call" else e[4])
                cnt = H.local_name(e)
                key = f"{p['scope']}|{a.name}|{fl}|{cnt}"
                cands = by_count.get(cnt) or by_count.get((cnt or "").replace("r#", ""))
                if cnt is None or not cands:
                    ctx.violate("alloc.guard-sound", key + "|shape", f"{a.name} ({p['scope']}) {fn['name']}: allocation guard `{H.short(stt[2], maxlen=60)}` does not refer to the count field of an array of the definition — review", fn["file"], fn["line"])
                    continue
                try:
                    emin = min(calc.item(it["elem"], {})[0] for it in cands)
                except wowm.WowmError as ex:
                    ctx.violate("alloc.guard-sound", key + "|ref", f"{a.name}: element size not computable: {ex}")
                    continue
                if K > max(emin, 1):
                    it0 = cands[0]
                    ctx.violate("alloc.guard-sound", key, f"{a.name} ({p['scope']}) {fn['name']}: the allocation guard counts {K} bytes per element of `{it0.get('name')}`, but one element occupies as little as {emin} byte(s) "
                                f"on the wire: a message with {cnt} >= MAX/{K} elements that fits in a frame is rejected with AllocationTooLargeError", fn["file"], fn["line"])
    ctx.rule("alloc.guard-sound", n, floor=150, note="allocation guards in readers: bytes counted per element <= minimum wire size of the element (so the guard rejects no encoding that fits in a frame)")


def run(ctx):
    st = state()
    g = st["g"]
    n = 0
    n_const = 0
    check_alloc_guards(ctx, st)
    for p in container_pairs():
        a = p["obj"].ast
        if p["login"] or a.kind == "struct":
            continue
        rfs = reader_fns(p)
        if not rfs:
            continue
        rl = wowm.RefLayouts(st["P"].model, scope_lookup(p))
        calc = wowm.SizeCalc(rl, cap_for(p))
        calc.builtin_limits = measured_builtin_limits(g, p["scope"])
        try:
            lo, hi = calc.container(a)
        except wowm.WowmError as e:
            ctx.violate("size.exact-guard", f"{p['scope']}|{a.name}|ref", f"{a.name}: reference size not computable: {e}")
            continue
        cap = cap_for(p)
        want_hi = min(hi, cap)
        for fl, crate, fn in rfs:
            n += 1
            key = f"{p['scope']}|{a.name}|guard"
            canon, ex, findings, rc = read_layout(p, crate, fn)
            guards = [parse_guard(c) for c in ex.guards]
            size_guards = [x for x in guards if x[0] in ("ne", "range", "gt")]
            if not size_guards:
                if ex.panics:
                    continue
                ctx.violate("size.exact-guard", key + "|missing", f"{a.name} ({p['scope']}): read_inner has no body-size guard; wowm size interval is [{lo}, {hi}]", fn["file"], fn["line"])
                continue
            gd = size_guards[0]
            if lo == hi:
                n_const += 1
                if gd != ("ne", lo):
                    ctx.violate("size.exact-guard", key + "|const", f"{a.name} ({p['scope']}): constant-sized ({lo} bytes by the wowm definition) but the guard is {gd}", fn["file"], fn["line"])
            else:
                if gd[0] == "ne":
                    ctx.violate("size.exact-guard", key + "|notconst", f"{a.name} ({p['scope']}): guard demands exactly {gd[1]} bytes but encodings range over [{lo}, {hi}]", fn["file"], fn["line"])
                    continue
                ga, gb = (gd[1], gd[2]) if gd[0] == "range" else (0, gd[1])
                if ga > lo:
                    ctx.violate("size.exact-guard", key + f"|min|{ga}>{lo}", f"{a.name} ({p['scope']}): guard minimum {ga} rejects the shortest valid encoding ({lo} bytes) (wowm {a.file}:{a.line})", fn["file"], fn["line"])
                if gb < want_hi:
                    ctx.violate("size.exact-guard", key + f"|max|{gb}<{want_hi}", f"{a.name} ({p['scope']}): guard maximum {gb} rejects valid encodings up to {want_hi} bytes (wowm {a.file}:{a.line})", fn["file"], fn["line"])
            if n <= 3:
                ctx.sample({"message": a.name, "scope": p["scope"], "reference_interval": [lo, hi if hi != wowm.INF else "inf"], "guard": list(gd)})
        # D2: size_without_header literal of constant-sized messages
        if lo == hi:
            crate, lpath = split_gpath(p["rust"])
            F = g.f(crate)
            fn = F.fn(f"<{lpath} as crate::traits::Message>::size_without_header")
            if fn is not None:
                v = H.lit_int(fn["hir"])
                if v is None:
                    body = H.strip(fn["hir"])
                    # `self.size() as u32` is also fine: size() is checked against the writer by C02
                    if not (H.tag(body) == "cast" and H.is_mcall(body[4]) and H.mcall(body[4])["name"] == "size"):
                        ctx.violate("size.exact-guard", f"{p['scope']}|{a.name}|swh", f"{a.name}: size_without_header of a constant-sized message is neither the literal {lo} nor self.size(): {H.short(body)}", fn["file"], fn["line"])
                elif v != lo:
                    ctx.violate("size.exact-guard", f"{p['scope']}|{a.name}|swh", f"{a.name} ({p['scope']}): size_without_header returns {v}, the wowm definition gives {lo} bytes", fn["file"], fn["line"])
    # D3: leaf limits three-way agreement
    limits = 0
    for (crate, path, want, what) in LEAF_CONSTS:
        limits += 1
        v = const_of(g, crate, path)
        if v is None and what.startswith("runtime CString limit"):
            # the limit is no longer a named constant (inlined literal, loop bound, moved item): measure it - the reader is interpreted
            # for every string length up to the limit and one beyond (the interpretation of C01's leaf.codecs)
            from ..facts import facts as _facts
            from . import c01_leaf
            FB = {c: _facts(c) for c in ("wow_world_messages", "wow_world_base", "wow_login_messages")}
            readers = [f for f in FB[crate].all("fn", lambda q: q.startswith("crate::util::") and q.split("::")[-1].endswith("read_c_string_to_vec"))]

            class _Lim:
                samples = ctx.samples

                def violate(self, rule, key, message, file=None, line=None, **kw):
                    ctx.violate("leaf.limits", f"{crate}|measured|{key}", f"runtime CString limit of {crate} measured from the reader: {message}", file, line)
            if not readers:
                ctx.violate("leaf.limits", f"{crate}|{path}|missing", f"neither the constant {path} ({what}) nor a CString reader was found in {crate} (anchor disappeared)")
            for rf in readers:
                c01_leaf.check_cstring(_Lim(), FB, crate, rf)
            continue
        if v is None:
            ctx.violate("leaf.limits", f"{crate}|{path}|missing", f"leaf limit constant {path} ({what}) not found in {crate} (anchor disappeared)")
        elif v != want:
            ctx.violate("leaf.limits", f"{crate}|{path}", f"{crate} {path} = {v}, the frozen leaf table says {want} ({what}); generator, runtime and checker must agree")
    ctx.rule("size.exact-guard", n, floor=GUARD_FLOOR, note=f"read_inner guards vs recomputed intervals ({n_const} constant-sized)")
    ctx.rule("leaf.limits", limits, floor=len(LEAF_CONSTS), note="leaf/capacity constants in generator and runtime vs frozen table")
    check_mask_bounds(ctx, g)
    ctx.analysed.update({"programs": n})
    ctx.assume("leaf limits (CString <= 256, SizedCString <= 4+8000, masks, ...) are the codec's own definition of its domain; they are frozen in vlib/wowm.py and cross-checked, not derived")
    ctx.assume("the CMSG cap 10240 and the header capacities 0xFFFF / 0xFFFFFF are domain limits")
    ctx.assume("the sizes{} published in the IR are not inspected (producing the IR means running the generator)")
    return "translation_validation", EXPLANATION, {}


MASK_TYPES = [
    # (expansion, hand-written reader, generator constant for the minimum, for the maximum)
    ("vanilla", "crate::manual::vanilla::aura_mask::AuraMask::read", "crate::parser::types::sizes::AURA_MASK_MIN_SIZE", "crate::parser::types::sizes::AURA_MASK_MAX_SIZE"),
    ("tbc", "crate::manual::tbc::aura_mask::AuraMask::read", "crate::parser::types::sizes::AURA_MASK_MIN_SIZE", "crate::parser::types::sizes::AURA_MASK_MAX_SIZE"),
    ("wrath", "crate::manual::wrath::aura_mask::AuraMask::read", "crate::parser::types::sizes::AURA_MASK_MIN_SIZE", "crate::parser::types::sizes::AURA_MASK_MAX_SIZE"),
    ("wrath", "crate::manual::wrath::enchant_mask::EnchantMask::read", "crate::ENCHANT_MASK_SMALLEST_ALLOWED", "crate::ENCHANT_MASK_LARGEST_ALLOWED"),
    ("wrath", "crate::manual::wrath::cache_mask::CacheMask::read", "crate::parser::types::sizes::CACHE_MASK_MIN", "crate::parser::types::sizes::CACHE_MASK_MAX"),
]


_MEASURED = {}


def measured_builtin_limits(g, scope):
    """{builtin name: (min, max)} measured from the hand-written readers of the expansion (all-zero / all-ones mask), for the types of
    MASK_TYPES; types that cannot be measured keep the table's value"""
    if scope in _MEASURED:
        return _MEASURED[scope]
    from ..minieval import Mini, Stream, Unsupported, Panic
    FB = {c: g.f(c) for c in ("wow_world_messages", "wow_world_base")}
    out = {}
    for exp, reader, _cmin, _cmax in MASK_TYPES:
        if exp != scope or FB["wow_world_messages"].fn(reader) is None:
            continue
        try:
            got = []
            for byte in (0x00, 0xFF):
                st = Stream([byte] * 4096)
                r = Mini(FB, "wow_world_messages").call_fn(reader, [st])
                if not (isinstance(r, tuple) and r[0] == "Ok"):
                    raise Unsupported("reader")
                got.append(st.pos)
            out[reader.split("::")[-2]] = (got[0], got[1])
        except (Unsupported, Panic, KeyError, TypeError, ValueError, IndexError, AttributeError):
            continue
    _MEASURED[scope] = out
    return out


def check_mask_bounds(ctx, g):
    """leaf.mask-bounds: the size bounds the generator assumes for the hand-written mask types are measured against the types' own readers,
    per expansion: a reader given an all-zero mask consumes the smallest encoding, given an all-ones mask (every entry present) the largest.
    The generator's minimum may not exceed the first, its maximum may not be below the second - otherwise the guards computed from them
    reject valid messages."""
    from ..minieval import Mini, Stream, Unsupported, Panic
    FB = {c: g.f(c) for c in ("wow_world_messages", "wow_world_base")}
    P = g.f("wow_message_parser")
    n = 0
    for exp, reader, cmin, cmax in MASK_TYPES:
        fn = FB["wow_world_messages"].fn(reader)
        lo_c, hi_c = P.const(cmin), P.const(cmax)
        key = f"{exp}|{reader.split('::')[-2]}"
        if fn is None or lo_c is None or hi_c is None or lo_c.get("val") is None or hi_c.get("val") is None:
            ctx.violate("leaf.mask-bounds", key + "|anchor", f"{reader} or its generator constants {cmin} / {cmax} not found (anchor disappeared)")
            continue
        got = {}
        try:
            for name, byte in (("min", 0x00), ("max", 0xFF)):
                st = Stream([byte] * 4096)
                r = Mini(FB, "wow_world_messages").call_fn(reader, [st])
                if not (isinstance(r, tuple) and r[0] == "Ok"):
                    raise Unsupported(f"reader returns {str(r)[:60]}")
                got[name] = st.pos
        except (Unsupported, Panic) as e:
            ctx.violate("leaf.mask-bounds", key + "|shape", f"{reader}: not interpretable — review ({e})", fn["file"], fn["line"])
            continue
        n += 1
        if int(lo_c["val"]) > got["min"]:
            ctx.violate("leaf.mask-bounds", key + f"|min|{lo_c['val']}>{got['min']}", f"{exp} {reader.split('::')[-2]}: the generator assumes at least {lo_c['val']} bytes ({cmin}), the type's reader consumes {got['min']} for an empty mask", fn["file"], fn["line"])
        if int(hi_c["val"]) < got["max"]:
            ctx.violate("leaf.mask-bounds", key + f"|max|{hi_c['val']}<{got['max']}", f"{exp} {reader.split('::')[-2]}: the generator assumes at most {hi_c['val']} bytes ({cmax}), the type's reader consumes {got['max']} when every entry of the mask is present: "
                        f"the maximum body size of every {exp} message that contains the type is computed too small and the size guard rejects valid encodings", fn["file"], fn["line"])
    ctx.rule("leaf.mask-bounds", n, floor=5, note="hand-written mask types per expansion: smallest / largest encoding measured from the reader vs the generator's constants")


LEAF_CONSTS = [
    ("wow_message_parser", "crate::CSTRING_LARGEST_ALLOWED", 256, "CString max incl. NUL"),
    ("wow_message_parser", "crate::CSTRING_SMALLEST_ALLOWED", 1, "CString min"),
    ("wow_message_parser", "crate::SIZED_CSTRING_LARGEST_ALLOWED", 8004, "SizedCString max"),
    ("wow_message_parser", "crate::SIZED_CSTRING_SMALLEST_ALLOWED", 5, "SizedCString min"),
    ("wow_message_parser", "crate::STRING_LARGEST_POSSIBLE", 257, "String max"),
    ("wow_message_parser", "crate::STRING_SMALLEST_POSSIBLE", 1, "String min"),
    ("wow_message_parser", "crate::MAX_ALLOCATION_SIZE", 0xFFFF, "allocation budget"),
    ("wow_message_parser", "crate::MAX_ALLOCATION_SIZE_WRATH", 0x7FFFFF, "allocation budget wrath"),
    ("wow_message_parser", "crate::parser::types::sizes::PACKED_GUID_MAX_SIZE", 9, "PackedGuid max"),
    ("wow_message_parser", "crate::parser::types::sizes::PACKED_GUID_MIN_SIZE", 1, "PackedGuid min"),
    ("wow_message_parser", "crate::parser::types::sizes::AURA_MASK_MAX_SIZE", 132, "AuraMask max"),
    ("wow_message_parser", "crate::parser::types::sizes::AURA_MASK_MIN_SIZE", 4, "AuraMask min"),
    ("wow_message_parser", "crate::parser::types::sizes::NAMED_GUID_MAX_SIZE", 8008, "NamedGuid max"),
    ("wow_message_parser", "crate::parser::types::sizes::NAMED_GUID_MIN_SIZE", 8, "NamedGuid min"),
    ("wow_message_parser", "crate::parser::types::sizes::VARIABLE_ITEM_RANDOM_PROPERTY_MAX_SIZE", 8, "VariableItemRandomProperty max"),
    ("wow_message_parser", "crate::parser::types::sizes::VARIABLE_ITEM_RANDOM_PROPERTY_MIN_SIZE", 4, "VariableItemRandomProperty min"),
    ("wow_message_parser", "crate::parser::types::sizes::CACHE_MASK_MAX", 132, "CacheMask max"),
    ("wow_message_parser", "crate::parser::types::sizes::CACHE_MASK_MIN", 4, "CacheMask min"),
    ("wow_message_parser", "crate::ENCHANT_MASK_LARGEST_ALLOWED", 34, "EnchantMask max"),
    ("wow_message_parser", "crate::ENCHANT_MASK_SMALLEST_ALLOWED", 2, "EnchantMask min"),
    ("wow_world_messages", "crate::errors::MAX_ALLOCATION_SIZE", 0xFFFF, "runtime allocation budget"),
    ("wow_world_messages", "crate::errors::MAX_ALLOCATION_SIZE_WRATH", 0x7FFFFF, "runtime allocation budget wrath"),
    ("wow_world_messages", "crate::util::functions::base::read_c_string_to_vec::CSTRING_LARGEST_ALLOWED", 256, "runtime CString limit"),
    ("wow_login_messages", "crate::util::CSTRING_LARGEST_ALLOWED", 256, "runtime CString limit (login)"),
]
