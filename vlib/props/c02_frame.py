"""frame.* rules: header byte accounting of every world reader entry point (C02-D2(b), C02-D3; shared with C05)."""
import re

from .. import hir as H
from ..containers import state
from ..frame import FrameReader, helper_summary, show
from ..world import gpath

READER_RE = re.compile(r"^(?:tokio_|astd_)?(read_unencrypted|read_encrypted)$")
EXPECT_RE = re.compile(r"^(?:tokio_|astd_)?expect_(server|client)_message(_encryption)?$")
FRAME_FLOOR = 72


def entry_points(g):
    """-> list of dict(fn, expansion, direction ('client'|'server' = who sent the message), encrypted)"""
    F = g.f("wow_world_messages")
    out = []
    for fn in F.all("fn", lambda p: "::opcodes::" in p or "::expected::" in p):
        m = READER_RE.match(fn["name"])
        mo = re.match(r"^crate::world::(vanilla|tbc|wrath)::opcodes::(Client|Server)OpcodeMessage::", fn["path"])
        if m and mo:
            out.append({"fn": fn, "exp": mo.group(1), "dir": mo.group(2).lower(), "enc": m.group(1) == "read_encrypted", "kind": "opcodes"})
            continue
        m = EXPECT_RE.match(fn["name"])
        mo = re.match(r"^crate::helper::(vanilla|tbc|wrath)::expected::", fn["path"])
        if m and mo:
            out.append({"fn": fn, "exp": mo.group(1), "dir": m.group(1), "enc": bool(m.group(2)), "kind": "expect"})
    return out


def helpers(g):
    F = g.f("wow_world_messages")
    hs = {}
    for fn in F.all("fn", lambda p: p.endswith("::read_server_body") or p.endswith("::read_client_body")):
        s = helper_summary(g, "wow_world_messages", fn)
        if s:
            hs[fn["path"]] = s
            hs[gpath("wow_world_messages", fn["path"])] = s
    return hs


def norm_len(v):
    """('sub', ('sf', form), k) -> (form, k)"""
    if v is None:
        return None
    k = 0
    while v is not None and v[0] == "sub":
        k += v[2]
        v = v[1]
    if v is not None and v[0] == "sf":
        return (v[1], k)
    return None


def run_frame(ctx, rules=("frame.affine",), want_cipher=False):
    st = state()
    g = st["g"]
    hs = helpers(g)
    eps = entry_points(g)
    n = 0
    for ep in eps:
        fn = ep["fn"]
        key0 = gpath("wow_world_messages", fn["path"])
        fr = FrameReader(g, "wow_world_messages", fn, hs)
        try:
            paths = fr.run()
        except Exception as e:  # noqa
            ctx.violate("frame.affine", f"{key0}|shape", f"{fn['path']}: header reader shape not recognised — review ({type(e).__name__}: {e})", fn["file"], fn["line"])
            continue
        n += 1
        for u in fr.unknown:
            ctx.violate("frame.affine", f"{key0}|shape|{u[:50]}", f"{fn['path']}: {u}", fn["file"], fn["line"])
        op_len = 4 if ep["dir"] == "client" else 2
        paths = [p for p in paths if p.body_len is not None or p.final_call is not None]
        if not paths:
            ctx.violate("frame.affine", f"{key0}|nopath", f"{fn['path']}: no path reads a body", fn["file"], fn["line"])
            continue
        seen_large = False
        seen = set()
        for p in paths:
            large = bool(p.large)
            sig = (large, p.consumed, repr(p.body_len), repr(p.passed), tuple(sorted(p.decrypts.items())), p.body_decrypted)
            if sig in seen:
                continue
            seen.add(sig)
            seen_large = seen_large or large
            form = "l3" if large else "s2"
            size_len = 3 if large else 2
            tag = "large" if large else "small"
            if not want_cipher:
                if large and not (ep["exp"] == "wrath" and ep["dir"] == "server"):
                    ctx.violate("frame.affine", f"{key0}|{tag}|unexpected-large", f"{fn['path']}: a 3-byte size form is parsed although only Wrath server messages have one", fn["file"], fn["line"])
                if p.consumed != size_len + op_len:
                    ctx.violate("frame.affine", f"{key0}|{tag}|header-bytes", f"{fn['path']} ({tag} header path): {p.consumed} header bytes are taken from the stream, the {ep['exp']} {ep['dir']} header is {size_len}+{op_len} bytes", fn["file"], fn["line"])
                bl = norm_len(p.body_len)
                if bl is None:
                    ctx.violate("frame.affine", f"{key0}|{tag}|body-len", f"{fn['path']} ({tag} header path): body length `{show(p.body_len)}` is not size_field - constant", fn["file"], fn["line"])
                else:
                    if bl[0] != form:
                        ctx.violate("frame.affine", f"{key0}|{tag}|size-form", f"{fn['path']} ({tag} header path): the size field is parsed in the {'3' if bl[0]=='l3' else '2'}-byte form", fn["file"], fn["line"])
                    if bl[1] != op_len:
                        ctx.violate("frame.affine", f"{key0}|{tag}|body-bytes",
                                    f"{fn['path']} ({tag} header path): reads size_field - {bl[1]} body bytes; the size field counts the {op_len} opcode bytes plus the body, so "
                                    f"{'one byte of this message is left in the stream' if bl[1] > op_len else 'bytes of the next message are consumed'} "
                                    f"(header {p.consumed} + body must equal {size_len} + size_field)", fn["file"], fn["line"])
                ps = norm_len(p.passed)
                if ps is None or (bl is not None and ps != bl):
                    ctx.violate("frame.affine", f"{key0}|{tag}|passed", f"{fn['path']} ({tag} header path): the body decoder is given `{show(p.passed)}` but the body buffer holds `{show(p.body_len)}` bytes", fn["file"], fn["line"])
            else:
                # cipher stepping
                if ep["enc"]:
                    for b in p.header_bufs:
                        c = p.decrypts.get(b, 0)
                        if c != 1:
                            ctx.violate("cipher.step", f"{key0}|{tag}|{b}", f"{fn['path']} ({tag} header path): header bytes `{b}` pass through the decrypter {c} times (must be exactly once to keep the cipher in step)", fn["file"], fn["line"])
                    if p.body_decrypted:
                        ctx.violate("cipher.step", f"{key0}|{tag}|body", f"{fn['path']}: the message body is passed through the header decrypter", fn["file"], fn["line"])
                else:
                    if any(p.decrypts.values()) or p.body_decrypted:
                        ctx.violate("cipher.step", f"{key0}|{tag}|plain", f"{fn['path']}: plain reader decrypts bytes", fn["file"], fn["line"])
        if not want_cipher and ep["exp"] == "wrath" and ep["dir"] == "server" and not seen_large:
            ctx.violate("frame.affine", f"{key0}|no-large", f"{fn['path']}: Wrath server messages may use the 3-byte size form but this reader never parses it", fn["file"], fn["line"])
        if n <= 2:
            p0 = paths[0]
            ctx.sample({"reader": fn["path"], "header_bytes": p0.consumed, "body_len": show(p0.body_len), "passed_to_decoder": show(p0.passed), "decrypts": p0.decrypts})
    rule = "cipher.step" if want_cipher else "frame.affine"
    ctx.rule(rule, n, floor=FRAME_FLOOR, note="world reader entry points (opcode-enum readers and expect_* helpers, 3 flavours, plain and encrypted)")
    return n
