"""frame.* rules: header byte accounting of every world reader entry point (C02-D2(b), C02-D3; shared with C05)."""
import re

from .. import hir as H
from ..containers import state
from ..frame import FrameReader, helper_summary, show
from ..world import gpath

READER_RE = re.compile(r"^(?:tokio_|astd_)?(read_unencrypted|read_encrypted)$")
EXPECT_RE = re.compile(r"^(?:tokio_|astd_)?expect_(server|client)_message(_encryption)?$")
FRAME_FLOOR = 72


def entry_points(g):
    """-> list of dict(fn, expansion, direction ('client'|'server' = who sent the message), encrypted)"""
    F = g.f("wow_world_messages")
    out = []
    for fn in F.all("fn", lambda p: "::opcodes::" in p or "::expected::" in p):
        m = READER_RE.match(fn["name"])
        mo = re.match(r"^crate::world::(vanilla|tbc|wrath)::opcodes::(Client|Server)OpcodeMessage::", fn["path"])
        if m and mo:
            out.append({"fn": fn, "exp": mo.group(1), "dir": mo.group(2).lower(), "enc": m.group(1) == "read_encrypted", "kind": "opcodes"})
            continue
        m = EXPECT_RE.match(fn["name"])
        mo = re.match(r"^crate::helper::(vanilla|tbc|wrath)::expected::", fn["path"])
        if m and mo:
            out.append({"fn": fn, "exp": mo.group(1), "dir": m.group(1), "enc": bool(m.group(2)), "kind": "expect"})
    return out


def helpers(g):
    F = g.f("wow_world_messages")
    hs = {}
    def calls_read_body(fn):
        return fn.get("hir") is not None and any(H.tag(x) == "call" and (H.call_path(x) or "").endswith("::read_body") for x in H.walk(fn["hir"]))
    for fn in F.all("fn", lambda p: p.startswith("crate::helper::") and "::expected::" in p):
        if not calls_read_body(fn) or fn["name"].startswith(("expect_", "tokio_expect_", "astd_expect_")):
            continue
        s = helper_summary(g, "wow_world_messages", fn)
        if s:
            hs[fn["path"]] = s
            hs[gpath("wow_world_messages", fn["path"])] = s
    return hs


def norm_len(v):
    """('sub', ('sf', form), k) -> (form, k)"""
    if v is None:
        return None
    k = 0
    while v is not None and v[0] == "sub":
        k += v[2]
        v = v[1]
    if v is not None and v[0] == "sf":
        return (v[1], k)
    return None


def run_opcode_width(ctx):
    """C04: the opcode taken from the header reaches its comparison (typed expect helpers) or dispatch (opcode-enum readers) at its
    full wire width - a narrowing cast on the way makes every undefined opcode that aliases a defined one be accepted"""
    st = state()
    g = st["g"]
    hs = helpers(g)
    n = 0
    for ep in entry_points(g):
        fn = ep["fn"]
        fr = FrameReader(g, "wow_world_messages", fn, hs)
        fr.op_len = 4 if ep["dir"] == "client" else 2
        try:
            paths = fr.run()
        except Exception:  # noqa  (shape problems are reported by frame.affine in C02)
            continue
        n += 1
        seen = set()
        for p in paths:
            for kind_, what in p.notes:
                if kind_ == "opcode-narrowed" and what not in seen:
                    seen.add(what)
                    ctx.violate("opc.full-width", f"{gpath('wow_world_messages', fn['path'])}|{what}", f"{fn['path']}: the opcode read from the {ep['dir']} header is narrowed (`{what}`) before it is compared / dispatched: "
                                f"an undefined opcode that equals a defined one modulo 2^{what.split(' as ')[1][1:]} is accepted as that message", fn["file"], fn["line"])
    ctx.rule("opc.full-width", n, floor=FRAME_FLOOR, note="reader entry points: the header's opcode is not narrowed on its way to the comparison / dispatch")
    return n


def run_frame(ctx, rules=("frame.affine",), want_cipher=False):
    st = state()
    g = st["g"]
    hs = helpers(g)
    eps = entry_points(g)
    n = 0
    for ep in eps:
        fn = ep["fn"]
        key0 = gpath("wow_world_messages", fn["path"])
        fr = FrameReader(g, "wow_world_messages", fn, hs)
        fr.op_len = 4 if ep["dir"] == "client" else 2
        try:
            paths = fr.run()
        except Exception as e:  # noqa
            ctx.violate("frame.affine", f"{key0}|shape", f"{fn['path']}: header reader shape not recognised — review ({type(e).__name__}: {e})", fn["file"], fn["line"])
            continue
        n += 1
        for u in fr.unknown:
            ctx.violate("frame.affine", f"{key0}|shape|{u[:50]}", f"{fn['path']}: {u}", fn["file"], fn["line"])
        op_len = 4 if ep["dir"] == "client" else 2
        # a path that leaves after the header was taken from the stream but before the body was: the rest of this frame stays in
        # the stream and the next header is read from the middle of it (and, encrypted, the cipher is stepped on body bytes)
        for p in paths:
            if p.returned in ("call", "other", "err") and p.consumed > 0 and p.body_len is None and not want_cipher:
                ctx.violate("frame.affine", f"{key0}|early-return", f"{fn['path']}: a path returns{' through ' + p.final_call if p.final_call else ' an error' if p.returned == 'err' else ''} after {p.consumed} header bytes were taken from the stream "
                            f"but before the body was read: the body of that frame stays in the stream, so the next read starts in the middle of it (stream no longer aligned on a frame boundary)", fn["file"], fn["line"])
            if not want_cipher:
                for kind_, callee_ in p.notes:
                    if kind_ == "fallible-before-body":
                        ctx.violate("frame.affine", f"{key0}|early-error|{callee_.split('::')[-1]}", f"{fn['path']}: `{callee_.split('::')[-1]}(..)?` can fail after {p.consumed} header bytes were taken from the stream "
                                    "but before the body was read: on that error the body of the frame stays in the stream and the next read starts in the middle of it", fn["file"], fn["line"])
        paths = [p for p in paths if (p.body_len is not None or p.final_call is not None) and not (p.returned is not None and p.body_len is None)]
        if not paths:
            ctx.violate("frame.affine", f"{key0}|nopath", f"{fn['path']}: no path reads a body", fn["file"], fn["line"])
            continue
        seen_large = False
        seen = set()
        for p in paths:
            large = bool(p.large)
            sig = (large, p.consumed, repr(p.body_len), repr(p.passed), tuple(sorted(p.decrypts.items())), p.body_decrypted)
            if sig in seen:
                continue
            seen.add(sig)
            seen_large = seen_large or large
            form = "l3" if large else "s2"
            size_len = 3 if large else 2
            tag = "large" if large else "small"
            if not want_cipher:
                if large and not (ep["exp"] == "wrath" and ep["dir"] == "server"):
                    ctx.violate("frame.affine", f"{key0}|{tag}|unexpected-large", f"{fn['path']}: a 3-byte size form is parsed although only Wrath server messages have one", fn["file"], fn["line"])
                if p.consumed != size_len + op_len:
                    ctx.violate("frame.affine", f"{key0}|{tag}|header-bytes", f"{fn['path']} ({tag} header path): {p.consumed} header bytes are taken from the stream, the {ep['exp']} {ep['dir']} header is {size_len}+{op_len} bytes", fn["file"], fn["line"])
                bl = norm_len(p.body_len)
                if bl is None:
                    ctx.violate("frame.affine", f"{key0}|{tag}|body-len", f"{fn['path']} ({tag} header path): body length `{show(p.body_len)}` is not size_field - constant", fn["file"], fn["line"])
                else:
                    if bl[0] != form:
                        ctx.violate("frame.affine", f"{key0}|{tag}|size-form", f"{fn['path']} ({tag} header path): the size field is parsed in the {'3' if bl[0]=='l3' else '2'}-byte form", fn["file"], fn["line"])
                    if bl[1] != op_len:
                        ctx.violate("frame.affine", f"{key0}|{tag}|body-bytes",
                                    f"{fn['path']} ({tag} header path): reads size_field - {bl[1]} body bytes; the size field counts the {op_len} opcode bytes plus the body, so "
                                    f"{'one byte of this message is left in the stream' if bl[1] > op_len else 'bytes of the next message are consumed'} "
                                    f"(header {p.consumed} + body must equal {size_len} + size_field)", fn["file"], fn["line"])
                ps = norm_len(p.passed)
                if ps is None or (bl is not None and ps != bl):
                    ctx.violate("frame.affine", f"{key0}|{tag}|passed", f"{fn['path']} ({tag} header path): the body decoder is given `{show(p.passed)}` but the body buffer holds `{show(p.body_len)}` bytes", fn["file"], fn["line"])
            else:
                # cipher stepping
                if ep["enc"]:
                    for b in p.header_bufs:
                        c = p.decrypts.get(b, 0)
                        if c != 1:
                            ctx.violate("cipher.step", f"{key0}|{tag}|{b}", f"{fn['path']} ({tag} header path): header bytes `{b}` pass through the decrypter {c} times (must be exactly once to keep the cipher in step)", fn["file"], fn["line"])
                    if p.body_decrypted:
                        ctx.violate("cipher.step", f"{key0}|{tag}|body", f"{fn['path']}: the message body is passed through the header decrypter", fn["file"], fn["line"])
                else:
                    if any(p.decrypts.values()) or p.body_decrypted:
                        ctx.violate("cipher.step", f"{key0}|{tag}|plain", f"{fn['path']}: plain reader decrypts bytes", fn["file"], fn["line"])
        if not want_cipher and ep["exp"] == "wrath" and ep["dir"] == "server" and not seen_large:
            ctx.violate("frame.affine", f"{key0}|no-large", f"{fn['path']}: Wrath server messages may use the 3-byte size form but this reader never parses it", fn["file"], fn["line"])
        if n <= 2:
            p0 = paths[0]
            ctx.sample({"reader": fn["path"], "header_bytes": p0.consumed, "body_len": show(p0.body_len), "passed_to_decoder": show(p0.passed), "decrypts": p0.decrypts})
    rule = "cipher.step" if want_cipher else "frame.affine"
    ctx.rule(rule, n, floor=FRAME_FLOOR, note="world reader entry points (opcode-enum readers and expect_* helpers, 3 flavours, plain and encrypted)")
    return n


# ----------------------------------------------------------------------------------------------
# writer side: piecewise-affine abstract interpretation (vlib/framew.py)
# ----------------------------------------------------------------------------------------------
WRITER_RE = re.compile(r"^(tokio_|astd_)?write_(encrypted|unencrypted)_(client|server)$")
WRITER_FLOOR = 36


def bmax_for(exp, direction):
    if direction == "client":
        return 0xFFFF - 4
    if exp == "wrath":
        return 0x7FFFFF - 2
    return 0xFFFF - 2


def header_sf(hb, size_len, op_len):
    """size-field source and placement check from the header byte assignments of an unencrypted header writer.
    -> (aff or None, placement error or None)"""
    if hb == "srp" or hb is None:
        return None, None
    n = size_len + op_len
    src = None
    for i in range(size_len):
        v = hb.get(i)
        mask = None
        if v is not None and v[0] == "bitop" and v[1] == "BitOr":
            mask = v[3][2] if v[3][0] == "aff" else None
            v = v[2]
        if v is None or v[0] != "byte" or v[1][0] != "bytes" or v[1][3] not in ("be", "le"):
            return None, f"header[{i}] is not a byte of the size"
        b = v[1]
        width = {"u16": 2, "u32": 4, "u64": 8, "usize": 8}.get(b[2])
        if width is None:
            return None, f"header[{i}] is a byte of a {b[2]} value"
        # significance of the byte taken (0 = least significant); on the wire the size is big-endian
        sig = (width - 1 - v[2]) if b[3] == "be" else v[2]
        if sig != size_len - 1 - i:
            return None, f"header[{i}] holds byte {v[2]} of the {b[3]}-ordered {b[2]} size (significance {sig}), expected significance {size_len - 1 - i} (big-endian order on the wire)"
        if i == 0 and size_len == 3 and mask != 0x80:
            return None, "first byte of the 3-byte size form is not OR-ed with 0x80"
        if (i != 0 or size_len == 2) and mask is not None:
            return None, f"header[{i}] is OR-ed with {mask:#x}"
        if src is None:
            src = b[1]
        elif src != b[1]:
            return None, "size bytes come from different values"
    for j in range(op_len):
        v = hb.get(size_len + j)
        if v is None or v[0] != "byte" or v[1][0] != "bytes" or v[1][3] != "le" or v[2] != j:
            return None, f"header[{size_len + j}] is not little-endian opcode byte {j}"
        w = {"u16": 2, "u32": 4}.get(v[1][2])
        if w != op_len:
            return None, f"opcode is written with {w} bytes, the {op_len}-byte form is required"
    if len(hb) != n:
        return None, f"{len(hb)} header bytes assigned, header has {n}"
    return src, None


def run_frame_writers(ctx, only_encrypted=False):
    """only_encrypted: C05's view — the encrypted writers, header-form clauses only (overflow/assert events belong to C02)"""
    from ..framew import analyse_writer
    real_ctx = ctx
    if only_encrypted:
        class _Filter:
            def __init__(self, inner):
                self.inner = inner
                self.samples = inner.samples

            def violate(self, rule, key, message, file=None, line=None, **kw):
                kind = key.rsplit("|", 1)[-1]
                if re.search(r"(?<!un)encrypted", key) and kind in ("placement", "size-field", "form", "header-len", "no-header", "shape"):
                    self.inner.violate("cipher.header-form", key, message, file, line, **kw)

            def sample(self, s_):
                pass

            def rule(self, *a, **k):
                pass
        ctx = _Filter(real_ctx)
    st = state()
    g = st["g"]
    F = g.f("wow_world_messages")
    n = 0
    n_over = 0
    targets = []
    for fn in F.all("fn"):
        m = WRITER_RE.match(fn["name"])
        if not m:
            continue
        mo = re.match(r"^crate::traits::(vanilla|tbc|wrath)::(Server|Client)Message::", fn["path"])
        if mo:
            targets.append((fn, mo.group(1), m.group(3), False))
            continue
        # writers that a message overrides in its `impl ServerMessage / ClientMessage` (compressed messages)
        mo = re.match(r"^<(.+) as crate::traits::(vanilla|tbc|wrath)::(Server|Client)Message>::", fn["path"])
        if mo:
            targets.append((fn, mo.group(2), m.group(3), True))
    for fn, exp, direction, over in targets:
        if over:
            n_over += 1
            n -= 1
        op_len = 4 if direction == "client" else 2
        bmax = bmax_for(exp, direction)
        key0 = gpath("wow_world_messages", fn["path"])
        n += 1
        res = analyse_writer(g, "wow_world_messages", fn, exp, direction, bmax)
        for lo, hi, s, err in res:
            rng = f"body length {lo:#x}..{hi:#x}" if lo != hi else f"body length {lo:#x}"
            pk = f"{key0}|B={lo:#x}"
            if err:
                ctx.violate("frame.affine", f"{key0}|shape", f"{fn['path']}: {err}", fn["file"], fn["line"])
                break
            for kind, msg in s.events:
                ctx.violate("frame.affine", f"{pk}|{kind}", f"{fn['path']}, {rng}: {msg}", fn["file"], fn["line"])
            if any(k in ("overflow", "assert", "panic") for k, _ in s.events):
                continue
            if s.header_len is None:
                ctx.violate("frame.affine", f"{pk}|no-header", f"{fn['path']}, {rng}: no header is written", fn["file"], fn["line"])
                continue
            # which form?
            sf = s.sf
            size_len = s.header_len - op_len
            if sf is None:
                sf, perr = header_sf(s.header_bytes, size_len, op_len)
                if perr:
                    ctx.violate("frame.affine", f"{pk}|placement", f"{fn['path']}, {rng}: {perr}", fn["file"], fn["line"])
                    continue
            if size_len not in (2, 3) or (size_len == 3 and not (exp == "wrath" and direction == "server")):
                ctx.violate("frame.affine", f"{pk}|header-len", f"{fn['path']}, {rng}: header of {s.header_len} bytes", fn["file"], fn["line"])
                continue
            if (sf[1], sf[2]) != (1, op_len):
                ctx.violate("frame.affine", f"{pk}|size-field", f"{fn['path']}, {rng}: size field = {sf[1]}*B+{sf[2]}, must be B+{op_len} (opcode bytes + body)", fn["file"], fn["line"])
            # 3-byte form exactly when the size field needs it (> 0x7FFF), same predicate as wow_srp and the readers
            sflo, sfhi = sf[1] * lo + sf[2], sf[1] * hi + sf[2]
            if exp == "wrath" and direction == "server":
                if size_len == 3 and sflo <= 0x7FFF:
                    ctx.violate("frame.affine", f"{pk}|form", f"{fn['path']}, {rng}: 3-byte size form used although the size field ({sflo:#x}) fits 15 bits", fn["file"], fn["line"])
                if size_len == 2 and sfhi > 0x7FFF:
                    ctx.violate("frame.affine", f"{pk}|form", f"{fn['path']}, {rng}: 2-byte size form used although the size field ({sfhi:#x}) needs the 3-byte form (bit 15 is the large-header marker)", fn["file"], fn["line"])
            # bytes that reach the transport = header + body, whether they were staged in a Vec or written directly; a runtime
            # assert_eq!(size, v.len()) is welcome but not required: size() = bytes written is decided by size.write-agree
            if s.transport is not None:
                t = s.transport[2][0]
                exact = (t[1], t[2]) == (1, s.header_len) or (lo == hi and t[1] * lo + t[2] == lo + s.header_len)
                if not exact:
                    ctx.violate("frame.affine", f"{pk}|bytes", f"{fn['path']}, {rng}: {t[1]}*B+{t[2]} bytes reach the transport, a frame is the {s.header_len} header bytes + B", fn["file"], fn["line"])
        if n <= 2:
            ctx.sample({"writer": fn["path"], "pieces": [(hex(lo), hex(hi), [e[0] for e in (s.events if s else [])]) for lo, hi, s, err in res][:8]})
    if only_encrypted:
        real_ctx.rule("cipher.header-form", (n + n_over) // 2, floor=18 + 42, note="encrypted default writers and the encrypted writers overridden by compressed messages: the header handed to / built for the cipher carries size field = opcode + body in the right form and byte order for every body length")
        return n
    ctx.rule("frame.writers", n, floor=WRITER_FLOOR, note="default write_* methods evaluated over all body lengths the header can express (piecewise-affine domain)")
    ctx.rule("frame.override-writers", n_over, floor=84, note="write_* methods overridden by compressed messages (header placeholder patched after the body is known), same evaluation")
    return n


def run_login_writers(ctx):
    """frame.login-writers: the public write / tokio_write / astd_write of every login message hand the transport exactly the
    bytes write_into_vec produced (opcode byte + body), once"""
    from ..framew import analyse_writer
    st = state()
    g = st["g"]
    F = g.f("wow_login_messages")
    n = 0
    for fn in F.all("fn"):
        if fn["name"] not in ("write", "tokio_write", "astd_write") or " as crate::Message>::" not in fn["path"]:
            continue
        n += 1
        key0 = gpath("wow_login_messages", fn["path"])
        res = analyse_writer(g, "wow_login_messages", fn, "login", "login", 0xFFFF)
        for lo, hi, s, err in res:
            rng = f"{lo:#x}..{hi:#x}" if lo != hi else f"{lo:#x}"
            if err:
                ctx.violate("frame.login-writers", f"{key0}|shape", f"{fn['path']}: {err}", fn["file"], fn["line"])
                break
            for kind, msg in s.events:
                ctx.violate("frame.login-writers", f"{key0}|{kind}", f"{fn['path']}, encoded length {rng}: {msg}", fn["file"], fn["line"])
            if s.events:
                continue
            t = s.transport[2][0] if s.transport is not None else None
            if t is None or (t[1], t[2]) != (1, 0):
                got = f"{t[1]}*N+{t[2]}" if t is not None else "no"
                ctx.violate("frame.login-writers", f"{key0}|bytes", f"{fn['path']}, encoded length N in {rng}: {got} bytes reach the transport, write_into_vec produced N (opcode byte + body)", fn["file"], fn["line"])
    ctx.rule("frame.login-writers", n, floor=90, note="login write / tokio_write / astd_write wrappers: bytes handed to the transport = bytes produced by write_into_vec")
    return n


def _expect_gate_semantic(g, fn):
    """read_*_body(buf, size, opcode) interpreted with M::OPCODE = 0x1234 for the received opcodes 0x1234 (must decode exactly once and return
    what the decoder returned) and 0x1235, 0x34, 0x11234, 0 (must not decode and must return the Opcode error carrying the opcode received).
    -> None (holds), a message (violated), or "shape" (not interpretable: the structural rule decides)"""
    from ..minieval import Mini, Unsupported, Panic
    prm = [q[1] for q in fn["params"] if H.tag(q) == "bind"]
    if "opcode" not in prm or len(prm) != 3:
        return "shape"
    FB = {c: g.f(c) for c in ("wow_world_messages", "wow_world_base")}
    for opc in (0x1234, 0x1235, 0x34, 0x11234, 0):
        calls = []
        m = Mini(FB, "wow_world_messages")
        m.consts = {"crate::traits::Message::OPCODE": 0x1234, "crate::Message::OPCODE": 0x1234}

        def rb(a, calls=calls):
            calls.append(a)
            return ("Ok", ("decoded",))
        m.overrides = {"::Message::read_body": rb, "::opcode_to_name": lambda a: "name"}
        args = [("buf",) if q != "opcode" else opc for q in prm]
        args = [a if a != ("buf",) or prm[i] == prm[0] else 100 for i, a in enumerate(args)]
        try:
            res = m.call_fn(fn["path"], args)
        except (Unsupported, Panic):
            return "shape"
        if opc == 0x1234:
            if len(calls) != 1 or res != ("Ok", ("decoded",)):
                return f"a frame carrying M::OPCODE is not decoded exactly once by M::read_body (calls: {len(calls)}, result {str(res)[:80]})"
        else:
            if calls:
                return f"a frame carrying opcode {opc:#x} is decoded as M although M::OPCODE is 0x1234"
            ok = isinstance(res, tuple) and res[0] == "Err" and isinstance(res[1], tuple) and res[1][0] in ("struct", "variant") and str(res[1][1]).endswith("ExpectedOpcodeError::Opcode") \
                and isinstance(res[1][2], dict) and res[1][2].get("opcode") == opc
            if not ok:
                return f"for the received opcode {opc:#x} (M::OPCODE = 0x1234) the helper does not return ExpectedOpcodeError::Opcode carrying that opcode: {str(res)[:120]}"
    return None


def run_expect_gate(ctx):
    """frame.expect-gate (C02, C04): the body helpers behind the typed world expect_* functions decode M exactly when the opcode
    of the frame equals M::OPCODE, and otherwise return an Opcode error carrying the opcode that was received"""
    from .. import opcodes
    st = state()
    F = st["g"].f("wow_world_messages")
    n = 0
    for exp in ("vanilla", "tbc", "wrath"):
        for side in ("server", "client"):
            name = f"read_{side}_body"
            fn = F.fn(f"crate::helper::{exp}::expected::{name}")
            if fn is None:
                ctx.violate("frame.expect-gate", f"anchor|{exp}|{name}", f"helper::{exp}::expected::{name} not found (anchor disappeared)")
                continue
            n += 1
            key = f"{exp}|{name}"
            sem = _expect_gate_semantic(st["g"], fn)
            if sem is None:
                continue  # decided by interpretation
            if sem != "shape":
                ctx.violate("frame.expect-gate", f"{key}|gate", f"{exp} {name}: {sem}", fn["file"], fn["line"])
                continue
            body = fn["hir"]
            prm = [q[1] for q in fn["params"] if H.tag(q) == "bind"]
            if "opcode" not in prm:
                ctx.violate("frame.expect-gate", f"{key}|param", f"{exp} {name}: no parameter called opcode (parameters {prm}) — review", fn["file"], fn["line"])
                continue
            rebinds = [x for x in H.walk(body) if isinstance(x, list) and x and x[0] == "let" and any(H.tag(q) == "bind" and q[1] == "opcode" for q in H.walk(x[1]))]
            if rebinds:
                ctx.violate("frame.expect-gate", f"{key}|rebound", f"{exp} {name}: the opcode parameter is re-bound before it is compared — review", fn["file"], fn["line"])
            ifs = [x for x in H.walk(body) if H.tag(x) == "if"]
            gates = []
            for x in ifs:
                c = H.strip(x[1])
                if H.tag(c) == "bin" and c[2] == "Eq" and {H.local_name(c[4]) or H.path_of(c[4]), H.local_name(c[5]) or H.path_of(c[5])} == {"opcode", "crate::traits::Message::OPCODE"}:
                    gates.append(x)
            if len(gates) != 1 or len(ifs) != 1:
                ctx.violate("frame.expect-gate", f"{key}|gate", f"{exp} {name}: the decode is not guarded by exactly one test `opcode == M::OPCODE` (conditions found: {[H.short(x[1], maxlen=60) for x in ifs]}): "
                            "a frame carrying another opcode is decoded as M", fn["file"], fn["line"])
                continue
            g_ = gates[0]
            calls_all = [x for x in H.walk(body) if H.tag(x) == "call" and (H.call_path(x) or "").endswith("::read_body")]
            calls_then = [x for x in H.walk(g_[2]) if H.tag(x) == "call" and H.call_path(x) == "crate::traits::Message::read_body" and H.call_gargs(x)[:1] == ["M"]]
            if len(calls_all) != 1 or len(calls_then) != 1:
                ctx.violate("frame.expect-gate", f"{key}|call", f"{exp} {name}: M::read_body is not called exactly once, inside the `opcode == M::OPCODE` branch", fn["file"], fn["line"])
            els = g_[3]
            eb = H.strip(els) if els is not None else None
            if eb is not None and H.tag(eb) == "block" and not eb[1] and eb[2] is not None:
                eb = eb[2]
            if eb is None or not opcodes.is_err_opcode("wow_world_messages", eb, {"opcode"}):
                ctx.violate("frame.expect-gate", f"{key}|else", f"{exp} {name}: when the opcode differs the helper does not return ExpectedOpcodeError::Opcode carrying the opcode that was received: "
                            f"{H.short(els, maxlen=140) if els is not None else 'no else branch'}", fn["file"], fn["line"])
    ctx.rule("frame.expect-gate", n, floor=6, note="read_server_body / read_client_body of three expansions: gate on M::OPCODE, one decode call in the gated branch, offending opcode reported otherwise")
    return n


# ----------------------------------------------------------------------------------------------
# hand-written header structs: byte placement (C02-D2(e), reader side) by abstract interpretation
# ----------------------------------------------------------------------------------------------
HEADER_STRUCTS = [
    # fn, array length, expected size slots (little-endian, as header byte indices; ('m', i, mask) = masked), expected opcode slots
    ("ServerHeader::from_array", 4, [1, 0, None, None], [2, 3]),
    ("ServerHeader::from_large_array", 5, [2, 1, ("m", 0, 0x7F), None], [3, 4]),
    ("ClientHeader::from_array", 6, [1, 0], [2, 3, 4, 5]),
]


def callers_mask_marker(F, path, got, exp):
    """the only difference is the missing 0x7F mask and every caller already passes `x & 0x7F` as that byte"""
    from ..minieval import MTok
    diff = [(g, e) for g, e in zip(got, exp) if g != e]
    if not diff or not all(isinstance(e, MTok) and g == e.tok for g, e in diff):
        return False
    idx = diff[0][1].tok.id
    mask = diff[0][1].mask
    sites = 0
    for fn in F.all("fn"):
        for x in H.walk(fn.get("hir")):
            if H.tag(x) == "call" and H.call_path(x) == path:
                sites += 1
                a = H.strip(H.call_args(x)[0]) if H.call_args(x) else None
                if H.tag(a) != "array" or idx >= len(a[1]):
                    return False
                e = H.strip(a[1][idx])
                if not (H.tag(e) == "bin" and e[2] == "BitAnd" and (H.lit_int(e[5]) == mask or H.lit_int(e[4]) == mask)):
                    return False
    return sites > 0


def run_header_structs(ctx):
    from ..facts import facts
    from ..minieval import Mini, MTok, Panic, Tok, Unsupported, Wide, to_wide
    FB = {c: facts(c) for c in ("wow_world_messages", "wow_world_base")}
    F = FB["wow_world_messages"]
    n = 0
    for name, ln, want_size, want_op in HEADER_STRUCTS:
        path = "crate::util::functions::shared::" + name
        fn = F.fn(path)
        key = "wow_world_messages::" + path
        if fn is None:
            ctx.violate("frame.header-structs", f"{key}|anchor", f"{path} not found (anchor disappeared)")
            continue
        n += 1
        toks = [Tok(i, "any") for i in range(ln)]
        try:
            res = Mini(FB, "wow_world_messages").call_fn(path, [toks])
        except (Unsupported, Panic) as e:
            ctx.violate("frame.header-structs", f"{key}|shape", f"{path}: shape not recognised — review ({e})", fn["file"], fn["line"])
            continue
        if not (isinstance(res, tuple) and res[0] == "struct" and set(res[2]) == {"size", "opcode"}):
            ctx.violate("frame.header-structs", f"{key}|shape", f"{path}: does not build a header with size and opcode: {res!r}", fn["file"], fn["line"])
            continue

        def slot(w):
            if w is None:
                return 0
            if isinstance(w, tuple):
                return MTok(toks[w[1]], w[2])
            return toks[w]

        def describe(sl):
            out = []
            for x in sl:
                if isinstance(x, Tok):
                    out.append(f"b[{x.id}]")
                elif isinstance(x, MTok):
                    out.append(f"b[{x.tok.id}]&{x.mask:#x}")
                else:
                    out.append(str(x))
            return "[" + ", ".join(out) + "] (least significant first)"

        for field, want in (("size", want_size), ("opcode", want_op)):
            got = to_wide(res[2][field], len(want)).slots
            exp = [slot(w) for w in want]
            if got != exp and field == "size" and callers_mask_marker(F, path, got, exp):
                continue
            if got != exp:
                extra = ""
                if field == "size" and any(isinstance(e, MTok) and g == e.tok for g, e in zip(got, exp)):
                    extra = (": the 0x80 marker bit of the 3-byte size form is not removed, so every large message is announced 0x800000 bytes too long "
                             "(the reader then waits for / allocates 8 MiB more than was sent)")
                ctx.violate("frame.header-structs", f"{key}|{field}", f"{path}: {field} is built from {describe(got)}, the header format requires {describe(exp)}{extra}", fn["file"], fn["line"])
    ctx.rule("frame.header-structs", n, floor=3, note="hand-written header parsers evaluated on abstract header bytes (size big-endian, 0x80 marker masked, opcode little-endian of the right width)")
    return n
