"""C17 — generated Wireshark dissector fragments walk every message exactly to its end (translation validation of a text artefact)."""
import os
import re

from .. import wowm
from .. import wshark as W
from ..common import REPO
from ..containers import state

EXPLANATION = (
    "Every case body of tests/wireshark/parser.txt is parsed (C subset emitted by the printer) into a tree of walk items and "
    "compared structurally with the reference layout that an independent parser computes from the wowm text for the Vanilla "
    "(world) or the per-protocol-version (login) definition: field order, widths, endianness flags, string / packed-guid / mask "
    "helpers, loops bounded by the right count variable, if / else-if chains evaluated per declared enumerator (constants "
    "resolved through enums.txt) or per flag set, optional tails, compressed blocks, inlined structs, and nothing after the "
    "last member. Cases and messages must be in bijection; every hf_ field used must be declared and registered, every "
    "constant defined, every variable declared and assigned by an earlier add_ret_uint. All branches of all cases are "
    "covered, which a captured packet cannot do."
)
WS = os.path.join(REPO, "wow_message_parser", "tests", "wireshark")
VANILLA = wowm.EXPANSIONS["vanilla"] if hasattr(wowm, "EXPANSIONS") else None
LOGIN_VERSIONS = [2, 3, 5, 6, 7, 8]


class Mismatch(Exception):
    pass



def _sig(e):
    """what differs, without line numbers: part of the violation key, so that a second, different discrepancy in the same case is another instance"""
    import re as _re
    return _re.sub(r"\s+", " ", _re.sub(r"\bline \d+:? ?", "", str(e))).strip()[:140]

def screaming(name):
    """HitInfo -> HIT_INFO (enum constant prefix used by the printer)"""
    s = re.sub(r"([a-z0-9])([A-Z])", r"\1_\2", name)
    s = re.sub(r"([A-Z]+)([A-Z][a-z])", r"\1_\2", s)
    return s.upper()


class Cmp:
    def __init__(self, ctx, model, lookup, enums, variables, label):
        self.ctx, self.model, self.lookup, self.enums, self.vars, self.label = ctx, model, lookup, enums, variables, label
        self.assigned = set()
        self.used_hf = set()
        self.used_consts = set()
        self.n_items = 0

    # ---- C side helpers ------------------------------------------------------------------------------------------
    def strip(self, items):
        return [x for x in items if x["k"] not in ("push", "pop")]

    def end_ok(self, end, line, what):
        """which end a remaining-length / loop bound is measured to.  Outside a decompressed buffer it must be the message's own end
        (offset_packet_end): the buffer the cursor walks is the TCP segment and may hold further messages.  Inside a decompressed buffer
        (a fresh tvb that starts at 0) it must be that buffer's end: the outer packet's end offset means nothing there."""
        if self.in_zlib:
            if end == "offset_packet_end":
                raise Mismatch(f"line {line}: {what} is measured to `offset_packet_end`, an offset in the outer packet, although the cursor walks the decompressed buffer (which starts at 0): "
                               "the length is wrong by the position of the message in the segment")
        elif end != "offset_packet_end":
            raise Mismatch(f"line {line}: {what} is measured to the end of the buffer ({end}), not to the end of the message: when another message follows in the same segment "
                           "the walk runs on into it")

    def take(self, cs, what):
        if not cs:
            raise Mismatch(f"the fragment ends where the definition still has {what}")
        return cs.pop(0)

    def const_value(self, definer, cname, line):
        self.used_consts.add(cname)
        if cname not in self.enums:
            raise Mismatch(f"line {line}: constant {cname} is not defined in enums.txt")
        return self.enums[cname]

    # ---- reference walk --------------------------------------------------------------------------------------------
    def rl(self):
        return wowm.RefLayouts(self.model, self.lookup)

    def struct_items(self, obj):
        return self.rl().container(obj.ast)

    def seq(self, ref, cs, used_as_var):
        for it in ref:
            self.item(it, cs, used_as_var)

    def leaf_width(self, it):
        k = it["k"]
        leaf = it.get("leaf")
        if k in ("int", "float"):
            return leaf[1], leaf[2]
        if k == "bool":
            return leaf[1], "le"
        if k == "guid":
            return 8, "le"
        if k == "datetime":
            return 4, "le"
        return None, None

    def expect_add(self, c, width, endian, name, line_hint, must_ret=False):
        if c["k"] != "add":
            raise Mismatch(f"line {c['line']}: expected a {width}-byte field for `{name}`, found {c['k']}")
        self.used_hf.add(c["hf"])
        if c["len"] != width:
            raise Mismatch(f"line {c['line']}: `{name}` is {width} byte(s) wide in the definition, the fragment advances {c['len']} ({c['hf']}): every later field is shifted")
        enc = c["enc"]
        if isinstance(width, int) and width > 1 and endian in ("le", "be"):
            want = "ENC_LITTLE_ENDIAN" if endian == "le" else "ENC_BIG_ENDIAN"
            if enc != want:
                self.ctx.violate("ws.layout", f"{self.label}|{name}|endian", f"{self.label}: `{name}` is {'little' if endian == 'le' else 'big'}-endian in the definition, the fragment reads it with {enc}",
                                 "wow_message_parser/tests/wireshark/parser.txt", c["line"])
        elif enc not in ("ENC_LITTLE_ENDIAN", "ENC_NA", "ENC_BIG_ENDIAN"):
            raise Mismatch(f"line {c['line']}: unknown encoding {enc}")
        if "ret" in c:
            if c["ret"] not in self.vars:
                raise Mismatch(f"line {c['line']}: variable {c['ret']} is not declared in variables.txt")
            self.assigned.add(c["ret"])
            if c["ret"] != name:
                raise Mismatch(f"line {c['line']}: value of `{name}` is stored in variable `{c['ret']}`")
        elif must_ret:
            raise Mismatch(f"line {c['line']}: `{name}` steers a later branch or loop but its value is not kept (no add_ret_uint)")

    def item(self, it, cs, used_as_var):
        self.n_items += 1
        k = it["k"]
        name = it.get("name") or it.get("wty")
        if k in ("int", "float", "bool", "guid", "datetime"):
            w, en = self.leaf_width(it)
            c = self.take(cs, f"`{name}`")
            self.expect_add(c, w, en, name, it.get("line"), must_ret=name in used_as_var)
            return
        if k in ("enum", "flag"):
            w = wowm_int_width(it["wire"])
            c = self.take(cs, f"`{name}`")
            self.expect_add(c, w, "le", name, it.get("line"), must_ret=name in used_as_var)
            return
        if k in ("cstring", "sizedcstring", "string", "packedguid"):
            c = self.take(cs, f"`{name}`")
            if c["k"] != k:
                raise Mismatch(f"line {c['line']}: `{name}` is a {it['wty']} in the definition, the fragment has {c['k']}")
            if "hf" in c:
                self.used_hf.add(c["hf"])
            return
        if k == "builtin":
            c = self.take(cs, f"`{name}`")
            if c["k"] != "builtin" or c["bname"] != it["bname"]:
                raise Mismatch(f"line {c['line']}: `{name}` is a {it['bname']}, the fragment has {c['k']} {c.get('bname') or ''}")
            return
        if k == "struct":
            self.seq(self.struct_items(it["obj"]), cs, self.vars_used(self.struct_items(it["obj"])))
            return
        if k == "array":
            self.array(it, cs)
            return
        if k == "switch":
            self.switch(it, cs)
            return
        if k == "flagif":
            self.flagif(it, cs)
            return
        if k == "optional":
            c = self.take(cs, "the optional tail")
            if c["k"] == "if" and c["arms"][0][0] == [("rem>0",)]:
                self.end_ok("buffer_end", c["line"], f"the presence test of optional `{it['name']}`")
            else:
                if c["k"] != "len=":
                    raise Mismatch(f"line {c['line']}: optional `{it['name']}` must start with the remaining-length computation")
                self.end_ok(c.get("end"), c["line"], f"the presence test of optional `{it['name']}`")
                c = self.take(cs, "the optional tail")
                if c["k"] != "if" or c["arms"][0][0] != [("len>0",)]:
                    raise Mismatch(f"line {c['line']}: optional `{it['name']}` is not guarded by `if (len > 0)`")
            if len(c["arms"]) != 1 or c["else"]:
                raise Mismatch(f"line {c['line']}: optional `{it['name']}` is not guarded by `if (len > 0)`")
            inner = self.strip(c["arms"][0][1])
            self.seq(it["items"], inner, self.vars_used(it["items"]))
            self.end(inner, f"optional {it['name']}")
            return
        if k == "zlib":
            self.zlib(it["items"], cs, whole_message=True)
            return
        raise Mismatch(f"reference item {k} not handled")

    def vars_used(self, items):
        out = set()
        for it in items:
            if it["k"] == "array" and it["count"][0] == "field":
                out.add(it["count"][1])
            if it["k"] in ("switch", "flagif"):
                out.add(it["var"])
                subs = list(it["table"].values()) if it["k"] == "switch" else [a[1] for a in it["arms"]] + [it["else"]]
                for s in subs:
                    out |= self.vars_used(s)
            if it["k"] in ("optional", "zlib"):
                out |= self.vars_used(it["items"])
        return out

    def zlib(self, inner_items, cs, whole_message):
        c = self.take(cs, "the decompression step")
        if c["k"] != "uncompress":
            raise Mismatch(f"line {c['line']}: compressed data must be decompressed before it is walked")
        c = self.take(cs, "the decompressed block")
        if c["k"] != "if" or c["arms"][0][0] != [("zlib-ok",)]:
            raise Mismatch(f"line {c['line']}: decompressed block is not guarded by the NULL test")
        body = [x for x in self.strip(c["arms"][0][1]) if x["k"] != "zlib-plumbing"]
        self.in_zlib = True
        try:
            self.seq(inner_items, body, self.vars_used(inner_items))
        finally:
            self.in_zlib = False
        self.end(body, "compressed block")

    in_zlib = False

    def array(self, it, cs):
        name = it["name"]
        elem = it["elem"]
        cnt = it["count"]
        if it.get("compressed"):
            c = self.take(cs, f"decompressed size of `{name}`")
            self.expect_add(c, 4, "le", "decompressed_size", None)
            c = self.take(cs, "the decompression step")
            if c["k"] != "uncompress":
                raise Mismatch(f"line {c['line']}: compressed array `{name}` is not decompressed")
            c = self.take(cs, "the decompressed block")
            if c["k"] != "if" or c["arms"][0][0] != [("zlib-ok",)]:
                raise Mismatch(f"line {c['line']}: decompressed block is not guarded by the NULL test")
            body = [x for x in self.strip(c["arms"][0][1]) if x["k"] != "zlib-plumbing"]
            old = self.in_zlib
            self.in_zlib = True
            try:
                self.array(dict(it, compressed=False), body)
            finally:
                self.in_zlib = old
            self.end(body, f"compressed array {name}")
            return
        is_bytes = elem["k"] == "int" and elem["leaf"][1] == 1
        if is_bytes:
            if cnt[0] == "endless":
                c = self.take(cs, f"`{name}`")
                if c["k"] != "len=":
                    raise Mismatch(f"line {c['line']}: endless byte array `{name}` needs the remaining length")
                self.end_ok(c.get("end"), c["line"], f"the length of the endless byte array `{name}`")
                c = self.take(cs, f"`{name}`")
                self.expect_add(c, "len", None, name, None)
            elif cnt[0] == "fixed":
                c = self.take(cs, f"`{name}`")
                self.expect_add(c, cnt[1], None, name, None)
            else:
                c = self.take(cs, f"`{name}`")
                if cnt[1] not in self.assigned:
                    raise Mismatch(f"line {c['line']}: length variable `{cnt[1]}` of `{name}` has not been read")
                self.expect_add(c, cnt[1], None, name, None)
            return
        c = self.take(cs, f"array `{name}`")
        if c["k"] == "len=" and cs and cs[0]["k"] == "for" and cs[0].get("extra_bound") == "len":
            c = self.take(cs, f"array `{name}`")
        if c["k"] == "for" and c.get("cursor_bound"):
            # `&& cursor < end`: harmless for canonical encodings as long as `end` is the end of the buffer the cursor walks
            want_end = "compression_end" if self.in_zlib else "offset_packet_end"
            if c["cursor_bound"] != want_end:
                raise Mismatch(f"line {c['line']}: the loop over `{name}` also stops when the cursor reaches `{c['cursor_bound']}`, but here the cursor walks the "
                               f"{'decompressed buffer (its end is compression_end; offset_packet_end is a position in the outer packet)' if self.in_zlib else 'packet itself (its end is offset_packet_end)'}: "
                               "the loop ends early and the remaining elements are never walked")
        if c["k"] == "for" and c.get("extra_bound"):
            # an additional bound on the loop counter is harmless only while it cannot cut the walk short
            if c["extra_bound"] != "len":
                raise Mismatch(f"line {c['line']}: the loop over `{name}` is additionally bounded by `{c['extra_bound']}`")
            if self.in_zlib:
                raise Mismatch(f"line {c['line']}: the loop over `{name}` inside a decompressed block is bounded by the remaining length of the outer packet")

            def clobbers(items):
                for x in items:
                    if x["k"] == "len=":
                        return x["line"]
                    for sub in ([x.get("items")] if x.get("items") else []) + [a[1] for a in x.get("arms", [])] + ([x["else"]] if x.get("else") else []) + list((x.get("versions") or {}).values()):
                        r = clobbers(sub)
                        if r:
                            return r
                return None

            line = clobbers(c["items"])
            if line:
                raise Mismatch(f"line {c['line']}: the loop over `{name}` is also bounded by the shared scratch variable `len`, which is reassigned inside the loop body (line {line}): "
                               "after the first element the bound is the remaining length of an inner array, so the loop ends early and the remaining elements are never walked")
        if cnt[0] == "endless":
            want_end = "compression_end" if self.in_zlib else "offset_packet_end"
            if c["k"] != "while":
                raise Mismatch(f"line {c['line']}: endless array `{name}` must loop until {want_end}")
            self.end_ok(c["end"], c["line"], f"the loop over the endless array `{name}`")
        else:
            if c["k"] != "for":
                raise Mismatch(f"line {c['line']}: array `{name}` is not walked by a counted loop (found {c['k']})")
            want = cnt[1]
            if c["count"] != want:
                raise Mismatch(f"line {c['line']}: array `{name}` has {want} elements in the definition, the loop runs to {c['count']}")
            if cnt[0] == "field" and want not in self.assigned:
                raise Mismatch(f"line {c['line']}: loop bound `{want}` is used before it is read")
        body = self.strip(c["items"])
        e = dict(elem)
        e["name"] = name
        self.item(e, body, set())
        self.end(body, f"element of {name}")

    def switch(self, it, cs):
        c = self.take(cs, f"the if on `{it['var']}`")
        if c["k"] != "if":
            raise Mismatch(f"line {c['line']}: expected the conditional on `{it['var']}`, found {c['k']}")
        var = it["var"]
        if var not in self.assigned:
            raise Mismatch(f"line {c['line']}: `{var}` is tested before it is read")
        definer = self.definer_of(var)
        for conds, _ in c["arms"]:
            for cd in conds:
                if len(cd) != 3 or cd[0] != var or cd[1] not in ("==", "!="):
                    raise Mismatch(f"line {c['line']}: enum conditional on `{var}` contains `{cd}`")
        for (en, val, *_r) in definer.fields:
            chosen = None
            for conds, body in c["arms"]:
                hit = False
                for (_v, op, cname) in conds:
                    cv = self.const_value(definer, cname, c["line"])
                    if (op == "==" and cv == val) or (op == "!=" and cv != val):
                        hit = True
                if hit:
                    chosen = body
                    break
            if chosen is None:
                chosen = c["else"] or []
            body = self.strip(list(chosen))
            try:
                self.seq(it["table"][en], body, self.vars_used(it["table"][en]))
                self.end(body, f"branch {var} == {en}")
            except Mismatch as e:
                raise Mismatch(f"for {var} == {en}: {e}")

    def definer_of(self, var):
        d = self.decls.get(var)
        if d is None:
            raise Mismatch(f"conditional on unknown member {var}")
        return d["obj"].ast

    def flagif(self, it, cs):
        c = self.take(cs, f"the if on `{it['var']}`")
        var = it["var"]
        if c["k"] != "if":
            raise Mismatch(f"line {c['line']}: expected the conditional on `{var}`, found {c['k']}")
        if var not in self.assigned:
            raise Mismatch(f"line {c['line']}: `{var}` is tested before it is read")
        definer = self.definer_of(var)
        vals = {f[0]: f[1] for f in definer.fields}
        if len(c["arms"]) != len(it["arms"]):
            raise Mismatch(f"line {c['line']}: the definition has {len(it['arms'])} arm(s) on `{var}`, the fragment {len(c['arms'])}")
        for (ens, ritems), (conds, body) in zip(it["arms"], c["arms"]):
            want = sorted(vals[e] for e in ens)
            got = []
            for cd in conds:
                if len(cd) != 3 or cd[0] != var or cd[1] != "&":
                    raise Mismatch(f"line {c['line']}: flag conditional on `{var}` contains `{cd}`")
                gv = self.const_value(definer, cd[2], c["line"])
                if gv < 0 and definer.base in wowm.BASIC_INT:
                    # a negative C enumerator in `x & E`: the variable holds an unsigned value of the flag's width, so only the low
                    # bits of the (sign-extended) constant can intersect it
                    gv &= (1 << (8 * wowm.BASIC_INT[definer.base][0])) - 1
                got.append(gv)
            if sorted(got) != want:
                raise Mismatch(f"line {c['line']}: arm tests bits {[hex(g) for g in sorted(got)]} of `{var}`, the definition tests {ens} = {[hex(w) for w in want]}")
            b = self.strip(list(body))
            try:
                self.seq(ritems, b, self.vars_used(ritems))
                self.end(b, f"branch {var} & {'|'.join(ens)}")
            except Mismatch as e:
                raise Mismatch(f"in `if ({var} & {'|'.join(ens)})`: {e}")
        eb = self.strip(list(c["else"] or []))
        self.seq(it["else"], eb, self.vars_used(it["else"]))
        self.end(eb, f"else branch of {var}")

    def end(self, cs, where):
        if cs:
            raise Mismatch(f"line {cs[0]['line']}: the fragment continues with {cs[0]['k']} after the end of {where}")

    def container(self, obj, cs):
        """walk container obj against C items cs (mutable list); struct members that steer branches are tracked across inlining"""
        rl = self.rl()
        decls = {}
        items = rl.members(obj.ast.members, decls)
        if "true" in obj.ast.tags.get("compressed", []):
            items = [{"k": "int", "leaf": wowm.LEAF["u32"], "wty": "u32", "name": "decompressed_size"}, {"k": "zlib", "items": items}]
        self.push_decls(decls)
        self.seq(items, cs, self.vars_used(items))

    decls = {}

    def push_decls(self, d):
        self.decls = dict(self.decls, **d)

    # struct inlining needs the struct's own member table for its conditionals
    def struct_items(self, obj):
        rl = self.rl()
        decls = {}
        items = rl.members(obj.ast.members, decls)
        self.push_decls(decls)
        return items


def wowm_int_width(t):
    return {"u8": 1, "i8": 1, "u16": 2, "i16": 2, "u32": 4, "i32": 4, "u64": 8, "i64": 8, "u48": 6}[t]


def run(ctx):
    st = state()
    model = st["P"].model
    try:
        switches = W.parse_parser_txt(open(os.path.join(WS, "parser.txt")).read())
        enums = W.parse_enums(open(os.path.join(WS, "enums.txt")).read())
        imports = W.parse_imports(open(os.path.join(WS, "imports.txt")).read())
        registered = W.parse_register(open(os.path.join(WS, "register.txt")).read())
        variables = W.parse_variables(open(os.path.join(WS, "variables.txt")).read()) | {"len"}
    except (W.WsError, OSError) as e:
        ctx.violate("ws.layout", "parse", f"wireshark fragments could not be parsed: {e}")
        ctx.rule("ws.layout", 0, floor=540)
        return "translation_validation", EXPLANATION, {}
    if len(switches) != 2:
        ctx.violate("ws.layout", "switches", f"parser.txt has {len(switches)} opcode switches, expected world + login")
        return "translation_validation", EXPLANATION, {}
    world, login = switches
    v = wowm.EXPANSIONS["vanilla"]
    used_hf = set()
    used_consts = set()
    n_cases = 0
    n_items = 0
    # ---- world (Vanilla) ------------------------------------------------------------------------------------------------
    msgs = {}
    for o in model.world_objects("vanilla"):
        a = o.ast
        if isinstance(a, wowm.Container) and a.kind in ("cmsg", "smsg", "msg"):
            base = re.sub(r"_(Client|Server)$", "", a.name)
            msgs.setdefault(base, {})[("server" if a.name.endswith("_Server") else "client" if a.name.endswith("_Client") else a.kind)] = o
    n_empty = 0
    for name in sorted(set(msgs) - set(world)):
        if all(not o.ast.members for o in msgs[name].values()):
            n_empty += 1  # an empty body is walked correctly by `default: break;`
            continue
        ctx.violate("ws.layout", f"world|{name}|missing", f"Vanilla message {name} has members but no case in the dissector fragment")
    for name in sorted(set(world) - set(msgs)):
        ctx.violate("ws.layout", f"world|{name}|extra", f"dissector case {name} does not correspond to a Vanilla message")
    lookup = lambda nm: model.lookup_world(nm, v)  # noqa: E731
    for name in sorted(set(msgs) & set(world)):
        line, items = world[name]
        variants = msgs[name]
        n_cases += 1
        try:
            cs = [x for x in items if x["k"] not in ("push", "pop")]
            if set(variants) == {"server", "client"}:
                if len(cs) != 1 or cs[0]["k"] != "if" or cs[0]["arms"][0][0] != [("dir", "server_to_client")] or cs[0]["else"] is None or len(cs[0]["arms"]) != 1:
                    raise Mismatch(f"line {line}: a message with both directions must branch on WOWW_SERVER_TO_CLIENT")
                for side, body in (("server", cs[0]["arms"][0][1]), ("client", cs[0]["else"])):
                    cmpr = Cmp(ctx, model, lookup, enums, variables, f"{name}_{side.capitalize()}")
                    b = cmpr.strip(list(body))
                    cmpr.container(variants[side], b)
                    cmpr.end(b, "the message")
                    used_hf |= cmpr.used_hf
                    used_consts |= cmpr.used_consts
                    n_items += cmpr.n_items
            else:
                side, obj = next(iter(variants.items()))
                # a MSG_ opcode defined for one direction only may be guarded by the direction test
                if len(cs) == 1 and cs[0]["k"] == "if" and cs[0]["arms"][0][0] == [("dir", "server_to_client")] and len(cs[0]["arms"]) == 1 and side in ("server", "client"):
                    other = cs[0]["else"] if side == "server" else cs[0]["arms"][0][1]
                    if other and [x for x in other if x["k"] not in ("push", "pop")]:
                        raise Mismatch(f"line {line}: only the {side} direction of {name} is defined but the other direction walks fields")
                    cs = [x for x in (cs[0]["arms"][0][1] if side == "server" else (cs[0]["else"] or [])) if x["k"] not in ("push", "pop")]
                cmpr = Cmp(ctx, model, lookup, enums, variables, name)
                cmpr.container(obj, cs)
                cmpr.end(cs, "the message")
                used_hf |= cmpr.used_hf
                used_consts |= cmpr.used_consts
                n_items += cmpr.n_items
        except Mismatch as e:
            ctx.violate("ws.layout", f"world|{name}|{_sig(e)}", f"{name}: {e}", "wow_message_parser/tests/wireshark/parser.txt", line)
        except wowm.WowmError as e:
            ctx.violate("ws.layout", f"world|{name}|ref", f"{name}: reference layout failed: {e}")
    # ---- login ---------------------------------------------------------------------------------------------------------------
    for name, (line, items) in sorted(login.items()):
        cs = [x for x in items if x["k"] not in ("push", "pop")]
        if len(cs) == 1 and cs[0]["k"] == "protocol":
            per_version = cs[0]["versions"]
        else:
            per_version = {ver: cs for ver in LOGIN_VERSIONS}
        for ver in LOGIN_VERSIONS:
            objs = {}
            for o in model.login_objects(ver):
                a = o.ast
                if isinstance(a, wowm.Container) and a.kind in ("clogin", "slogin") and re.sub(r"_(Client|Server)$", "", a.name) == name:
                    objs["server" if a.kind == "slogin" else "client"] = o
            if not objs:
                if ver in per_version and len(cs) == 1 and cs[0]["k"] == "protocol":
                    ctx.violate("ws.layout", f"login|{name}|v{ver}|extra", f"{name}: the fragment handles protocol version {ver} but no such message is defined for it", "wow_message_parser/tests/wireshark/parser.txt", line)
                continue
            body = per_version.get(ver)
            if body is None:
                ctx.violate("ws.layout", f"login|{name}|v{ver}|missing", f"{name}: protocol version {ver} is defined but the fragment has no case for it", "wow_message_parser/tests/wireshark/parser.txt", line)
                continue
            n_cases += 1
            lk = (lambda vv: (lambda nm: model.lookup_login(nm, vv)))(ver)
            try:
                b = [x for x in body if x["k"] not in ("push", "pop")]
                if set(objs) == {"server", "client"}:
                    if len(b) != 1 or b[0]["k"] != "if" or b[0]["arms"][0][0] != [("dir", "server_to_client")] or b[0]["else"] is None:
                        raise Mismatch(f"line {line}: a message with both directions must branch on WOW_SERVER_TO_CLIENT")
                    sides = (("server", b[0]["arms"][0][1]), ("client", b[0]["else"]))
                else:
                    side = next(iter(objs))
                    sides = ((side, b),)
                for side, sb in sides:
                    cmpr = Cmp(ctx, model, lk, enums, variables, f"{name}_{side.capitalize()}@v{ver}")
                    sb2 = cmpr.strip(list(sb))
                    cmpr.container(objs[side], sb2)
                    cmpr.end(sb2, "the message")
                    used_hf |= cmpr.used_hf
                    used_consts |= cmpr.used_consts
                    n_items += cmpr.n_items
            except Mismatch as e:
                ctx.violate("ws.layout", f"login|{name}|v{ver}|{_sig(e)}", f"{name} (protocol {ver}): {e}", "wow_message_parser/tests/wireshark/parser.txt", line)
            except wowm.WowmError as e:
                ctx.violate("ws.layout", f"login|{name}|v{ver}|ref", f"{name} (protocol {ver}): reference layout failed: {e}")
    ctx.rule("ws.layout", n_cases + n_empty, floor=560, note=f"{n_empty} empty messages without a case; dissector cases compared with wowm reference layouts ({n_items} reference items walked; world = Vanilla, login = per protocol version)")
    # ---- def-use closure ---------------------------------------------------------------------------------------------------------
    for hf in sorted(used_hf - imports):
        ctx.violate("ws.defuse", f"hf|{hf}|import", f"{hf} is used in parser.txt but not declared in imports.txt")
    for hf in sorted(used_hf - registered):
        ctx.violate("ws.defuse", f"hf|{hf}|register", f"{hf} is used in parser.txt but not registered in register.txt")
    for hf in sorted(imports ^ registered):
        ctx.violate("ws.defuse", f"hf|{hf}|mismatch", f"{hf} is {'declared but not registered' if hf in imports else 'registered but not declared'}")
    # ---- registered field types can hold what the fragments add to them ------------------------------------------------------
    FT_BYTES = {"FT_UINT8": 1, "FT_UINT16": 2, "FT_UINT24": 3, "FT_UINT32": 4, "FT_UINT64": 8, "FT_INT8": 1, "FT_INT16": 2, "FT_INT32": 4, "FT_INT64": 8, "FT_FLOAT": 4}
    HF_WIDTH_EXCEPTIONS = {"hf_wow_realm_type": "login RealmType is registered with its base type u8 although protocol 2/3 carry it as u32 (pre-existing; Wireshark fetches 1..4 bytes for any FT_UINT8..32 field)"}
    reg_text = open(os.path.join(WS, "register.txt"), encoding="utf-8").read()
    par_text = open(os.path.join(WS, "parser.txt"), encoding="utf-8").read()
    reg_types = {m.group(1): m.group(2) for m in re.finditer(r"\{ &(hf_\w+),\s*\{ \"[^\"]*\", \"[^\"]*\",\s*(FT_\w+),", reg_text)}
    widths = {}
    for m in re.finditer(r"ptvcursor_add(?:_ret_uint)?\(ptv, (hf_\w+), (\d+), ENC_\w+", par_text):
        widths.setdefault(m.group(1), set()).add(int(m.group(2)))
    n_types = 0
    for hf, ws_ in sorted(widths.items()):
        ft = reg_types.get(hf)
        if ft is None or ft not in FT_BYTES:
            continue
        n_types += 1
        if max(ws_) > FT_BYTES[ft] and hf not in HF_WIDTH_EXCEPTIONS:
            ctx.violate("ws.hf-types", f"hf|{hf}|width", f"{hf} is registered as {ft} ({FT_BYTES[ft]} byte(s)) but a fragment adds it with {max(ws_)} bytes: the field cannot show the member "
                        f"the definition places there (an upcast member registered with the enum's own width)", "wow_message_parser/tests/wireshark/register.txt", None)
    if len(reg_types) < 800:
        ctx.violate("ws.hf-types", "floor|register", f"only {len(reg_types)} registration entries recognised in register.txt (format changed?)")
    ctx.rule("ws.hf-types", n_types, floor=700, note=f"numeric hf_ fields: registered FT width >= every width the fragments add them with ({len(HF_WIDTH_EXCEPTIONS)} tabled exception)")
    ctx.rule("ws.defuse", len(used_hf) + len(used_consts), floor=900, note=f"{len(used_hf)} hf_ fields and {len(used_consts)} enumerator constants referenced from the fragments")
    ctx.analysed.update({"programs": n_cases})
    ctx.assume("the helper functions of the dissector (add_cstring, add_packed_guid, add_aura_mask, add_update_mask, ...) consume their documented built-in type; ENC_NA is accepted for single bytes and byte arrays")
    ctx.assume("that the printer would regenerate exactly these text files is not decided (running the generator)")
    return "translation_validation", EXPLANATION, {}
