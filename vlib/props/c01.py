"""C01 — every message decodes from and re-encodes to the bytes its wowm definition says (translation validation)."""
from .. import hir as H
from ..containers import container_pairs, read_layout, reader_fns, ref_layout, state, write_layout, writer_fns
from ..layoutcmp import compare
from .. import opcodes

EXPLANATION = (
    "Static translation validation: for every version-expanded wowm container the wire layout extracted from the "
    "generated reader(s) and writer (typed HIR, evaluation-order effect extraction with resolved callees) is compared "
    "structurally, branch by branch, with the reference layout computed from the wowm text by an independent parser. "
    "Opcode dispatch tables are compared with the wowm opcodes; wire values may reach stored fields only through "
    "injective conversions. The hand-written string and packed-guid leaf codecs are interpreted abstractly over every length / mask class. Every container and every branch is covered, which the captured-packet tests are not."
)

READ_FLOOR = 2930
WRITE_FLOOR = 2718
OPC_FLOOR = 22200


def pkey(p):
    return f"{p['scope']}|{p['obj'].name}"


PARTIAL = __import__("re").compile(r"(?:std::io::Read|AsyncReadExt|ReadExt|AsyncRead|BufRead)::(read|read_buf|read_vectored|poll_read|take|bytes|chain|fill_buf|read_until|read_line)$")


def check_partial_reads(ctx, g):
    """A decode path may only use complete reads (read_exact / read_to_end): a single `read` returns however many bytes the
    source (a zlib decoder, a slice, a socket) happens to deliver in one step, so the decoded value depends on buffering.
    Applies to every receiver, in-memory decoders included."""
    n = 0
    complete = 0
    for crate in ("wow_world_messages", "wow_login_messages"):
        F = g.f(crate)
        for m in F.all("mir"):
            for call in m["calls"]:
                callee = call[1] or ""
                if callee.endswith(("::read_exact", "::read_to_end")) and ("Read" in callee):
                    complete += 1
                mm = PARTIAL.search(callee)
                if mm:
                    n += 1
                    ctx.violate("io.complete-reads", f"{crate}::{m['path']}|{mm.group(1)}", f"{m['path']} calls {callee} ({(call[3] or '')[:60]}): a partial read; "
                                "the number of bytes it delivers depends on internal buffering (e.g. a ZlibDecoder inflates at most one input buffer per call), so large inputs are decoded from a partly filled buffer", None, None)
    if not PARTIAL.search("std::io::Read::read") or PARTIAL.search("std::io::Read::read_exact"):
        ctx.violate("io.complete-reads", "fixture", "the partial-read matcher fails its positive/negative example")
    ctx.rule("io.complete-reads", complete, floor=300, note=f"complete reads (read_exact/read_to_end) on decode paths; partial-read calls found: {n} (expected 0; matcher fixture checked)")


PARTIAL_W = __import__("re").compile(r"(?:std::io::Write|AsyncWriteExt|WriteExt|AsyncWrite)::(write|write_vectored|poll_write|write_buf)$")


def check_partial_writes(ctx, g):
    """An encode path may only use complete writes (write_all): a single `write` hands over as many bytes as the sink takes in one
    step (a ZlibEncoder stops when its output buffer is full) and returns the count, so large values are written truncated."""
    n = 0
    complete = 0
    for crate in ("wow_world_messages", "wow_login_messages"):
        F = g.f(crate)
        for m in F.all("mir"):
            for call in m["calls"]:
                callee = call[1] or ""
                if callee.endswith("::write_all") and "Write" in callee:
                    complete += 1
                mm = PARTIAL_W.search(callee)
                if mm:
                    n += 1
                    ctx.violate("io.complete-writes", f"{crate}::{m['path']}|{mm.group(1)}", f"{m['path']} calls {callee} ({(call[3] or '')[:60]}): a partial write; "
                                "the sink may accept only part of the buffer (e.g. a ZlibEncoder whose output buffer is full) and the returned count is the caller's business: large values are encoded truncated", None, None)
    if not PARTIAL_W.search("std::io::Write::write") or PARTIAL_W.search("std::io::Write::write_all"):
        ctx.violate("io.complete-writes", "fixture", "the partial-write matcher fails its positive/negative example")
    ctx.rule("io.complete-writes", complete, floor=7900, note=f"complete writes (write_all) on encode paths; partial-write calls found: {n} (expected 0; matcher fixture checked)")


def check_builtin_lossless(ctx, g):
    """Hand-written decode helpers (manual types, util::functions::shared): a value that comes from the wire may not pass through a
    non-injective integer operation (integer division / remainder, narrowing integer cast) on its way into the decoded value -
    otherwise distinct wire encodings decode to the same value and re-encoding cannot reproduce the bytes."""
    from ..intconv import INT_TYPES, int_range
    F = g.f("wow_world_messages")
    n = 0

    def decode_side(fn):
        nm = fn["name"]
        if nm.startswith(("packed_to_", "read_")) or nm.endswith("_read") or nm == "read":
            return True
        return False

    for fn in F.all("fn", lambda p: p.startswith("crate::util::functions::shared::") or p.startswith("crate::manual::")):
        if fn.get("hir") is None or not decode_side(fn):
            continue
        n += 1
        seen = set()
        for x in H.walk(fn["hir"]):
            if H.tag(x) == "bin" and x[2] in ("Div", "Rem") and x[3] in INT_TYPES:
                d = H.lit_int(x[5])
                if d in (1, -1) or H.lit_int(x[4]) is not None:
                    continue
                k = f"{x[2]}|{H.short(x[4], maxlen=40)}"
                if k in seen:
                    continue
                seen.add(k)
                ctx.violate("taint.lossless-read", f"wow_world_messages::{fn['path']}|{k}",
                            f"{fn['path']}: `{H.short(x, maxlen=80)}` is an integer {'division' if x[2] == 'Div' else 'remainder'} on a value decoded from the wire: "
                            f"the low bits are discarded, so different wire values decode to the same value and the writer cannot reproduce the bytes", fn["file"], fn["line"])
            if H.tag(x) == "cast" and x[2] in INT_TYPES and x[3] in INT_TYPES:
                a, b = int_range(x[2]), int_range(x[3])
                if not (b[0] <= a[0] and a[1] <= b[1]) and INT_TYPES[x[3]][0] < INT_TYPES[x[2]][0]:
                    inner = H.strip(x[4])
                    # a masked or shifted-down value that fits is fine: (v & 0xFF) as u8, (v >> 24) as u8
                    fits = False
                    if H.tag(inner) == "bin" and inner[2] == "BitAnd" and (H.lit_int(inner[5]) or 1 << 70) <= b[1]:
                        fits = True
                    if H.tag(inner) == "bin" and inner[2] == "Shr" and H.lit_int(inner[5]) is not None and INT_TYPES[x[2]][0] - H.lit_int(inner[5]) <= INT_TYPES[x[3]][0]:
                        fits = True
                    if H.tag(inner) in ("mcall", "call") and any(t in H.short(inner) for t in ("len", "count_ones", "size")):
                        fits = True
                    if not fits:
                        k = f"cast|{x[2]}->{x[3]}|{H.short(inner, maxlen=40)}"
                        if k not in seen:
                            seen.add(k)
                            ctx.violate("taint.lossless-read", f"wow_world_messages::{fn['path']}|{k}",
                                        f"{fn['path']}: `{H.short(x, maxlen=80)}` narrows a {x[2]} decoded from the wire to {x[3]}", fn["file"], fn["line"])
    ctx.rule("taint.builtin-lossless", n, floor=20, note="hand-written decode helpers scanned for non-injective integer steps (division, remainder, narrowing casts)")


def run(ctx):
    st = state()
    n_read = n_write = 0
    n_containers = 0
    n_lossy = 0
    skipped = []
    for p in container_pairs():
        a = p["obj"].ast
        rfs = reader_fns(p)
        wfs = writer_fns(p)
        if not rfs and not wfs:
            # types that are never on the wire by themselves (update-mask helper structs)
            skipped.append(pkey(p))
            continue
        n_containers += 1
        ref, _raw = ref_layout(p)
        for fl, crate, fn in rfs:
            n_read += 1
            canon, ex, findings, rc = read_layout(p, crate, fn)
            key = f"{pkey(p)}|read|{fl}"
            for u in ex.unknown:
                ctx.violate("lay.read-write-ref", f"{key}|shape|{u[:60]}", f"{a.name} ({p['scope']}) reader {fn['name']}: shape not recognised: {u}", fn["file"], fn["line"])
            if ex.panics:
                ctx.violate("lay.read-write-ref", f"{key}|panic", f"{a.name} ({p['scope']}) reader {fn['name']} is a deliberate panic!: the message cannot be decoded", fn["file"], fn["line"])
            out = []
            compare(canon, ref, a.name, out, "reader", "wowm")
            for i, (path, msg) in enumerate(out):
                ctx.violate("lay.read-write-ref", f"{key}|{path}|{i}", f"{p['scope']} {fn['name']}: {path}: {msg} (wowm {a.file}:{a.line})", fn["file"], fn["line"])
            seen = set()
            for rule, what, it in findings:
                if rule != "taint.lossless-read":
                    continue
                n_lossy += 1
                k2 = f"{key}|lossy|{it.get('bind')}|{what[:40]}"
                if k2 in seen:
                    continue
                seen.add(k2)
                ctx.violate("taint.lossless-read", k2, f"{a.name} ({p['scope']}) {fn['name']}: field `{it.get('bind')}`: {what}: distinct wire values decode to the same stored value, so re-encoding cannot reproduce the bytes", fn["file"], fn["line"])
        if a.kind != "struct" or rfs:
            if not wfs and rfs:
                ctx.violate("lay.read-write-ref", f"{pkey(p)}|write|missing", f"{a.name} ({p['scope']}): reader present but no write_into_vec found")
        for fl, crate, fn in wfs:
            n_write += 1
            canon, ex, findings, wc = write_layout(p, crate, fn)
            key = f"{pkey(p)}|write"
            for u in ex.unknown:
                ctx.violate("lay.read-write-ref", f"{key}|shape|{u[:60]}", f"{a.name} ({p['scope']}) writer: shape not recognised: {u}", fn["file"], fn["line"])
            out = []
            compare(canon, ref, a.name, out, "writer", "wowm")
            for i, (path, msg) in enumerate(out):
                ctx.violate("lay.read-write-ref", f"{key}|{path}|{i}", f"{p['scope']} write_into_vec: {path}: {msg} (wowm {a.file}:{a.line})", fn["file"], fn["line"])
            if p["login"] and a.kind != "struct":
                oi = getattr(ex, "opcode_item", None)
                if oi is None or oi["w"] != 1:
                    ctx.violate("lay.read-write-ref", f"{key}|opcode-byte", f"{a.name} ({p['scope']}): writer does not start with the one-byte opcode", fn["file"], fn["line"])
        if n_containers <= 3:
            ctx.sample({"container": a.name, "scope": p["scope"], "wowm": f"{a.file}:{a.line}", "reference_items": len(ref),
                        "readers": [f[2]["path"] for f in rfs], "writers": [f[2]["path"] for f in wfs]})
    n_opc = opcodes.check_all(ctx)
    from . import c01_leaf
    leaf_cases = c01_leaf.run(ctx)
    # a reader that refuses an encoding the writer produces breaks decode(encode(v)) = v just as a wrong layout does:
    # allocation guards must not reject element counts that fit in a frame (rule shared with C09)
    from . import c09
    c09.check_alloc_guards(ctx, st)
    check_partial_reads(ctx, st["g"])
    check_partial_writes(ctx, st["g"])
    # the protocol-parameterised login API must hand protocol version K to version K's own codec (rule shared with C14)
    from . import c14
    c14.check_protocol_routing(ctx)
    # the public login writers hand the transport exactly what write_into_vec produced (rule shared with C02)
    from . import c02_frame
    c02_frame.run_login_writers(ctx)
    from . import c11
    c11.check_scope_tables(ctx)
    check_builtin_lossless(ctx, st["g"])
    ctx.rule("lay.read-write-ref", n_read + n_write, floor=READ_FLOOR + WRITE_FLOOR,
             note=f"{n_read} reader and {n_write} writer layouts of {n_containers} containers vs wowm reference ({len(skipped)} non-wire helper structs skipped)")
    ctx.rule("opc.table", n_opc, floor=OPC_FLOOR, note="opcode enum arms / payload types / OPCODE consts / writer delegation")
    ctx.rule("taint.lossless-read", n_read, note=f"wire-read to field conversion chains inspected; {n_lossy} lossy steps seen")
    ctx.analysed.update({"programs": n_containers, "readers": n_read, "writers": n_write, "skipped_non_wire": skipped[:10]})
    ctx.assume("leaf codecs to_le_bytes/from_le_bytes, String::from_utf8, flate2 and std are trusted; byte equality for concrete values follows from layout agreement")
    ctx.assume("the hand-written built-ins are named leaves in the layout comparison; their bodies are decided by leaf.codecs / builtin.siblings / leaf.wrappers here and by C13 (UpdateMask)")
    return "translation_validation", EXPLANATION, {}
