"""C12 — generated flag types obey set algebra over exactly their declared bits.

Every method body is reduced to a per-bit normal form f(inner) = (inner & A) ^ X (closed under &,|,^,! with
constants), with constants taken from rustc's const evaluation, and compared with the specification computed
from the wowm flag definition.  Accepts any syntactic form with the same denotation."""
from .. import hir as H
from ..intconv import INT_TYPES
from ..world import G, Pairing, split_gpath, gpath
from .c11 import check_tryfrom, find_impls

EXPLANATION = (
    "Per-method denotational check: each is_/get_/new_/set_/clear_/all/empty/operator body of every generated flag type "
    "and every synthesised message-local flag struct is reduced to the bitwise normal form (inner & A) ^ X using constants "
    "evaluated by rustc, and compared with the set-algebra specification computed from the wowm flag (independent parser). "
    "A body with the right denotation passes whatever its syntax; integer conversions are decided with the piecewise-affine "
    "denotation of intconv.py."
)


class Unk(Exception):
    pass


def ones(w):
    return (1 << w) - 1


class BitEv:
    """Evaluate an integer expression over `self.inner` to ('f', A, X) or ('c', value)."""

    def __init__(self, g, crate, width, self_names=("self",), consts_used=None, extra=None):
        self.g, self.crate, self.w = g, crate, width
        self.self_names = self_names
        self.consts_used = consts_used if consts_used is not None else []
        self.extra = extra or {}

    def const(self, path):
        gp = gpath(self.crate, path)
        c = self.g.const(gp)
        if c is None or c["val"] is None:
            raise Unk(f"constant {path} not evaluated")
        self.consts_used.append(gp)
        return int(c["val"]) & ones(self.w)

    def ev(self, n, inner_val=None):
        n = H.strip(n)
        t = H.tag(n)
        if t == "field" and n[2] == "inner":
            base = H.strip_refs(n[1])
            if H.tag(base) == "local":
                if base[1] in self.self_names:
                    if inner_val is None:
                        inner_val = getattr(self, "cur", None)
                    return inner_val if inner_val is not None else ("f", ones(self.w), 0)
                if base[1] in self.extra:
                    return self.extra[base[1]]
            raise Unk(f"inner of {H.short(n[1])}")
        if t == "lit" and n[1] == "int":
            return ("c", int(n[2]) & ones(self.w))
        if t == "path":
            return ("c", self.const(n[1]))
        if t == "local" and n[1] in self.extra:
            return self.extra[n[1]]
        if t == "un" and n[2] == "Not":
            return self.op_not(self.ev(n[4], inner_val))
        if t == "bin" and n[2] in ("BitAnd", "BitOr", "BitXor"):
            return self.op(n[2], self.ev(n[4], inner_val), self.ev(n[5], inner_val))
        if t == "mcall":
            mc = H.mcall(n)
            if mc["name"] == "reverse_bits" and mc["path"].startswith("std::num::<impl "):
                a = self.ev(mc["recv"], inner_val)
                ty = mc["path"].split("<impl ")[1].split(">")[0]
                tw = INT_TYPES[ty][0]
                if a[0] != "c":
                    raise Unk("reverse_bits of non-constant")
                v = int(format(a[1], f"0{tw}b")[::-1], 2)
                return ("c", v & ones(self.w))
            if mc["name"] in ("bitand", "bitor", "bitxor") and mc["path"].startswith("std::ops::"):
                opn = {"bitand": "BitAnd", "bitor": "BitOr", "bitxor": "BitXor"}[mc["name"]]
                want = {"bitand": "std::ops::bit::BitAnd::bitand", "bitor": "std::ops::bit::BitOr::bitor", "bitxor": "std::ops::bit::BitXor::bitxor"}[mc["name"]]
                if mc["path"] != want:
                    raise Unk(f"operator method resolves to {mc['path']}")
                return self.op(opn, self.ev(mc["recv"], inner_val), self.ev(mc["args"][0], inner_val))
            if mc["name"] == "as_int" and not mc["args"]:
                r = H.strip_refs(mc["recv"])
                if H.tag(r) == "local" and r[1] in self.extra:
                    return self.extra[r[1]]
        if t == "cast":
            return self.ev(n[4], inner_val)
        raise Unk(f"unrecognised bit expression {H.short(n)}")

    def op_not(self, a):
        if a[0] == "c":
            return ("c", a[1] ^ ones(self.w))
        if a[0] == "f":
            return ("f", a[1], a[2] ^ ones(self.w))
        raise Unk("not of symbolic")

    def op(self, o, a, b):
        if a[0] == "c" and b[0] == "c":
            v = {"BitAnd": a[1] & b[1], "BitOr": a[1] | b[1], "BitXor": a[1] ^ b[1]}[o]
            return ("c", v)
        if a[0] == "c":
            a, b = b, a
        if a[0] == "f" and b[0] == "c":
            A, X, c = a[1], a[2], b[1]
            if o == "BitAnd":
                return ("f", A & c, X & c)
            if o == "BitOr":
                nc = c ^ ones(self.w)
                return ("f", A & nc, (X & nc) | c)
            return ("f", A, X ^ c)
        if a[0] == "sym2" or b[0] == "sym2" or (a[0] == "f" and b[0] == "g") or (a[0] == "g" and b[0] == "f"):
            # binary operator impls: inner OP rhs.inner
            return ("op2", o, a, b)
        raise Unk(f"unsupported operands {a} {o} {b}")


def pred(bev, n):
    """Boolean expression -> list of disjuncts, each ('nz'|'z', A, X)."""
    n = H.strip(n)
    t = H.tag(n)
    if t == "bin" and n[2] == "Or":
        return pred(bev, n[4]) + pred(bev, n[5])
    if t == "bin" and n[2] in ("Ne", "Eq"):
        a, b = bev.ev(n[4]), bev.ev(n[5])
        if a[0] == "c":
            a, b = b, a
        if a[0] == "f" and b[0] == "c":
            # (inner & A) ^ X  ==/!=  c    <=>   (inner & A) ^ (X ^ c)  ==/!=  0
            return [("nz" if n[2] == "Ne" else "z", a[1], a[2] ^ b[1])]
    if t == "bin" and n[2] in ("Gt", "Lt"):
        # unsigned `e > 0` / `0 < e` is `e != 0`
        a, b = (n[4], n[5]) if n[2] == "Gt" else (n[5], n[4])
        if H.lit_int(H.strip(b)) == 0 and not str(n[3]).startswith("i"):
            va = bev.ev(a)
            if va[0] == "f":
                return [("nz", va[1], va[2])]
    if t == "un" and n[2] == "Not":
        inner = pred(bev, n[4])
        if len(inner) == 1:
            k, A, X = inner[0]
            return [("z" if k == "nz" else "nz", A, X)]
    if t == "block" and not n[1] and n[2] is not None:
        return pred(bev, n[2])
    if t == "mcall" and not H.mcall(n)["args"] and H.local_name(H.strip_refs(H.mcall(n)["recv"])) in bev.self_names:
        # a query of the same type used inside another (`self.is_empty() || ..`): its own body decides
        mc = H.mcall(n)
        lp = mc["path"]
        if lp.startswith("crate::") or lp.startswith("<"):
            from ..world import split_gpath
            fn = bev.g.f(bev.crate).fn(lp)
            depth = getattr(bev, "_depth", 0)
            if fn is not None and fn.get("hir") is not None and depth < 4 and "bool" == (fn.get("output") or ""):
                bev._depth = depth + 1
                try:
                    return pred(bev, fn["hir"])
                finally:
                    bev._depth = depth
    raise Unk(f"unrecognised predicate {H.short(n)}")


def pred_eval(disj, raw):
    """truth of a disjunction of atoms ('nz'|'z', A, X) meaning ((raw & A) ^ X) != 0 / == 0"""
    return any((((raw & A) ^ X) != 0) == (k == "nz") for k, A, X in disj)


def pred_differs(d, exp, C, w):
    """None when the extracted predicate d is the specified one; otherwise a description with a witness raw value."""
    norm = []
    for k, A, X in d:
        if k == "z" and X == A and A != 0 and bin(A).count("1") == 1:
            norm.append(("nz", A, 0))  # single bit: containment == intersection
        else:
            norm.append((k, A, X))
    if sorted(norm) == sorted(exp):
        return None
    cands = {0, ones(w), C, ones(w) ^ C}
    for i in range(w):
        cands.add(1 << i)
        if C & (1 << i):
            cands.add(C ^ (1 << i))
    for k, A, X in d:
        cands.update({A, X, A ^ X})
    for raw in sorted(cands):
        got, want = pred_eval(d, raw), pred_eval(exp, raw)
        if got != want:
            return f"for the raw value {raw:#x} the query returns {str(got).lower()} but its bits {'do' if raw & C else 'do not'} intersect the value (extracted test: {d})"
    return f"tests {d}, which could not be shown equal to the specification {exp} — review"


def struct_lit(n):
    n = H.strip(n)
    if H.tag(n) == "struct":
        return {f[0]: f[1] for f in n[2]}
    return None


def is_none(n):
    p = H.path_of(n)
    return p is not None and p.endswith("::None")


def some_of(n):
    n = H.strip(n)
    if H.tag(n) == "call" and (H.call_path(n) or "").endswith("::Some") and len(H.call_args(n)) == 1:
        return H.call_args(n)[0]
    return None


def _if_nodes(body):
    return [x for x in H.walk(body) if H.tag(x) == "if"]


def eval_mutator(bev, fn, opt_fields):
    """Body `self.inner OP= e; [self.f = Some(p)|None;] *self|self` -> (inner fn, {field: 'some:<param>'|'none'}).
    A body with conditionals (`if !self.is_x() { self.inner |= X }`) is decided exactly: the bits its conditions test (I) are enumerated,
    the others stay symbolic, so every condition has a definite truth value in every case; the result is ('cases', I, [(a, f, fields)])."""
    ifs = _if_nodes(fn["hir"])
    if not ifs:
        return _eval_mutator_path(bev, fn, opt_fields, ("f", ones(bev.w), 0))
    I = 0
    for x in ifs:
        for k, A, X in pred(bev, x[1]):
            I |= A
    bits = [i for i in range(bev.w) if I >> i & 1]
    if len(bits) > 12:
        raise Unk(f"conditions test {len(bits)} bits")
    cases = []
    for m in range(1 << len(bits)):
        a = 0
        for j, b in enumerate(bits):
            if m >> j & 1:
                a |= 1 << b
        cur, flds = _eval_mutator_path(bev, fn, opt_fields, ("f", ones(bev.w) & ~I, a))
        cases.append((a, cur, flds))
    flds0 = cases[0][2]
    merged = {k: (v if all(c[2].get(k) == v for c in cases) else "varies") for k, v in flds0.items()}
    for c in cases:
        for k in c[2]:
            merged.setdefault(k, "varies")
    return ("cases", I, cases), merged


def effect_sig(cur):
    if cur[0] == "f":
        return f"and={cur[1]:#x},xor={cur[2]:#x}"
    if cur[0] == "cases":
        return "cases:" + ";".join(f"{a:#x}>{(r[1] if r[0] == 'f' else 0):#x}^{(r[2] if r[0] == 'f' else 0):#x}" for a, r, _ in cur[2][:16])
    return repr(cur)[:80]


def mutator_differs(cur, expA, expX, w):
    """None when the mutator's effect on inner is (inner & expA) ^ expX for every value, else a description with a witness."""
    if cur[0] == "f":
        if (cur[1], cur[2]) == (expA, expX):
            return None
        return f"inner becomes (inner & {cur[1]:#x}) ^ {cur[2]:#x}"
    if cur[0] == "cases":
        I = cur[1]
        for a, r, _ in cur[2]:
            ea, ex = expA & ~I & ones(w), ((a & expA) ^ expX) & ones(w)
            if r[0] != "f" or (r[1], r[2]) != (ea, ex):
                got = f"(inner & {r[1]:#x}) ^ {r[2]:#x}" if r[0] == "f" else repr(r)
                return (f"for a value whose tested bits {I:#x} are {a:#x} inner becomes {got}, expected (inner & {ea:#x}) ^ {ex:#x} "
                        f"(e.g. inner = {a:#x} gives {(r[2] if r[0] == 'f' else 0):#x} instead of {ex:#x})")
        return None
    return f"inner becomes {cur}"


def _eval_block(bev, blk, cur, fields, opt_fields, top):
    ret = None
    blk = H.strip(blk)
    stmts = H.stmts_of(blk)
    for st in stmts:
        k = st[0]
        e = H.strip(st[1])
        if H.tag(e) == "if" and k in ("semi", "expr", "tail"):
            bev.cur = cur
            d = pred(bev, e[1])
            truth = False
            for kk, A, X in d:
                if A != 0:
                    raise Unk(f"condition {H.short(e[1])} is not decided by the enumerated bits")
                truth = truth or ((X != 0) == (kk == "nz"))
            br = e[2] if truth else e[3]
            if br is not None:
                cur, r2 = _eval_block(bev, br, cur, fields, opt_fields, False)
                if r2 is not None:
                    raise Unk("return value inside a conditional")
            continue
        if k in ("semi", "expr"):
            if H.tag(e) == "asgop" and e[2].replace("Assign", "") in ("BitAnd", "BitOr", "BitXor"):
                fc = H.field_chain(e[4])
                if not fc or fc[0] != "self" or fc[1] != ["inner"]:
                    raise Unk(f"assignment target {H.short(e[4])}")
                rhs = bev.ev(e[5], cur)
                cur = bev.op(e[2].replace("Assign", ""), cur, rhs)
            elif H.tag(e) == "asg":
                fc = H.field_chain(e[1])
                if not fc or fc[0] != "self" or len(fc[1]) != 1:
                    raise Unk(f"assignment target {H.short(e[1])}")
                fld = fc[1][0]
                if fld == "inner":
                    cur = bev.ev(e[2], cur)
                elif is_none(e[2]):
                    fields[fld] = "none"
                else:
                    s = some_of(e[2])
                    if s is not None and H.local_name(s):
                        fields[fld] = "some:" + H.local_name(s)
                    else:
                        raise Unk(f"field value {H.short(e[2])}")
            else:
                raise Unk(f"statement {H.short(e)}")
        elif k == "tail":
            r = H.strip_refs(e)
            if H.local_name(r) != "self" or not top:
                raise Unk(f"returns {H.short(e)}")
            ret = "self"
        else:
            raise Unk(f"statement kind {k}")
    return cur, ret


def _eval_mutator_path(bev, fn, opt_fields, cur):
    fields = {}
    try:
        cur, ret = _eval_block(bev, fn["hir"], cur, fields, opt_fields, True)
    finally:
        bev.cur = None
    if ret is None and fn["output"] != "()":
        raise Unk("no return value")
    return cur, fields


def lname(e):
    return e.lower()


def check_flag_type(ctx, g, crate, lpath, wflag, zero_valid, rule_prefix, key0, standalone, flag_consts, group_info=None):
    """Check one Rust flag struct against wowm flag `wflag` (AST Definer)."""
    F = g.f(crate)
    adt = F.adt(lpath)
    n = 0
    fields = {f[0]: f[1] for f in adt["variants"][0][2]}
    ity = fields.get("inner")
    if ity not in INT_TYPES:
        ctx.violate(rule_prefix + ".methods", f"{key0}|inner", f"flag struct {lpath} has no integer `inner` field", adt["file"], adt["line"])
        return 0
    w = INT_TYPES[ity][0]
    opt_fields = [f for f in fields if f != "inner"]
    values = {f[0]: f[1] for f in wflag.fields}
    by_lname = {lname(k): k for k in values}
    # collect methods
    methods = {}
    for im in find_impls(F, lpath):
        if im["trait"] is None:
            for it in im["items"]:
                if it[0] == "fn":
                    methods[it[1]] = it[2]
    def viol(meth, msg, fn=None, sig=None):
        # sig: the observed (wrong) effect, part of the key: a different defect in the same method is another instance
        ctx.violate(rule_prefix + ".methods", f"{key0}|{meth}" + (f"|{sig}" if sig else ""), f"{lpath.split('::')[-1]}::{meth}: {msg}",
                    fn["file"] if fn else adt["file"], fn["line"] if fn else adt["line"])

    seen_enumerators = {}
    for mname, mpath in sorted(methods.items()):
        fn = F.fn(mpath)
        if fn is None:
            continue
        kind = None
        for pre in ("is_", "get_", "new_", "set_", "clear_"):
            if mname.startswith(pre):
                kind, rest = pre[:-1], mname[len(pre):]
                break
        if mname in ("is_empty",):
            kind = None
        if kind is None:
            # empty / all / new / as_int / is_empty
            try:
                if mname == "empty":
                    n += 1
                    sl = struct_lit(fn["hir"])
                    bev = BitEv(g, crate, w)
                    if sl is None or bev.ev(sl["inner"]) != ("c", 0) or any(not is_none(sl[f]) for f in opt_fields):
                        viol(mname, "does not build the zero value with all members None", fn)
                elif mname == "all":
                    n += 1
                    sl = struct_lit(fn["hir"])
                    bev = BitEv(g, crate, w)
                    v = bev.ev(sl["inner"]) if sl else None
                    exp = 0
                    for x in values.values():
                        exp |= x
                    if v != ("c", exp & ones(w)):
                        viol(mname, f"all() = {v}, expected OR of all declared constants {exp:#x}", fn)
                    elif sorted(set(c.split("::")[-1] for c in bev.consts_used)) != sorted(values):
                        viol(mname, "all() does not reference exactly the declared constants", fn)
                elif mname == "as_int":
                    n += 1
                    bev = BitEv(g, crate, w)
                    if bev.ev(fn["hir"]) != ("f", ones(w), 0):
                        viol(mname, "does not return inner unchanged", fn)
                elif mname == "is_empty":
                    n += 1
                    # inner == 0 [&& opt.is_none()...]
                    e = H.strip(fn["hir"])
                    conj = []
                    def flat(x):
                        x = H.strip(x)
                        if H.tag(x) == "bin" and x[2] == "And":
                            flat(x[4]); flat(x[5])
                        else:
                            conj.append(x)
                    flat(e)
                    bev = BitEv(g, crate, w)
                    ok = len(conj) >= 1 and pred(bev, conj[0]) == [("z", ones(w), 0)]
                    rest_f = []
                    for c in conj[1:]:
                        if H.is_mcall(c) and H.mcall(c)["name"] == "is_none":
                            fc = H.field_chain(H.mcall(c)["recv"])
                            if fc and fc[0] == "self":
                                rest_f.append(fc[1][0])
                                continue
                        ok = False
                    if not ok or sorted(rest_f) != sorted(opt_fields):
                        viol(mname, "is not `inner == 0 && every member is None`", fn)
                elif mname == "new":
                    n += 1
                    sl = struct_lit(fn["hir"])
                    pn = [p[1] for p in fn["params"]]
                    if sl is None or any(H.local_name(sl.get(f)) != f for f in ["inner"] + opt_fields) or pn[:1] != ["inner"]:
                        viol(mname, "is not the field-wise constructor", fn)
            except Unk as e:
                viol(mname, f"shape not recognised — review: {e}", fn)
            except (KeyError, TypeError) as e:
                viol(mname, f"shape not recognised — review ({type(e).__name__})", fn)
            continue
        # per-enumerator method
        n += 1
        en = by_lname.get(rest)
        if en is None:
            viol(mname, f"no enumerator named {rest.upper()} in wowm flag {wflag.name} ({wflag.file}:{wflag.line})", fn)
            continue
        seen_enumerators.setdefault(en, set()).add(kind)
        C = values[en] & ones(w)
        group = group_info.get(rest) if group_info else None  # else-if groups: enum-typed member
        try:
            consts_used = []
            bev = BitEv(g, crate, w, consts_used=consts_used)
            member = rest if rest in opt_fields else None
            if kind in ("is", "get") and fn["output"] == "bool":
                d = pred(bev, fn["hir"])
                exp = [("nz", C, 0)]
                if zero_valid:
                    exp.append(("z", ones(w), 0))
                why = pred_differs(d, exp, C, w)
                if why:
                    viol(mname, f"{why}; the is-query must report exactly whether the enumerator's bits {C:#x} intersect the value{' (or the value is zero)' if zero_valid else ''}", fn)
            elif kind == "get":
                # Option<&Member>: self.member.as_ref()
                e = H.strip(fn["hir"])
                ok = H.is_mcall(e) and H.mcall(e)["name"] == "as_ref" and H.field_chain(H.mcall(e)["recv"]) == ("self", [rest])
                if not ok:
                    viol(mname, f"does not return self.{rest}.as_ref()", fn)
            elif kind == "new":
                sl = struct_lit(fn["hir"])
                if sl is None:
                    raise Unk("not a struct literal")
                params = [p[1] for p in fn["params"]]
                extra = {}
                if group is not None and params:
                    extra[params[0]] = ("grp", group)
                bev.extra = extra
                v = bev.ev(sl["inner"])
                if group is not None:
                    if v != ("grp", group):
                        viol(mname, f"inner is {v}, expected the group member's own bits", fn)
                elif v != ("c", C):
                    viol(mname, f"inner = {v}, expected exactly the enumerator's bits {C:#x}", fn)
                for f in opt_fields:
                    if f == member:
                        s = some_of(sl[f])
                        if s is None or H.local_name(s) not in params:
                            viol(mname, f"member {f} not set from the argument", fn)
                    elif not is_none(sl[f]):
                        viol(mname, f"member {f} not None", fn)
            elif kind in ("set", "clear"):
                params = [p[1] for p in fn["params"] if p[1] != "self"]
                extra = {}
                if group is not None and params:
                    extra[params[0]] = ("grp", group)
                bev.extra = extra
                if group is not None and kind == "set":
                    # inner |= member.as_int()
                    try:
                        cur, flds = eval_mutator_group(bev, fn)
                    except Unk:
                        # not the plain two-statement form: decide the setter by interpreting it for every (previous member, new member) pair
                        why = group_set_semantic(g, crate, fn, rest, w, opt_fields)
                        if why:
                            viol(mname, why, fn)
                        continue
                else:
                    cur, flds = eval_mutator(bev, fn, opt_fields)
                if kind == "set":
                    if group is not None:
                        if cur != ("or-grp", group):
                            viol(mname, f"does not OR in the group member's bits: {cur}", fn)
                    else:
                        why = mutator_differs(cur, ones(w) & ~C & ones(w), C, w)
                        if why:
                            viol(mname, f"{why}; specification: inner | {C:#x}", fn, sig=effect_sig(cur))
                    if member and flds.get(member, "").split(":")[0] != "some":
                        viol(mname, f"member {member} not set", fn)
                else:
                    mask = C
                    if group is not None:
                        gm = 0
                        for x in group:
                            gm |= x
                        # removing the named enumerator's bits or the whole group's bits are both accepted readings
                        ok_masks = {C, gm & ones(w)}
                    else:
                        ok_masks = {C}
                    whys = [mutator_differs(cur, ones(w) & ~m, 0, w) for m in sorted(ok_masks)]
                        # (every accepted reading has to fail for a report)
                    if all(whys):
                        viol(mname, f"{whys[0]}; specification: inner & !{C:#x} "
                                    f"(removes exactly bits {C:#x}, keeps all others)", fn, sig=effect_sig(cur))
                    if member and flds.get(member) != "none":
                        viol(mname, f"member {member} not reset to None", fn)
            # the constant referenced must be the enumerator the method is named after
            for cu in consts_used:
                if cu.split("::")[-1] != en and group is None:
                    viol(mname, f"references constant {cu.split('::')[-1]} but is named after {en}", fn)
        except Unk as e:
            viol(mname, f"shape not recognised — review: {e}", fn)
        except (KeyError, TypeError, IndexError) as e:
            viol(mname, f"shape not recognised — review ({type(e).__name__}: {e})", fn)
    # completeness: every non-zero enumerator of a standalone flag type has is/new/set/clear
    if standalone:
        for en, v in values.items():
            if v == 0:
                continue
            got = seen_enumerators.get(en, set())
            for k in ("is", "new", "set", "clear"):
                if k not in got:
                    viol(f"{k}_{lname(en)}", f"missing for enumerator {en}")
    return n


def group_set_semantic(g, crate, fn, member, w, opt_fields):
    """set_<member>(self, new): for every previous state of the else-if group (None or any variant) and two raw values, the result
    must be inner | bits(new) with the member holding `new` - 'set adds exactly that enumerator's bits, leaving every other bit unchanged'"""
    from ..minieval import Mini, Panic, Unsupported, Tok
    from ..facts import facts
    F = g.f(crate)
    FB = {c: facts(c) for c in ("wow_world_messages", "wow_world_base", "wow_login_messages")}
    sty = fn["inputs"][0].lstrip("&").replace("mut ", "")
    pty = fn["inputs"][1]
    adt = F.adt(pty)
    if adt is None or adt["kind"] != "Enum":
        return f"shape not recognised — review (parameter type {pty} is not an enum)"
    ai = pty + "::as_int"
    variants = []
    tok = [5000]
    for vname, _disc, vfields in adt["variants"]:
        flds = {}
        for f in vfields:
            tok[0] += 1
            flds[f[0]] = Tok(tok[0], "any")
        variants.append(("struct", pty + "::" + vname, flds) if vfields else ("variant", (crate + "::" + pty[len("crate::"):]) if pty.startswith("crate::") else pty + "::" + vname))
    variants = [v if v[0] == "struct" else ("variant", v[1] if v[1].endswith("::" + adt["variants"][i][0]) else v[1] + "::" + adt["variants"][i][0]) for i, v in enumerate(variants)]
    try:
        bits = [Mini(FB, crate).call_fn(ai, [v]) for v in variants]
        for oi, old in enumerate([None] + variants):
            for ni, new in enumerate(variants):
                for raw in ({0} | {(bits[oi - 1] if old is not None else 0), (1 << w) - 1}):
                    inner0 = raw | (bits[oi - 1] if old is not None else 0)
                    obj = ("struct", sty, dict({f: "None" for f in opt_fields}, inner=inner0))
                    obj[2][member] = ("Some", old) if old is not None else "None"
                    r = Mini(FB, crate).call_fn(fn["path"], [obj, new])
                    r = r if isinstance(r, tuple) and r and r[0] == "struct" else obj
                    want = inner0 | bits[ni]
                    oname = old[1].split("::")[-1] if old is not None else "no member"
                    nname = new[1].split("::")[-1]
                    if r[2]["inner"] != want:
                        lost = want & ~r[2]["inner"]
                        return (f"set_{member}({nname}) on a value with {oname} present and inner = {inner0:#x} gives inner = {r[2]['inner']:#x}; specification: inner | {bits[ni]:#x} = {want:#x}"
                                f"{' (bits ' + hex(lost) + ' are lost: the flag says the member is absent although its payload is stored)' if lost else ''}")
                    got_m = r[2].get(member)
                    if not (isinstance(got_m, tuple) and got_m[0] == "Some" and got_m[1] is new or got_m == ("Some", new)):
                        return f"set_{member}({nname}) does not store the new member"
    except (Unsupported, Panic, KeyError, TypeError) as e:
        return f"shape not recognised — review ({type(e).__name__}: {e})"
    return None


def eval_mutator_group(bev, fn):
    """self.inner |= member.as_int(); self.member = Some(member); self"""
    stmts = H.stmts_of(fn["hir"])
    cur = None
    flds = {}
    for st in stmts:
        e = H.strip(st[1])
        if st[0] in ("semi", "expr") and H.tag(e) == "asgop" and e[2] in ("BitOr", "BitOrAssign"):
            rhs = bev.ev(e[5])
            if rhs[0] == "grp":
                cur = ("or-grp", rhs[1])
            else:
                raise Unk(f"group set ORs {rhs}")
        elif st[0] in ("semi", "expr") and H.tag(e) == "asg":
            fc = H.field_chain(e[1])
            s = some_of(e[2])
            if fc and s is not None:
                flds[fc[1][0]] = "some:" + (H.local_name(s) or "?")
            else:
                raise Unk(H.short(e))
        elif st[0] == "tail":
            pass
        else:
            raise Unk(H.short(e))
    return cur, flds


def check_ops(ctx, g, crate, lpath, key0):
    """BitAnd/BitOr/BitXor(+Assign) forward to the same operator on inner."""
    F = g.f(crate)
    n = 0
    want = {"BitAnd": "bitand", "BitOr": "bitor", "BitXor": "bitxor"}
    impls = {im["trait"]: im for im in find_impls(F, lpath) if im["trait"]}
    for tr, m in want.items():
        for assign in (False, True):
            tname = f"std::ops::bit::{tr}{'Assign' if assign else ''}"
            mname = m + ("_assign" if assign else "")
            im = impls.get(tname)
            if im is None:
                continue
            n += 1
            fp = [it[2] for it in im["items"] if it[0] == "fn" and it[1] == mname]
            fn = F.fn(fp[0]) if fp else None
            k = f"{key0}|op|{mname}"
            if fn is None:
                ctx.violate("flag.ops", k, f"{lpath}: impl {tname} without {mname}")
                continue
            body = H.strip(fn["hir"])
            if not assign:
                sl = struct_lit(body)
                e = H.strip(sl["inner"]) if sl and set(sl) == {"inner"} else None
            else:
                e = body
            ok = False
            if e is not None:
                if H.tag(e) == "mcall":
                    mc = H.mcall(e)
                    ok = (mc["path"] == f"{tname}::{mname}" and H.field_chain(mc["recv"]) == ("self", ["inner"])
                          and len(mc["args"]) == 1 and H.field_chain(mc["args"][0]) == ("rhs", ["inner"]))
                elif H.tag(e) == "bin" and not assign:
                    ok = e[2] == tr and H.field_chain(e[4]) == ("self", ["inner"]) and H.field_chain(e[5]) == ("rhs", ["inner"])
                elif H.tag(e) == "asgop" and assign:
                    ok = e[2].replace("Assign", "") == tr and H.field_chain(e[4]) == ("self", ["inner"]) and H.field_chain(e[5]) == ("rhs", ["inner"])
            if not ok:
                ctx.violate("flag.ops", k, f"{lpath.split('::')[-1]}: {tname}::{mname} does not forward to the same operator on inner: {H.short(body)}", fn["file"], fn["line"])
    return n


def run(ctx):
    g = G()
    P = Pairing(g)
    rust_to_flag = {}
    n_types = n_consts = n_methods = n_ops = n_conv = 0
    seen = set()
    for pair in P.of_kind("flag"):
        o = pair["obj"].ast
        rust = pair["rust"]
        rust_to_flag.setdefault(rust, o)
        if (rust, id(o)) in seen:
            continue
        seen.add((rust, id(o)))
        crate, lpath = split_gpath(rust)
        F = g.f(crate)
        adt = F.adt(lpath)
        key0 = rust
        if adt is None or adt["kind"] != "Struct":
            ctx.violate("flag.consts", f"{key0}|adt", f"wowm flag {o.name} not paired with a Rust struct at {rust}")
            continue
        n_types += 1
        fields = {f[0]: f[1] for f in adt["variants"][0][2]}
        ity = fields.get("inner")
        base = {"u48": "u64"}.get(o.base, o.base)
        if ity != base:
            ctx.violate("flag.consts", f"{key0}|inner-type", f"flag {o.name}: inner is {ity}, wowm base type {o.base}", adt["file"], adt["line"])
            continue
        # D1 constants
        for (en, val, _raw, _tags, _docs) in o.fields:
            n_consts += 1
            c = F.const(f"{lpath}::{en}")
            if c is None:
                ctx.violate("flag.consts", f"{key0}|const|{en}|missing", f"flag {o.name}: no constant {en}", adt["file"], adt["line"])
            elif c["val"] is None or int(c["val"]) != val or c["ty"] != base:
                ctx.violate("flag.consts", f"{key0}|const|{en}", f"flag {o.name}: constant {en} = {c['val']} ({c['ty']}), wowm value {val} ({o.file}:{o.line})", c["file"], c["line"])
        # no extra integer constants
        declared = {f[0] for f in o.fields}
        for im in find_impls(F, lpath):
            if im["trait"] is None:
                for it in im["items"]:
                    if it[0] == "const" and it[1] not in declared:
                        ctx.violate("flag.consts", f"{key0}|const|{it[1]}|extra", f"flag {o.name}: constant {it[1]} is not a wowm enumerator")
        zv = "true" in o.tags.get("zero_is_always_valid", [])
        n_methods += check_flag_type(ctx, g, crate, lpath, o, zv, "flag", key0, True, None)
        n_ops += check_ops(ctx, g, crate, lpath, key0)
        n_conv += check_tryfrom(ctx, F, crate, lpath, o.name, base, "flag.conv", key0, is_flag=True)
        ctx.sample({"flag": o.name, "rust": rust, "wowm": f"{o.file}:{o.line}", "constants": len(o.fields), "zero_is_always_valid": zv})
    # synthesised message-local flag structs: structs with an `inner` integer field outside the paired flag types
    n_synth = 0
    for crate in ("wow_world_messages", "wow_login_messages"):
        F = g.f(crate)
        for adt in F.all("adt"):
            if adt["kind"] != "Struct" or not adt["variants"]:
                continue
            fields = {f[0]: f[1] for f in adt["variants"][0][2]}
            if "inner" not in fields or fields["inner"] not in INT_TYPES:
                continue
            lpath = adt["path"]
            rust = gpath(crate, lpath)
            if rust in rust_to_flag:
                continue
            # which wowm flag? determined by the constants its methods reference
            ref_flags = set()
            methods = []
            for im in find_impls(F, lpath):
                if im["trait"] is None:
                    for it in im["items"]:
                        if it[0] == "fn":
                            methods.append(it[2])
            for mp in methods:
                fn = F.fn(mp)
                for node in H.walk(fn["hir"]):
                    if node[0] == "path" and node[2].startswith("AssocConst"):
                        owner = gpath(crate, node[1].rsplit("::", 1)[0])
                        if owner in rust_to_flag:
                            ref_flags.add(owner)
            if len(ref_flags) != 1:
                if not methods or all(F.fn(m)["name"] in ("new", "as_int", "empty", "is_empty", "size") for m in methods):
                    continue
                ctx.violate("flag.synth", f"{rust}|flagtype", f"synthesised flag struct {lpath} references {len(ref_flags)} flag types", adt["file"], adt["line"])
                continue
            owner = ref_flags.pop()
            o = rust_to_flag[owner]
            n_synth += 1
            # else-if groups: member whose type is an enum with as_int -> set of enumerator values
            group_info = {}
            for fname, fty in fields.items():
                if fname == "inner":
                    continue
                inner_ty = fty[len("std::option::Option<"):-1] if fty.startswith("std::option::Option<") else fty
                ai = F.fn(inner_ty + "::as_int")
                a2 = F.adt(inner_ty)
                if ai is not None and a2 is not None and a2["kind"] == "Enum":
                    vals = []
                    body = H.strip(ai["hir"])
                    if H.tag(body) == "match":
                        for pat, gd, ab in body[3]:
                            v = H.lit_int(ab)
                            if v is not None:
                                vals.append(v)
                    group_info[fname] = tuple(vals)
                    # group table: variant -> enumerator value by name
                    values = {f[0]: f[1] for f in o.fields}
                    from ..world import enumerator_rust_name
                    exp = {enumerator_rust_name(k): v for k, v in values.items()}
                    if H.tag(body) == "match":
                        for pat, gd, ab in body[3]:
                            while H.tag(pat) in ("pref", "pderef"):
                                pat = pat[1]
                            vn = pat[1].split("::")[-1] if H.tag(pat) in ("ps", "ppath", "ts") else None
                            v = H.lit_int(ab)
                            if vn is None or exp.get(vn) != v:
                                ctx.violate("flag.synth", f"{rust}|group|{fname}|{vn}", f"{inner_ty.split('::')[-1]}::as_int maps {vn} to {v}, wowm enumerator value is {exp.get(vn)}", ai["file"], ai["line"])
            n_methods += check_flag_type(ctx, g, crate, lpath, o, False, "flag", rust, False, None, group_info)
    ctx.rule("flag.consts", n_consts, floor=CONST_FLOOR, note=f"constants of {n_types} flag types vs wowm values")
    ctx.rule("flag.methods", n_methods, floor=METHOD_FLOOR, note=f"method denotations; {n_types} flag types + {n_synth} synthesised structs")
    ctx.rule("flag.ops", n_ops, floor=OPS_FLOOR, note="operator impls forward to inner")
    ctx.rule("flag.conv", n_conv, floor=CONV_FLOOR, note="integer conversion impls (piecewise-affine denotation)")
    ctx.analysed.update({"flag_types": n_types, "synth_structs": n_synth})
    ctx.assume("rustc const evaluation of the flag constants; wowm text read by the independent parser")
    ctx.assume("for else-if groups `clear_` may remove either the named enumerator's bits or the whole group's (statement is silent)")
    return "other", EXPLANATION, {}


CONST_FLOOR = 879
METHOD_FLOOR = 6428
OPS_FLOOR = 336
CONV_FLOOR = 504
